(** * Rpc: proofs about the wire codec (rpc/wire.go): round trip, streams, bad magic. *)
From Coq Require Import List ZArith NArith Bool Arith Lia.
From Jiva Require Import Rpc.Model.
Import ListNotations.
Open Scope N_scope.

(** ** little endian *)

Lemma le_encode_length : forall w n, length (le_encode w n) = w.
Proof. induction w as [|w IH]; intro n; cbn [le_encode length]; [reflexivity | now rewrite IH]. Qed.

Lemma pow256_succ : forall w, 256 ^ N.of_nat (S w) = 256 * 256 ^ N.of_nat w.
Proof. intro w. rewrite Nat2N.inj_succ, N.pow_succ_r'. reflexivity. Qed.

(** the generic round trip: any width *)
Lemma le_roundtrip : forall w n, n < 256 ^ N.of_nat w -> le_decode (le_encode w n) = n.
Proof.
  induction w as [|w IH]; intros n Hn.
  - cbn in Hn. cbn [le_encode le_decode]. lia.
  - cbn [le_encode le_decode]. rewrite IH.
    + pose proof (N.div_mod n 256) as Hd. lia.
    + rewrite pow256_succ in Hn. apply N.div_lt_upper_bound; lia.
Qed.

(** truncation: what is written is the value modulo 256^w (Go's uintN(v) conversions) *)
Lemma le_trunc : forall w n, le_decode (le_encode w n) = n mod 256 ^ N.of_nat w.
Proof.
  induction w as [|w IH]; intro n.
  - cbn. now rewrite N.mod_1_r.
  - cbn [le_encode le_decode]. rewrite IH, pow256_succ.
    assert (H256 : 256 ^ N.of_nat w <> 0) by (apply N.pow_nonzero; lia).
    rewrite (N.mod_mul_r n 256 (256 ^ N.of_nat w)) by lia. reflexivity.
Qed.

Lemma split_at_app : forall d rest, split_at (N.of_nat (length d)) (d ++ rest) = Some (d, rest).
Proof.
  induction d as [|b d IH]; intro rest.
  - rewrite split_at_eq. reflexivity.
  - rewrite split_at_eq. cbn [length app].
    replace (N.of_nat (S (length d)) =? 0) with false by (symmetry; apply N.eqb_neq; lia).
    replace (N.of_nat (S (length d)) - 1) with (N.of_nat (length d)) by lia.
    rewrite IH. reflexivity.
Qed.

Lemma split_at_length : forall bs n h r, split_at n bs = Some (h, r) -> bs = h ++ r /\ N.of_nat (length h) = n.
Proof.
  induction bs as [|b bs IH]; intros n h r H; rewrite split_at_eq in H.
  - destruct (n =? 0) eqn:E; [|discriminate]. apply N.eqb_eq in E. inversion H; subst. split; reflexivity.
  - destruct (n =? 0) eqn:E.
    + apply N.eqb_eq in E. inversion H; subst. split; reflexivity.
    + apply N.eqb_neq in E. destruct (split_at (n - 1) bs) as [[h' r']|] eqn:E2; [|discriminate].
      inversion H; subst. destruct (IH _ _ _ E2) as [-> Hl]. split; [reflexivity|]. cbn [length]. lia.
Qed.

Lemma get_enc : forall w n rest, n < 256 ^ N.of_nat w ->
  get (N.of_nat w) (le_encode w n ++ rest) = Some (n, rest).
Proof.
  intros w n rest Hn. unfold get.
  rewrite <- (le_encode_length w n) at 1. rewrite split_at_app, le_roundtrip by exact Hn. reflexivity.
Qed.

Lemma get2 : forall n rest, n < 2 ^ 16 -> get 2 (le_encode 2 n ++ rest) = Some (n, rest).
Proof. intros n rest H. exact (get_enc 2 n rest H). Qed.
Lemma get4 : forall n rest, n < 2 ^ 32 -> get 4 (le_encode 4 n ++ rest) = Some (n, rest).
Proof. intros n rest H. exact (get_enc 4 n rest H). Qed.
Lemma get8 : forall n rest, n < 2 ^ 64 -> get 8 (le_encode 8 n ++ rest) = Some (n, rest).
Proof. intros n rest H. exact (get_enc 8 n rest H). Qed.

(** ** two's complement *)

Lemma u64_range : forall z, u64_of_z z < 2 ^ 64.
Proof.
  intro z. unfold u64_of_z, two64.
  pose proof (Z.mod_pos_bound z (2 ^ 64)%Z ltac:(lia)) as H.
  change (2 ^ 64) with (Z.to_N (2 ^ 64)%Z). apply Z2N.inj_lt; lia.
Qed.

Lemma z_u64_roundtrip : forall z, (- two63 <= z < two63)%Z -> z_of_u64 (u64_of_z z) = z.
Proof.
  intros z Hz. unfold z_of_u64, u64_of_z, two63, two64 in *.
  pose proof (Z.mod_pos_bound z (2 ^ 64)%Z ltac:(lia)) as Hb.
  rewrite Z2N.id by lia.
  destruct (Z_lt_le_dec z 0) as [Hneg|Hpos].
  - assert (Hm : (z mod 2 ^ 64 = z + 2 ^ 64)%Z).
    { symmetry. apply (Z.mod_unique_pos z (2 ^ 64) (-1)); lia. }
    rewrite Hm. destruct (Z.ltb_spec (z + 2 ^ 64) (2 ^ 63))%Z; lia.
  - rewrite Z.mod_small by lia. destruct (Z.ltb_spec z (2 ^ 63))%Z; lia.
Qed.

(** what a reader sees for any int64 bit pattern: always in range (decode never fails on a value) *)
Lemma z_of_u64_range : forall u, u < 2 ^ 64 -> (- two63 <= z_of_u64 u < two63)%Z.
Proof.
  intros u Hu. unfold z_of_u64, two63, two64.
  assert (Z.of_N u < 2 ^ 64)%Z by (change (2 ^ 64)%Z with (Z.of_N (2 ^ 64)); lia).
  destruct (Z.ltb_spec (Z.of_N u) (2 ^ 63))%Z; lia.
Qed.

(** ** frames *)

Lemma encode_length : forall m, length (encode m) = (30 + length (mdata m))%nat.
Proof. intro m. unfold encode. rewrite !app_length, !le_encode_length. lia. Qed.

Lemma roundtrip_r : forall m rest, wf m -> decode_r (encode m ++ rest) = DOk m rest.
Proof.
  intros [mg sq ty off sz d] rest (Hmg & Hsq & Hty & Hoff & Hsz & Hd). cbn [mmagic mseq mtype moff msize mdata] in *.
  unfold decode_r, encode. cbn [mmagic mseq mtype moff msize mdata].
  rewrite <- !app_assoc.
  rewrite get2 by (subst mg; reflexivity).
  replace (negb (mg =? magic_version)) with false by (subst mg; reflexivity).
  rewrite get4 by exact Hsq. rewrite get4 by exact Hty.
  rewrite get8 by apply u64_range. rewrite get8 by apply u64_range.
  rewrite get4 by exact Hd. rewrite split_at_app.
  rewrite !z_u64_roundtrip by assumption. reflexivity.
Qed.

Theorem roundtrip : forall m rest, wf m -> decode (encode m ++ rest) = Some (m, rest).
Proof. intros m rest H. unfold decode. now rewrite roundtrip_r. Qed.

Lemma wfb_wf : forall m, wfb m = true <-> wf m.
Proof.
  intro m. unfold wfb, wf. rewrite !andb_true_iff, N.eqb_eq, !N.ltb_lt, !Z.leb_le, !Z.ltb_lt. tauto.
Qed.

(** ** streams *)

Lemma decode_many_stream : forall ms fuel, Forall wf ms -> (length ms <= fuel)%nat ->
  decode_many fuel (flat_map encode ms) = (ms, EndClean).
Proof.
  induction ms as [|m ms IH]; intros fuel Hwf Hf.
  - destruct fuel; reflexivity.
  - inversion Hwf as [|? ? Hm Hms]; subst. cbn [flat_map].
    destruct (encode m ++ flat_map encode ms) as [|b t] eqn:E.
    + apply (f_equal (@length N)) in E. rewrite app_length, encode_length in E. cbn in E. lia.
    + rewrite <- E. destruct fuel as [|f]; [cbn in Hf; lia|].
      replace (decode_many (S f) (encode m ++ flat_map encode ms))
        with (match decode_r (encode m ++ flat_map encode ms) with
              | DOk m0 rest => let '(ms0, e) := decode_many f rest in (m0 :: ms0, e)
              | DBadMagic g => ([], EndBadMagic g)
              | DShort => ([], EndShort)
              end) by (rewrite E; reflexivity).
      rewrite roundtrip_r by exact Hm. rewrite IH; [reflexivity | exact Hms | cbn in Hf; lia].
Qed.

Lemma flat_map_encode_length : forall ms, (length ms <= length (flat_map encode ms))%nat.
Proof.
  induction ms as [|m ms IH]; cbn [flat_map length]; [lia|].
  rewrite app_length, encode_length. lia.
Qed.

Theorem stream : forall ms, Forall wf ms -> decode_stream (flat_map encode ms) = (ms, EndClean).
Proof.
  intros ms H. unfold decode_stream. apply decode_many_stream; [exact H | apply flat_map_encode_length].
Qed.

(** frames followed by anything: the frames come out first, the rest is decoded from where they end *)
Lemma decode_many_app : forall ms fuel tail, Forall wf ms ->
  decode_many (length ms + fuel) (flat_map encode ms ++ tail) =
  (let '(ms', e) := decode_many fuel tail in (ms ++ ms', e)).
Proof.
  induction ms as [|m ms IH]; intros fuel tail Hwf.
  - cbn [flat_map length app plus]. destruct (decode_many fuel tail); reflexivity.
  - inversion Hwf as [|? ? Hm Hms]; subst. cbn [flat_map length plus]. rewrite <- app_assoc.
    destruct (encode m ++ flat_map encode ms ++ tail) as [|b t] eqn:E.
    + apply (f_equal (@length N)) in E. rewrite app_length, encode_length in E. cbn in E. lia.
    + rewrite <- E.
      replace (decode_many (S (length ms + fuel)) (encode m ++ flat_map encode ms ++ tail))
        with (match decode_r (encode m ++ flat_map encode ms ++ tail) with
              | DOk m0 rest => let '(ms0, e) := decode_many (length ms + fuel) rest in (m0 :: ms0, e)
              | DBadMagic g => ([], EndBadMagic g)
              | DShort => ([], EndShort)
              end) by (rewrite E; reflexivity).
      rewrite roundtrip_r by exact Hm. rewrite IH by exact Hms.
      destruct (decode_many fuel tail); reflexivity.
Qed.

(** ** bad magic *)

Theorem bad_magic_r : forall bs mg r, get 2 bs = Some (mg, r) -> mg <> magic_version ->
  decode_r bs = DBadMagic mg.
Proof.
  intros bs mg r Hg Hne. unfold decode_r. rewrite Hg.
  replace (negb (mg =? magic_version)) with true; [reflexivity|].
  symmetry. apply negb_true_iff, N.eqb_neq. exact Hne.
Qed.

Theorem bad_magic_frame : forall m rest, mmagic m < 2 ^ 16 -> mmagic m <> magic_version ->
  decode_r (encode m ++ rest) = DBadMagic (mmagic m) /\ decode (encode m ++ rest) = None.
Proof.
  intros m rest Hr Hne.
  assert (H : decode_r (encode m ++ rest) = DBadMagic (mmagic m)).
  { apply bad_magic_r with (r := (le_encode 4 (mseq m) ++ le_encode 4 (mtype m)
      ++ le_encode 8 (u64_of_z (moff m)) ++ le_encode 8 (u64_of_z (msize m))
      ++ le_encode 4 (N.of_nat (length (mdata m))) ++ mdata m) ++ rest); [|exact Hne].
    unfold encode. rewrite <- app_assoc. rewrite get2 by exact Hr. now rewrite <- !app_assoc. }
  split; [exact H|]. unfold decode. now rewrite H.
Qed.

(** a stream that ends inside a frame is an error, never a message *)
Theorem truncated_rejected : forall m k, wf m -> (k < length (encode m))%nat ->
  decode (firstn k (encode m)) = None.
Proof.
  intros m k Hwf Hk. unfold decode.
  destruct (decode_r (firstn k (encode m))) as [m' rest| |] eqn:E; try reflexivity.
  exfalso.
  (* a successful decode consumes a prefix p with decode_r p ++ .. ; compare with the full frame *)
  assert (Hfull := roundtrip_r m (skipn k (encode m) ++ []) Hwf).
  revert E. unfold decode_r, get.
  pose proof (firstn_skipn k (encode m)) as Hsplit.
  (* generic monotonicity of split_at: if it succeeds on a prefix it returns the same head on any extension *)
  assert (Hmono : forall n bs h r ext, split_at n bs = Some (h, r) -> split_at n (bs ++ ext) = Some (h, r ++ ext)).
  { intros n bs; revert n. induction bs as [|b bs IHb]; intros n h r ext Hs; rewrite split_at_eq in Hs; rewrite split_at_eq.
    - destruct (n =? 0); [|discriminate]. inversion Hs; subst. reflexivity.
    - cbn [app]. destruct (n =? 0); [inversion Hs; subst; reflexivity|].
      destruct (split_at (n - 1) bs) as [[h' r']|] eqn:E2; [|discriminate].
      inversion Hs; subst. rewrite (IHb _ _ _ ext E2). reflexivity. }
  intro E.
  destruct (split_at 2 (firstn k (encode m))) as [[h1 b1]|] eqn:E1; [|discriminate].
  destruct (negb (le_decode h1 =? magic_version)) eqn:Emg; [discriminate|].
  destruct (split_at 4 b1) as [[h2 b2]|] eqn:E2; [|discriminate].
  destruct (split_at 4 b2) as [[h3 b3]|] eqn:E3; [|discriminate].
  destruct (split_at 8 b3) as [[h4 b4]|] eqn:E4; [|discriminate].
  destruct (split_at 8 b4) as [[h5 b5]|] eqn:E5; [|discriminate].
  destruct (split_at 4 b5) as [[h6 b6]|] eqn:E6; [|discriminate].
  destruct (split_at (le_decode h6) b6) as [[d r]|] eqn:E7; [|discriminate].
  inversion E; subst m' rest; clear E.
  set (ext := skipn k (encode m)) in *.
  assert (Hd : decode_r (firstn k (encode m) ++ ext) =
               DOk (mkmsg (le_decode h1) (le_decode h2) (le_decode h3) (z_of_u64 (le_decode h4)) (z_of_u64 (le_decode h5)) d) (r ++ ext)).
  { unfold decode_r, get.
    rewrite (Hmono _ _ _ _ ext E1), Emg, (Hmono _ _ _ _ ext E2), (Hmono _ _ _ _ ext E3),
      (Hmono _ _ _ _ ext E4), (Hmono _ _ _ _ ext E5), (Hmono _ _ _ _ ext E6), (Hmono _ _ _ _ ext E7). reflexivity. }
  rewrite Hsplit in Hd.
  pose proof (roundtrip_r m [] Hwf) as Hr. rewrite app_nil_r in Hr. rewrite Hr in Hd.
  inversion Hd as [[Hm Hrest]].
  (* the rest after the whole frame is empty, so the extension was empty, so k >= length *)
  symmetry in Hrest. apply app_eq_nil in Hrest. destruct Hrest as [_ Hext].
  unfold ext in Hext. apply (f_equal (@length N)) in Hext. rewrite skipn_length in Hext. cbn [length] in Hext. lia.
Qed.

(** ** non-vacuity *)

Example ex_frame : msg := mkmsg magic_version 7 TypeWrite 4096 3 [1; 2; 255].
Example ex_frame_wf : wf ex_frame.
Proof. apply wfb_wf. vm_compute. reflexivity. Qed.
Example ex_frame_bytes : encode ex_frame =
  [3; 27;  7; 0; 0; 0;  1; 0; 0; 0;  0; 16; 0; 0; 0; 0; 0; 0;  3; 0; 0; 0; 0; 0; 0; 0;  3; 0; 0; 0;  1; 2; 255].
Proof. vm_compute. reflexivity. Qed.
Example ex_negative_offset :
  decode (encode (mkmsg magic_version (2 ^ 32 - 1) TypeRead (- two63) (two63 - 1) []) ++ [9]) =
  Some (mkmsg magic_version (2 ^ 32 - 1) TypeRead (- two63) (two63 - 1) [], [9]).
Proof. vm_compute. reflexivity. Qed.
Example ex_bad_magic : decode_r (encode (mkmsg 6914 1 TypeRead 0 0 []) ) = DBadMagic 6914.
Proof. vm_compute. reflexivity. Qed.
Example ex_huge_length : decode_r ([3; 27] ++ repeat 0 24 ++ [255; 255; 255; 255] ++ [1; 2; 3]) = DShort.
Proof. vm_compute. reflexivity. Qed.
Example ex_stream : decode_stream (encode ex_frame ++ encode ex_frame ++ [3; 27; 0]) = ([ex_frame; ex_frame], EndShort).
Proof. vm_compute. reflexivity. Qed.
