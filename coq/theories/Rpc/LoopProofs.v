(** * Rpc: proofs about the client state machine (rpc/client.go), for every modulus M > 0 of the
    sequence counter (the code has M = 2^32). *)
From Coq Require Import List ZArith NArith Bool Arith Lia.
From Jiva Require Import Rpc.Model.
Import ListNotations.
Open Scope N_scope.

Definition wids (w : list req) : list N := map rid w.
Definition done_ids (os : list out) : list N := map fst (dones os).
Definition is_local (r : result) : bool := match r_err r with ELocal _ => true | _ => false end.
Definition new_ids (e : event) : list N := match is_req e with Some r => [rid r] | None => [] end.
Definition log := list (event * list out).

(** ** lists *)

Lemma NoDup_app_intro : forall (a b : list N), NoDup a -> NoDup b -> (forall x, In x a -> ~ In x b) -> NoDup (a ++ b).
Proof.
  induction a as [|x a IH]; intros b Ha Hb Hd; cbn [app]; [exact Hb|].
  inversion Ha as [|? ? Hx Ha']; subst. constructor.
  - rewrite in_app_iff. intros [H|H]; [now apply Hx | exact (Hd x (or_introl eq_refl) H)].
  - apply IH; [exact Ha' | exact Hb | intros y Hy; apply Hd; now right].
Qed.

Lemma dones_app : forall a b, dones (a ++ b) = dones a ++ dones b.
Proof.
  induction a as [|x a IH]; intro b; [reflexivity|].
  destruct x; cbn [app dones]; rewrite IH; reflexivity.
Qed.

Lemma done_ids_app : forall a b, done_ids (a ++ b) = done_ids a ++ done_ids b.
Proof. intros a b. unfold done_ids. now rewrite dones_app, map_app. Qed.

Lemma in_done_ids : forall os id, In id (done_ids os) <-> exists r, In (Done id r) os.
Proof.
  induction os as [|x os IH]; intro id.
  - cbn. split; [tauto | intros [r []]].
  - destruct x as [m|id' r'| |sq|id']; unfold done_ids in *; cbn [dones map fst In]; rewrite ?IH;
      split; try (intros [r [H|H]]; [discriminate | now exists r]); try (intros [r H]; exists r; now right).
    + intros [H|[r H]]; [subst; exists r'; now left | exists r; now right].
    + intros [r [H|H]]; [inversion H; now left | right; now exists r].
Qed.

Lemma outs_app : forall (a b : log), outs (a ++ b) = outs a ++ outs b.
Proof. intros a b. unfold outs. now rewrite flat_map_app. Qed.

(** ** the waiting list *)

Lemma find_wait_some : forall id w r, find_wait id w = Some r -> In r w /\ rid r = id.
Proof.
  induction w as [|x w IH]; intros r H; cbn [find_wait] in H; [discriminate|].
  destruct (rid x =? id) eqn:E.
  - inversion H; subst. apply N.eqb_eq in E. split; [now left | exact E].
  - destruct (IH r H) as [H1 H2]. split; [now right | exact H2].
Qed.

Lemma find_wait_none : forall id w, find_wait id w = None <-> ~ In id (wids w).
Proof.
  induction w as [|x w IH]; cbn [find_wait wids map In]; [tauto|].
  destruct (rid x =? id) eqn:E.
  - apply N.eqb_eq in E. split; [discriminate | intro H; exfalso; apply H; now left].
  - apply N.eqb_neq in E. fold (wids w). rewrite IH. tauto.
Qed.

Lemma find_wait_in : forall r w, In r w -> find_wait (rid r) w <> None.
Proof.
  intros r w Hin H. apply find_wait_none in H. apply H. unfold wids. apply in_map. exact Hin.
Qed.

Lemma in_rm_wait : forall id w r, In r (rm_wait id w) <-> In r w /\ rid r <> id.
Proof.
  induction w as [|x w IH]; intro r; cbn [rm_wait In]; [tauto|].
  destruct (rid x =? id) eqn:E.
  - apply N.eqb_eq in E. rewrite IH. split; [tauto|]. intros [[H|H] Hn]; [subst; contradiction | tauto].
  - apply N.eqb_neq in E. cbn [In]. rewrite IH. split; [intros [H|H]; [subst; tauto | tauto] | tauto].
Qed.

Lemma in_wids_rm_wait : forall id w x, In x (wids (rm_wait id w)) <-> In x (wids w) /\ x <> id.
Proof.
  intros id w x. unfold wids. rewrite !in_map_iff. split.
  - intros [r [Hr Hin]]. apply in_rm_wait in Hin. destruct Hin as [Hin Hne]. subst x. split; [now exists r | exact Hne].
  - intros [[r [Hr Hin]] Hne]. exists r. split; [exact Hr|]. apply in_rm_wait. subst x. tauto.
Qed.

Lemma nodup_rm_wait : forall id w, NoDup (wids w) -> NoDup (wids (rm_wait id w)).
Proof.
  induction w as [|x w IH]; intro H; cbn [rm_wait]; [exact H|].
  cbn [wids map] in H. inversion H as [|? ? Hx Hw]; subst.
  destruct (rid x =? id); [now apply IH|].
  cbn [wids map]. constructor; [|now apply IH].
  intro Hin. apply in_wids_rm_wait in Hin. apply Hx. tauto.
Qed.

(** [shrinks w w']: w' is w with some callers removed *)
Definition shrinks (w w' : list req) : Prop :=
  (forall x, In x w' -> In x w) /\ (NoDup (wids w) -> NoDup (wids w')).

Lemma shrinks_refl : forall w, shrinks w w.
Proof. intro w. split; auto. Qed.
Lemma shrinks_trans : forall a b c, shrinks a b -> shrinks b c -> shrinks a c.
Proof. intros a b c [H1 H2] [H3 H4]. split; auto. Qed.
Lemma shrinks_rm : forall id w, shrinks w (rm_wait id w).
Proof. intros id w. split; [intros x H; apply in_rm_wait in H; tauto | apply nodup_rm_wait]. Qed.
Lemma shrinks_wids : forall w w' id, shrinks w w' -> In id (wids w') -> In id (wids w).
Proof.
  intros w w' id [H _] Hin. unfold wids in *. apply in_map_iff in Hin. destruct Hin as [r [Hr Hin]].
  apply in_map_iff. exists r. auto.
Qed.

(** ** deliver / reply_all *)

Lemma deliver_cases : forall w rq r w' o, deliver w rq r = (w', o) ->
  (find_wait (rid rq) w <> None /\ w' = rm_wait (rid rq) w /\ o = [Done (rid rq) r]) \/
  (find_wait (rid rq) w = None /\ w' = w /\ o = [Void (rid rq)]).
Proof.
  intros w rq r w' o H. unfold deliver in H. destruct (find_wait (rid rq) w) eqn:E; inversion H; subst.
  - left. repeat split. discriminate.
  - right. repeat split.
Qed.

(** what one step may do to the callers: [o] completes distinct waiting callers and removes them *)
Definition step_ok (w : list req) (o : list out) (w' : list req) : Prop :=
  NoDup (done_ids o) /\
  (forall id, In id (done_ids o) -> In id (wids w) /\ ~ In id (wids w')) /\
  shrinks w w' /\
  (forall id, In id (wids w) -> In id (wids w') \/ In id (done_ids o)).

Lemma deliver_ok : forall w rq r w' o, deliver w rq r = (w', o) -> step_ok w o w'.
Proof.
  intros w rq r w' o H. apply deliver_cases in H. destruct H as [(Hf & -> & ->)|(Hf & -> & ->)].
  - unfold step_ok, done_ids. cbn [dones map fst]. repeat split.
    + constructor; [intros []|constructor].
    + destruct H as [<-|[]]. destruct (find_wait (rid rq) w) eqn:E; [|contradiction].
      apply find_wait_some in E. destruct E as [E1 E2]. rewrite <- E2. unfold wids. now apply in_map.
    + destruct H as [<-|[]]. intro Hin. apply in_wids_rm_wait in Hin. tauto.
    + apply shrinks_rm.
    + apply shrinks_rm.
    + intros id Hin. destruct (N.eq_dec id (rid rq)) as [->|Hne]; [right; now left|].
      left. apply in_wids_rm_wait. tauto.
  - unfold step_ok, done_ids. cbn [dones map fst]. repeat split; auto using NoDup_nil;
      try (intros id []); try (match goal with H : In _ [] |- _ => destruct H end).
Qed.

Lemma step_ok_seq : forall w o1 w1 o2 w2, step_ok w o1 w1 -> step_ok w1 o2 w2 -> step_ok w (o1 ++ o2) w2.
Proof.
  intros w o1 w1 o2 w2 (A1 & A2 & A3 & A4) (B1 & B2 & B3 & B4). unfold step_ok. rewrite done_ids_app.
  split; [|split; [|split]].
  - apply NoDup_app_intro; [exact A1 | exact B1|]. intros x Hx Hy. apply A2 in Hx. apply B2 in Hy. tauto.
  - intros id H. apply in_app_iff in H. destruct H as [H|H].
    + apply A2 in H. split; [tauto|]. intro Hin. destruct H as [_ H]. apply H. eapply shrinks_wids; eauto.
    + apply B2 in H. split; [|tauto]. eapply shrinks_wids; [exact A3 | tauto].
  - eapply shrinks_trans; eauto.
  - intros id Hin. rewrite in_app_iff. apply A4 in Hin. destruct Hin as [Hin|Hin]; [|tauto].
    apply B4 in Hin. tauto.
Qed.

Lemma step_ok_nothing : forall w, step_ok w [] w.
Proof.
  intro w. unfold step_ok, done_ids. cbn [dones map].
  split; [constructor|split; [intros id []|split; [apply shrinks_refl|intros id H; now left]]].
Qed.

Lemma reply_all_ok : forall c p w w2 o, reply_all c p w = (w2, o) -> step_ok w o w2.
Proof.
  induction p as [|[sq rq] p IH]; intros w w2 o H; cbn [reply_all] in H.
  - inversion H; subst. apply step_ok_nothing.
  - destruct (deliver w rq (local_result rq c)) as [w1 o1] eqn:E1.
    destruct (reply_all c p w1) as [w2' o2] eqn:E2. inversion H; subst.
    eapply step_ok_seq; [eapply deliver_ok; eauto | eapply IH; eauto].
Qed.

Lemma r_err_finish : forall k r, r_err (finish k r) = r_err r.
Proof. intros [] r; reflexivity. Qed.

Lemma local_result_err : forall rq c, r_err (local_result rq c) = ELocal c.
Proof. intros rq c. unfold local_result. now rewrite r_err_finish. Qed.

Lemma local_result_local : forall rq c, is_local (local_result rq c) = true.
Proof. intros rq c. unfold is_local. now rewrite local_result_err. Qed.

Lemma reply_all_local : forall c p w w2 o, reply_all c p w = (w2, o) ->
  forall id r, In (Done id r) o -> r_err r = ELocal c.
Proof.
  induction p as [|[sq rq] p IH]; intros w w2 o H id r Hin; cbn [reply_all] in H.
  - inversion H; subst. destruct Hin.
  - destruct (deliver w rq (local_result rq c)) as [w1 o1] eqn:E1.
    destruct (reply_all c p w1) as [w2' o2] eqn:E2. inversion H; subst.
    apply in_app_iff in Hin. destruct Hin as [Hin|Hin]; [|eapply IH; eauto].
    apply deliver_cases in E1. destruct E1 as [(_ & _ & ->)|(_ & _ & ->)]; destruct Hin as [Hin|[]]; [|discriminate].
    inversion Hin; subst. apply local_result_err.
Qed.

(** every waiting caller that owns a pending entry is completed; whoever is left owns none *)
Lemma reply_all_covers : forall c p w w2 o, reply_all c p w = (w2, o) ->
  (forall rq, In rq w -> (exists sq rq', In (sq, rq') p /\ rid rq' = rid rq) ->
     exists r, In (Done (rid rq) r) o /\ r_err r = ELocal c) /\
  (forall rq, In rq w2 -> forall sq rq', In (sq, rq') p -> rid rq' <> rid rq).
Proof.
  induction p as [|[sq0 rq0] p IH]; intros w w2 o H; cbn [reply_all] in H.
  - inversion H; subst. split; [intros rq _ [sq [rq' [[] _]]] | intros rq _ sq rq' []].
  - destruct (deliver w rq0 (local_result rq0 c)) as [w1 o1] eqn:E1.
    destruct (reply_all c p w1) as [w2' o2] eqn:E2. inversion H; subst. clear H.
    destruct (IH _ _ _ E2) as [IH1 IH2]. pose proof (reply_all_ok _ _ _ _ _ E2) as (_ & _ & [Hsub _] & _).
    apply deliver_cases in E1. split.
    + intros rq Hin [sq [rq' [Hp Hid]]].
      destruct (N.eq_dec (rid rq0) (rid rq)) as [Heq|Hne].
      * destruct E1 as [(_ & _ & ->)|(Hf & _ & _)].
        -- exists (local_result rq0 c). rewrite <- Heq. split; [now left | apply local_result_err].
        -- exfalso. rewrite Heq in Hf. exact (find_wait_in _ _ Hin Hf).
      * assert (Hin1 : In rq w1).
        { destruct E1 as [(_ & -> & _)|(_ & -> & _)]; [apply in_rm_wait; split; auto | exact Hin]. }
        destruct Hp as [Hp|Hp]; [inversion Hp; subst; contradiction|].
        destruct (IH1 rq Hin1 (ex_intro _ sq (ex_intro _ rq' (conj Hp Hid)))) as [r [Hr1 Hr2]].
        exists r. split; [apply in_app_iff; now right | exact Hr2].
    + intros rq Hin sq rq' [Hp|Hp]; [|eapply IH2; eauto].
      inversion Hp; subst. apply Hsub in Hin.
      destruct E1 as [(_ & -> & _)|(Hf & -> & _)].
      * apply in_rm_wait in Hin. intro Heq. destruct Hin as [_ Hne]. congruence.
      * intro Heq. rewrite Heq in Hf. exact (find_wait_in _ _ Hin Hf).
Qed.

(** ** one step, seen from the callers *)

Definition callers_ok (s : st) (e : event) (s1 : st) (o : list out) : Prop :=
  NoDup (done_ids o) /\
  (forall id, In id (done_ids o) -> (In id (wids (waiting s)) \/ In id (new_ids e)) /\ ~ In id (wids (waiting s1))) /\
  (forall id, In id (wids (waiting s1)) -> In id (wids (waiting s)) \/ In id (new_ids e)) /\
  (NoDup (wids (waiting s)) -> NoDup (wids (waiting s1))) /\
  (forall id, In id (wids (waiting s)) \/ In id (new_ids e) -> In id (wids (waiting s1)) \/ In id (done_ids o)).

Lemma callers_of_step_ok : forall s e s1 o, new_ids e = [] -> step_ok (waiting s) o (waiting s1) -> callers_ok s e s1 o.
Proof.
  intros s e s1 o Hn (A1 & A2 & A3 & A4). unfold callers_ok. rewrite Hn. repeat split.
  - exact A1.
  - left. now apply A2.
  - now apply A2.
  - intros id Hin. left. eapply shrinks_wids; eauto.
  - destruct A3; auto.
  - intros id [Hin|[]]. now apply A4.
Qed.

Lemma step_ok_skip : forall w x o w', done_ids [x] = [] -> step_ok w o w' -> step_ok w (x :: o) w'.
Proof.
  intros w x o w' Hx H. change (x :: o) with ([x] ++ o). unfold step_ok in *. rewrite done_ids_app, Hx. exact H.
Qed.

Lemma accept_step : forall M s rq, failed s = None ->
  handle_request M (add_waiting s rq) rq =
  (mkst (next_seq M (seq s)) ((next_seq M (seq s), rq) :: remove_key (next_seq M (seq s)) (pending s)) None
        (rq :: waiting s) (errq s),
   [Sent (req_msg (next_seq M (seq s)) rq)]).
Proof.
  intros M s rq F. unfold handle_request, add_waiting. cbn [failed seq pending waiting errq]. rewrite F. reflexivity.
Qed.

Lemma callers_accept : forall s e rq s1 o, is_req e = Some rq -> waiting s1 = rq :: waiting s -> done_ids o = [] ->
  (forall id, In id (new_ids e) -> ~ In id (wids (waiting s))) -> callers_ok s e s1 o.
Proof.
  intros s e rq s1 o Hr Hw Ho Hfresh. unfold callers_ok, new_ids in *. rewrite Hr in *. rewrite Hw, Ho. cbn [wids map].
  repeat split.
  - constructor.
  - destruct H.
  - destruct H.
  - intros id [Hid|Hin]; [right; now left | now left].
  - intros Hnd. constructor; [apply Hfresh; now left | exact Hnd].
  - intros id [Hin|[Hid|[]]]; left; [now right | now left].
Qed.

Lemma step_callers : forall M s e s1 o, step M s e = (s1, o) ->
  (forall id, In id (new_ids e) -> ~ In id (wids (waiting s))) -> callers_ok s e s1 o.
Proof.
  intros M s e s1 o H Hfresh.
  destruct e as [rq|rq|sq ty sz d|c|id]; cbn [step] in H.
  - destruct (failed s) as [c|] eqn:F.
    + inversion H; subst s1 o. unfold callers_ok, new_ids, done_ids. cbn [is_req dones map fst]. repeat split.
      * constructor; [intros []|constructor].
      * destruct H0 as [<-|[]]. right. now left.
      * destruct H0 as [<-|[]]. apply Hfresh. unfold new_ids. cbn [is_req]. now left.
      * intros id Hin; now left.
      * auto.
      * intros id [Hin|[Hid|[]]]; [now left | right; now left].
    + rewrite accept_step in H by exact F. inversion H; subst s1 o.
      eapply callers_accept with (rq := rq); try reflexivity; exact Hfresh.
  - destruct (failed s) as [c|] eqn:F.
    + inversion H; subst s1 o. eapply callers_accept with (rq := rq); try reflexivity; exact Hfresh.
    + rewrite accept_step in H by exact F. inversion H; subst s1 o.
      eapply callers_accept with (rq := rq); try reflexivity; exact Hfresh.
  - apply callers_of_step_ok; [reflexivity|].
    destruct (failed s) as [c|] eqn:F.
    + inversion H; subst s1 o. apply step_ok_nothing.
    + unfold handle_response in H. destruct (lookup sq (pending s)) as [rq|] eqn:L.
      * rewrite F in H. destruct (deliver (waiting s) rq (op_result rq ty sz d)) as [w o'] eqn:E. inversion H; subst s1 o.
        cbn [waiting]. eapply deliver_ok; eauto.
      * inversion H; subst s1 o. apply step_ok_skip; [reflexivity | apply step_ok_nothing].
  - apply callers_of_step_ok; [reflexivity|].
    destruct (failed s) as [c'|] eqn:F.
    + inversion H; subst s1 o. apply step_ok_nothing.
    + unfold handle_transport in H. destruct (reply_all c (pending s) (waiting s)) as [w o'] eqn:E. inversion H; subst s1 o.
      cbn [waiting]. apply step_ok_skip; [reflexivity | eapply reply_all_ok; eauto].
  - apply callers_of_step_ok; [reflexivity|].
    destruct (find_wait id (waiting s)) as [rq|] eqn:E.
    + inversion H; subst s1 o. cbn [waiting].
      destruct (find_wait_some _ _ _ E) as [_ Hid]. subst id.
      apply (deliver_ok (waiting s) rq (local_result rq (timeout_err (rkind rq)))).
      unfold deliver. rewrite E. reflexivity.
    + inversion H; subst s1 o. apply step_ok_nothing.
Qed.

(** ** each request is completed at most once *)

Lemma new_ids_req_ids : forall e es, req_ids (e :: es) = new_ids e ++ req_ids es.
Proof. reflexivity. Qed.

Lemma at_most_once_gen : forall M es s D,
  NoDup D -> NoDup (wids (waiting s)) ->
  (forall id, In id D -> ~ In id (wids (waiting s))) ->
  (forall id, In id (req_ids es) -> ~ In id D /\ ~ In id (wids (waiting s))) ->
  NoDup (req_ids es) ->
  NoDup (D ++ done_ids (outs (exec M s es))).
Proof.
  induction es as [|e es IH]; intros s D HD Hw Hdis Hfresh Hnd.
  - cbn. now rewrite app_nil_r.
  - cbn [exec]. destruct (step M s e) as [s1 o] eqn:E. unfold outs. cbn [flat_map snd]. fold (outs (exec M s1 es)).
    rewrite done_ids_app, app_assoc. rewrite new_ids_req_ids in Hfresh, Hnd.
    assert (Hf1 : forall id, In id (new_ids e) -> ~ In id (wids (waiting s))).
    { intros id Hin. apply (Hfresh id). apply in_app_iff. now left. }
    destruct (step_callers _ _ _ _ _ E Hf1) as (C1 & C2 & C3 & C4 & _).
    assert (Hnew : NoDup (new_ids e) /\ NoDup (req_ids es) /\ forall x, In x (new_ids e) -> ~ In x (req_ids es)).
    { clear -Hnd. induction (new_ids e) as [|x l IHl]; cbn [app] in *.
      - repeat split; [constructor | exact Hnd | intros x []].
      - inversion Hnd as [|? ? Hx Hl]; subst. destruct (IHl Hl) as (I1 & I2 & I3). repeat split.
        + constructor; [intro Hin; apply Hx, in_app_iff; now left | exact I1].
        + exact I2.
        + intros y [->|Hy]; [intro Hin; apply Hx, in_app_iff; now right | now apply I3]. }
    destruct Hnew as (N1 & N2 & N3).
    apply IH.
    + apply NoDup_app_intro; [exact HD | exact C1|].
      intros x Hx Hy. apply C2 in Hy. destruct Hy as [[Hy|Hy] _].
      * exact (Hdis x Hx Hy).
      * destruct (Hfresh x) as [Hn _]; [apply in_app_iff; now left | contradiction].
    + now apply C4.
    + intros id Hin. apply in_app_iff in Hin. destruct Hin as [Hin|Hin].
      * intro Hw1. apply C3 in Hw1. destruct Hw1 as [Hw1|Hw1]; [exact (Hdis id Hin Hw1)|].
        destruct (Hfresh id) as [Hn _]; [apply in_app_iff; now left | contradiction].
      * apply C2 in Hin. tauto.
    + intros id Hin. destruct (Hfresh id) as [Hn1 Hn2]; [apply in_app_iff; now right|]. split.
      * rewrite in_app_iff. intros [H|H]; [contradiction|]. apply C2 in H. destruct H as [[H|H] _]; [contradiction|].
        exact (N3 id H Hin).
      * intro H. apply C3 in H. destruct H as [H|H]; [contradiction | exact (N3 id H Hin)].
    + exact N2.
Qed.

Theorem at_most_once : forall M es, NoDup (req_ids es) -> NoDup (done_ids (outs (exec M init es))).
Proof.
  intros M es H. apply (at_most_once_gen M es init []).
  - constructor.
  - constructor.
  - intros id [].
  - intros id _. split; intros [].
  - exact H.
Qed.

(** every call that was issued has either returned or is still blocked in its select: nobody is forgotten *)
Lemma accounted_gen : forall M es s, NoDup (req_ids es) ->
  (forall id, In id (req_ids es) -> ~ In id (wids (waiting s))) ->
  forall id, In id (wids (waiting s)) \/ In id (req_ids es) ->
  In id (wids (waiting (run M s es))) \/ In id (done_ids (outs (exec M s es))).
Proof.
  induction es as [|e es IH]; intros s Hnd Hfresh id Hin.
  - cbn. destruct Hin as [Hin|[]]. now left.
  - cbn [exec run]. destruct (step M s e) as [s1 o] eqn:E. cbn [fst]. unfold outs. cbn [flat_map snd]. fold (outs (exec M s1 es)).
    rewrite done_ids_app, in_app_iff. rewrite new_ids_req_ids in Hfresh, Hnd, Hin.
    assert (Hf1 : forall id, In id (new_ids e) -> ~ In id (wids (waiting s))).
    { intros x Hx. apply (Hfresh x). apply in_app_iff. now left. }
    destruct (step_callers _ _ _ _ _ E Hf1) as (C1 & C2 & C3 & C4 & C5).
    assert (Hsplit : NoDup (req_ids es) /\ forall x, In x (new_ids e) -> ~ In x (req_ids es)).
    { clear -Hnd. induction (new_ids e) as [|x l IHl]; cbn [app] in *; [split; [exact Hnd | intros x []]|].
      inversion Hnd as [|? ? Hx Hl]; subst. destruct (IHl Hl) as (I2 & I3). split; [exact I2|].
      intros y [->|Hy]; [intro Hin; apply Hx, in_app_iff; now right | now apply I3]. }
    destruct Hsplit as [N2 N3].
    assert (Hf2 : forall x, In x (req_ids es) -> ~ In x (wids (waiting s1))).
    { intros x Hx Hw1. apply C3 in Hw1. destruct Hw1 as [Hw1|Hw1].
      - apply (Hfresh x); [apply in_app_iff; now right | exact Hw1].
      - exact (N3 x Hw1 Hx). }
    rewrite in_app_iff in Hin.
    assert (Hcase : (In id (wids (waiting s)) \/ In id (new_ids e)) \/ In id (req_ids es)) by tauto.
    destruct Hcase as [Hc|Hc].
    + apply C5 in Hc. destruct Hc as [Hc|Hc]; [|tauto].
      destruct (IH s1 N2 Hf2 id (or_introl Hc)); tauto.
    + destruct (IH s1 N2 Hf2 id (or_intror Hc)); tauto.
Qed.

(** ** pending map *)

Lemma lookup_in : forall sq p r, lookup sq p = Some r -> In (sq, r) p.
Proof.
  induction p as [|[k x] p IH]; intros r H; cbn [lookup] in H; [discriminate|].
  destruct (k =? sq) eqn:E.
  - apply N.eqb_eq in E. inversion H; subst. now left.
  - right. now apply IH.
Qed.

Lemma lookup_none : forall sq p, lookup sq p = None <-> ~ In sq (map fst p).
Proof.
  induction p as [|[k x] p IH]; cbn [lookup map fst In]; [tauto|].
  destruct (k =? sq) eqn:E.
  - apply N.eqb_eq in E. split; [discriminate | intro H; exfalso; apply H; now left].
  - apply N.eqb_neq in E. rewrite IH. tauto.
Qed.

Lemma in_remove_key : forall sq p k r, In (k, r) (remove_key sq p) <-> In (k, r) p /\ k <> sq.
Proof.
  induction p as [|[k0 x] p IH]; intros k r; cbn [remove_key In]; [tauto|].
  destruct (k0 =? sq) eqn:E.
  - apply N.eqb_eq in E. rewrite IH. split; [tauto|]. intros [[H|H] Hn]; [inversion H; subst; contradiction | tauto].
  - apply N.eqb_neq in E. cbn [In]. rewrite IH. split; [|tauto].
    intros [H|H]; [inversion H; subst; tauto | tauto].
Qed.

Lemma remove_key_absent : forall sq p, lookup sq p = None -> remove_key sq p = p.
Proof.
  induction p as [|[k x] p IH]; intro H; cbn [remove_key lookup] in *; [reflexivity|].
  destruct (k =? sq); [discriminate|]. now rewrite IH.
Qed.

Lemma keys_remove_key : forall sq p k, In k (map fst (remove_key sq p)) -> In k (map fst p) /\ k <> sq.
Proof.
  intros sq p k H. apply in_map_iff in H. destruct H as [[k' r] [Hk Hin]]. cbn [fst] in Hk. subst k'.
  apply in_remove_key in Hin. destruct Hin as [Hin Hne]. split; [|exact Hne].
  apply in_map_iff. exists (k, r). split; [reflexivity | exact Hin].
Qed.

Lemma nodup_remove_key : forall sq (p : list (N * req)), NoDup (map fst p) -> NoDup (map fst (remove_key sq p)).
Proof.
  induction p as [|[k x] p IH]; intro H; cbn [remove_key]; [exact H|].
  cbn [map fst] in H. inversion H as [|? ? Hk Hp]; subst.
  destruct (k =? sq); [now apply IH|].
  cbn [map fst]. constructor; [|now apply IH].
  intro Hin. apply keys_remove_key in Hin. tauto.
Qed.

Lemma nodup_key_unique : forall (p : list (N * req)) sq r1 r2, NoDup (map fst p) -> In (sq, r1) p -> In (sq, r2) p -> r1 = r2.
Proof.
  induction p as [|[k x] p IH]; intros sq r1 r2 Hnd H1 H2; [destruct H1|].
  cbn [map fst] in Hnd. inversion Hnd as [|? ? Hk Hp]; subst.
  destruct H1 as [H1|H1], H2 as [H2|H2].
  - congruence.
  - inversion H1; subst. exfalso. apply Hk. apply in_map_iff. exists (sq, r2). split; [reflexivity | exact H2].
  - inversion H2; subst. exfalso. apply Hk. apply in_map_iff. exists (sq, r1). split; [reflexivity | exact H1].
  - eapply IH; eauto.
Qed.

(** ** matching: a call that returns the outcome of a response returns the outcome of the response
    that carried the sequence number its own frame was sent with *)

Definition sent_in (l : log) (sq : N) (rq : req) : Prop :=
  exists e o, In (e, o) l /\ is_req e = Some rq /\ In (Sent (req_msg sq rq)) o.

Definition pend_inv (l : log) (s : st) : Prop :=
  forall sq rq, In (sq, rq) (pending s) -> sent_in l sq rq.

Definition entry_ok (pre : log) (x : event * list out) : Prop :=
  forall id r, In (Done id r) (snd x) -> is_local r = false ->
  exists sq ty sz d rq, fst x = Resp sq ty sz d /\ rid rq = id /\ sent_in pre sq rq /\ r = op_result rq ty sz d.

Definition log_ok (l : log) : Prop :=
  forall pre x post, l = pre ++ x :: post -> entry_ok pre x.

Lemma sent_in_mono : forall l l' sq rq, sent_in l sq rq -> sent_in (l ++ l') sq rq.
Proof. intros l l' sq rq (e & o & H1 & H2 & H3). exists e, o. repeat split; auto. apply in_app_iff. now left. Qed.

Lemma log_ok_snoc : forall l x, log_ok l -> entry_ok l x -> log_ok (l ++ [x]).
Proof.
  intros l x Hl Hx pre y post Heq.
  destruct post as [|z post'] using rev_ind.
  - apply app_inj_tail in Heq. destruct Heq as [-> ->]. exact Hx.
  - clear IHpost'. rewrite app_comm_cons, app_assoc in Heq. apply app_inj_tail in Heq. destruct Heq as [Heq _].
    eapply Hl. exact Heq.
Qed.

Lemma local_not_nonlocal : forall rq c, is_local (local_result rq c) = false -> False.
Proof. intros rq c H. rewrite local_result_local in H. discriminate. Qed.

Lemma step_match : forall M l s e s1 o, pend_inv l s -> step M s e = (s1, o) ->
  entry_ok l (e, o) /\ pend_inv (l ++ [(e, o)]) s1.
Proof.
  intros M l s e s1 o Hinv H.
  assert (Hkeep : pending s1 = pending s -> pend_inv (l ++ [(e, o)]) s1).
  { intros Hp sq rq Hin. rewrite Hp in Hin. apply sent_in_mono. now apply Hinv. }
  assert (Hacc : forall rq, is_req e = Some rq -> failed s = None ->
            step M s e = handle_request M (add_waiting s rq) rq ->
            entry_ok l (e, o) /\ pend_inv (l ++ [(e, o)]) s1).
  { intros rq Hr F Hs. rewrite Hs, accept_step in H by exact F. inversion H; subst s1 o. split.
    - intros id r [Hin|[]] _. discriminate.
    - intros sq rq' Hin. cbn [pending] in Hin. destruct Hin as [Hin|Hin].
      + inversion Hin; subst. exists e, [Sent (req_msg (next_seq M (seq s)) rq')].
        repeat split; [apply in_app_iff; right; now left | exact Hr | now left].
      + apply in_remove_key in Hin. apply sent_in_mono. apply Hinv. tauto. }
  destruct e as [rq|rq|sq ty sz d|c|id]; cbn [step] in H.
  - destruct (failed s) as [c|] eqn:F.
    + inversion H; subst s1 o. split; [|now apply Hkeep].
      intros id r [Hin|[]] Hl. inversion Hin; subst. exfalso. eapply local_not_nonlocal; eauto.
    + apply (Hacc rq eq_refl eq_refl). cbn [step]. now rewrite F.
  - destruct (failed s) as [c|] eqn:F.
    + inversion H; subst s1 o. split; [intros id r [] | now apply Hkeep].
    + apply (Hacc rq eq_refl eq_refl). cbn [step]. now rewrite F.
  - destruct (failed s) as [c|] eqn:F.
    + inversion H; subst s1 o. split; [intros id r [] | now apply Hkeep].
    + unfold handle_response in H. destruct (lookup sq (pending s)) as [rq|] eqn:L.
      * rewrite F in H. destruct (deliver (waiting s) rq (op_result rq ty sz d)) as [w o'] eqn:E. inversion H; subst s1 o.
        split.
        -- intros id r Hin Hl. cbn [snd] in Hin. apply deliver_cases in E.
           destruct E as [(_ & _ & ->)|(_ & _ & ->)]; destruct Hin as [Hin|[]]; [|discriminate].
           inversion Hin; subst. exists sq, ty, sz, d, rq. repeat split. apply Hinv. now apply lookup_in.
        -- intros sq' rq' Hin. cbn [pending] in Hin. apply in_remove_key in Hin. apply sent_in_mono. apply Hinv. tauto.
      * inversion H; subst s1 o. split; [|now apply Hkeep]. intros id r [Hin|[]] _. discriminate.
  - destruct (failed s) as [c'|] eqn:F.
    + inversion H; subst s1 o. split; [intros id r [] | now apply Hkeep].
    + unfold handle_transport in H. destruct (reply_all c (pending s) (waiting s)) as [w o'] eqn:E. inversion H; subst s1 o.
      split.
      * intros id r [Hin|Hin] Hl; [discriminate|]. cbn [snd] in Hin.
        pose proof (reply_all_local _ _ _ _ _ E id r Hin) as Hr. unfold is_local in Hl. rewrite Hr in Hl. discriminate.
      * intros sq rq [].
  - destruct (find_wait id (waiting s)) as [rq|] eqn:E.
    + inversion H; subst s1 o. split; [|now apply Hkeep].
      intros id' r [Hin|[]] Hl. inversion Hin; subst. exfalso. eapply local_not_nonlocal; eauto.
    + inversion H; subst s1 o. split; [intros id' r [] | now apply Hkeep].
Qed.

Lemma exec_match : forall M es s l, log_ok l -> pend_inv l s -> log_ok (l ++ exec M s es).
Proof.
  induction es as [|e es IH]; intros s l Hl Hp.
  - cbn. now rewrite app_nil_r.
  - cbn [exec]. destruct (step M s e) as [s1 o] eqn:E.
    destruct (step_match _ _ _ _ _ _ Hp E) as [H1 H2].
    change ((e, o) :: exec M s1 es) with ([(e, o)] ++ exec M s1 es). rewrite app_assoc.
    apply IH; [now apply log_ok_snoc | exact H2].
Qed.

Theorem matching : forall M es, log_ok (exec M init es).
Proof.
  intros M es. change (exec M init es) with ([] ++ exec M init es). apply exec_match.
  - intros pre x post H. destruct pre; discriminate.
  - intros sq rq [].
Qed.

(** ** the guard: sequence numbers identify waiting callers *)

(** while the connection has not failed: one pending entry per number, and every blocked caller owns one *)
Definition uniq_inv (s : st) : Prop :=
  failed s = None ->
  NoDup (map fst (pending s)) /\ forall rq, In rq (waiting s) -> exists sq, In (sq, rq) (pending s).

Definition guard1 (M : N) (s : st) (e : event) : bool :=
  match is_req e, failed s with
  | Some _, None => match lookup (next_seq M (seq s)) (pending s) with None => true | Some _ => false end
  | _, _ => true
  end.

Lemma guard_cons : forall M s e es, guard M s (e :: es) = guard1 M s e && guard M (fst (step M s e)) es.
Proof. reflexivity. Qed.

Lemma step_uniq : forall M s e, uniq_inv s -> guard1 M s e = true -> uniq_inv (fst (step M s e)).
Proof.
  intros M s e Hu Hg.
  assert (Hacc : forall rq, is_req e = Some rq -> failed s = None ->
            step M s e = handle_request M (add_waiting s rq) rq -> uniq_inv (fst (step M s e))).
  { intros rq Hr F Hs. rewrite Hs, accept_step by exact F. cbn [fst]. intros _. cbn [pending waiting].
    unfold guard1 in Hg. rewrite Hr, F in Hg.
    destruct (lookup (next_seq M (seq s)) (pending s)) eqn:L; [discriminate|].
    destruct (Hu F) as [U1 U2]. rewrite remove_key_absent by exact L. split.
    - cbn [map fst]. constructor; [now apply lookup_none | exact U1].
    - intros rq' [<-|Hin]; [exists (next_seq M (seq s)); now left|].
      destruct (U2 rq' Hin) as [sq Hsq]. exists sq. now right. }
  destruct e as [rq|rq|sq ty sz d|c|id]; cbn [step].
  - destruct (failed s) as [c|] eqn:F.
    + cbn [fst]. exact Hu.
    + specialize (Hacc rq eq_refl eq_refl). cbn [step] in Hacc. rewrite F in Hacc. now apply Hacc.
  - destruct (failed s) as [c|] eqn:F.
    + cbn [fst]. intro F'. unfold add_waiting in F'. cbn [failed] in F'. congruence.
    + specialize (Hacc rq eq_refl eq_refl). cbn [step] in Hacc. rewrite F in Hacc. now apply Hacc.
  - destruct (failed s) as [c|] eqn:F.
    + cbn [fst]. exact Hu.
    + destruct (Hu F) as [U1 U2]. unfold handle_response. destruct (lookup sq (pending s)) as [rq0|] eqn:L.
      * rewrite F. destruct (deliver (waiting s) rq0 (op_result rq0 ty sz d)) as [w o'] eqn:E. cbn [fst].
        intros _. cbn [pending waiting]. split; [now apply nodup_remove_key|].
        intros rq Hin. apply deliver_cases in E.
        assert (Hw : In rq (waiting s) /\ (rq = rq0 -> False)).
        { destruct E as [(_ & -> & _)|(Hf & -> & _)].
          - apply in_rm_wait in Hin. split; [tauto|]. intros ->. tauto.
          - split; [exact Hin|]. intros ->. exact (find_wait_in _ _ Hin Hf). }
        destruct Hw as [Hw Hne]. destruct (U2 rq Hw) as [sq' Hsq']. exists sq'. apply in_remove_key. split; [exact Hsq'|].
        intros ->. apply Hne. eapply nodup_key_unique; eauto. now apply lookup_in.
      * cbn [fst]. exact Hu.
  - destruct (failed s) as [c'|] eqn:F.
    + cbn [fst]. exact Hu.
    + unfold handle_transport. destruct (reply_all c (pending s) (waiting s)) as [w o']. cbn [fst].
      intro F'. cbn [failed] in F'. discriminate.
  - destruct (find_wait id (waiting s)) as [rq|] eqn:E; cbn [fst]; [|exact Hu].
    intro F'. cbn [failed] in F'. destruct (Hu F') as [U1 U2]. cbn [pending waiting]. split; [exact U1|].
    intros rq' Hin. apply in_rm_wait in Hin. apply U2. tauto.
Qed.

Lemma run_uniq : forall M es s, uniq_inv s -> guard M s es = true -> uniq_inv (run M s es).
Proof.
  induction es as [|e es IH]; intros s Hu Hg; [exact Hu|].
  rewrite guard_cons in Hg. apply andb_true_iff in Hg. destruct Hg as [G1 G2].
  cbn [run]. apply IH; [now apply step_uniq | exact G2].
Qed.

Lemma uniq_init : uniq_inv init.
Proof. intros _. split; [constructor | intros rq []]. Qed.

Theorem no_orphan : forall M es, guard M init es = true -> uniq_inv (run M init es).
Proof. intros M es H. apply run_uniq; [apply uniq_init | exact H]. Qed.

(** the guard holds when fewer than M requests are issued on the connection *)
Lemma guard_of_count_gen : forall M es s,
  (forall sq, In sq (map fst (pending s)) -> sq <= seq s) ->
  seq s + N.of_nat (count_reqs es) < M ->
  guard M s es = true.
Proof.
  induction es as [|e es IH]; intros s Hk Hc; [reflexivity|].
  rewrite guard_cons. cbn [count_reqs] in Hc.
  assert (Hacc : forall rq, is_req e = Some rq -> failed s = None ->
            step M s e = handle_request M (add_waiting s rq) rq ->
            guard1 M s e && guard M (fst (step M s e)) es = true).
  { intros rq Hr F Hs. rewrite Hr in Hc.
    assert (Hn : next_seq M (seq s) = seq s + 1) by (unfold next_seq; apply N.mod_small; lia).
    apply andb_true_iff. split.
    - unfold guard1. rewrite Hr, F, Hn.
      destruct (lookup (seq s + 1) (pending s)) eqn:L; [|reflexivity].
      apply lookup_in in L. assert (In (seq s + 1) (map fst (pending s))).
      { apply in_map_iff. eexists; split; [|exact L]. reflexivity. }
      apply Hk in H. lia.
    - rewrite Hs, accept_step by exact F. cbn [fst]. apply IH; cbn [seq pending].
      + intros sq Hin. cbn [map fst] in Hin. rewrite Hn. destruct Hin as [<-|Hin]; [lia|].
        apply keys_remove_key in Hin. destruct Hin as [Hin _]. apply Hk in Hin. lia.
      + rewrite Hn. lia. }
  assert (Hsame : forall s1, seq s1 = seq s -> (forall sq, In sq (map fst (pending s1)) -> In sq (map fst (pending s))) ->
            guard M s1 es = true).
  { intros s1 Hs Hp. apply IH; [intros sq Hin; rewrite Hs; apply Hk, Hp, Hin | rewrite Hs; lia]. }
  destruct e as [rq|rq|sq ty sz d|c|id]; cbn [step].
  - destruct (failed s) as [c|] eqn:F.
    + cbn [fst]. unfold guard1. cbn [is_req]. rewrite F. cbn [andb]. apply Hsame; auto.
    + specialize (Hacc rq eq_refl eq_refl). cbn [step] in Hacc. rewrite F in Hacc. now apply Hacc.
  - destruct (failed s) as [c|] eqn:F.
    + cbn [fst]. unfold guard1. cbn [is_req]. rewrite F. cbn [andb]. apply Hsame; auto.
    + specialize (Hacc rq eq_refl eq_refl). cbn [step] in Hacc. rewrite F in Hacc. now apply Hacc.
  - unfold guard1. cbn [is_req andb]. destruct (failed s) as [c|] eqn:F; [apply Hsame; auto|].
    unfold handle_response. destruct (lookup sq (pending s)) as [rq0|] eqn:L; [|apply Hsame; auto].
    rewrite F. destruct (deliver (waiting s) rq0 (op_result rq0 ty sz d)) as [w o']. cbn [fst].
    apply Hsame; [reflexivity|]. cbn [pending]. intros k Hin. apply keys_remove_key in Hin. tauto.
  - unfold guard1. cbn [is_req andb]. destruct (failed s) as [c'|] eqn:F; [apply Hsame; auto|].
    unfold handle_transport. destruct (reply_all c (pending s) (waiting s)) as [w o']. cbn [fst].
    apply Hsame; [reflexivity|]. cbn [pending]. intros k [].
  - unfold guard1. cbn [is_req andb]. destruct (find_wait id (waiting s)); cbn [fst]; apply Hsame; auto.
Qed.

Theorem guard_of_count : forall M es, N.of_nat (count_reqs es) < M -> guard M init es = true.
Proof.
  intros M es H. apply guard_of_count_gen; [intros sq [] | exact H].
Qed.

(** ** failure: everybody is released, nobody is accepted any more *)

Lemma failed_sticky_step : forall M s e c, failed s = Some c ->
  failed (fst (step M s e)) = Some c /\ pending (fst (step M s e)) = pending s.
Proof.
  intros M s e c F. destruct e as [rq|rq|sq ty sz d|c'|id]; cbn [step]; rewrite ?F; cbn [fst]; auto.
  destruct (find_wait id (waiting s)); cbn [fst failed pending]; auto.
Qed.

Lemma failed_sticky : forall M es s c, failed s = Some c -> failed (run M s es) = Some c.
Proof.
  induction es as [|e es IH]; intros s c F; [exact F|]. cbn [run]. apply IH. now apply failed_sticky_step.
Qed.

Theorem later_requests_fail : forall M es s c rq, failed s = Some c ->
  step M (run M s es) (Req rq) = (run M s es, [Done (rid rq) (local_result rq c)]).
Proof.
  intros M es s c rq F. cbn [step]. now rewrite (failed_sticky M es s c F).
Qed.

Theorem fail_all_step : forall M s c, uniq_inv s -> failed s = None ->
  forall s1 o, step M s (TransportErr c) = (s1, o) ->
  (forall rq, In rq (waiting s) -> exists r, In (Done (rid rq) r) o /\ r_err r = ELocal c) /\
  (forall id r, In (Done id r) o -> r_err r = ELocal c) /\
  In Closed o /\ waiting s1 = [] /\ pending s1 = [] /\ failed s1 = Some c.
Proof.
  intros M s c Hu F s1 o H. cbn [step] in H. rewrite F in H. unfold handle_transport in H.
  destruct (reply_all c (pending s) (waiting s)) as [w o'] eqn:E. inversion H; subst s1 o. clear H.
  destruct (Hu F) as [U1 U2]. destruct (reply_all_covers _ _ _ _ _ E) as [R1 R2].
  split; [|split; [|split; [|split; [|split]]]].
  - intros rq Hin. destruct (U2 rq Hin) as [sq Hsq].
    destruct (R1 rq Hin (ex_intro _ sq (ex_intro _ rq (conj Hsq eq_refl)))) as [r [Hr1 Hr2]].
    exists r. split; [now right | exact Hr2].
  - intros id r [Hin|Hin]; [discriminate|]. eapply reply_all_local; eauto.
  - now left.
  - cbn [waiting]. destruct w as [|rq w]; [reflexivity|]. exfalso.
    pose proof (reply_all_ok _ _ _ _ _ E) as (_ & _ & [Hsub _] & _).
    assert (Hin : In rq (waiting s)) by (apply Hsub; now left).
    destruct (U2 rq Hin) as [sq Hsq]. exact (R2 rq (or_introl eq_refl) sq rq Hsq eq_refl).
  - reflexivity.
  - reflexivity.
Qed.

(** a caller whose timer fires returns the timeout error and calls SetError *)
Theorem timeout_step : forall M s rq, In rq (waiting s) -> NoDup (wids (waiting s)) ->
  step M s (Timeout (rid rq)) =
  (mkst (seq s) (pending s) (failed s) (rm_wait (rid rq) (waiting s)) (errq s + 1),
   [Done (rid rq) (local_result rq (timeout_err (rkind rq)))]).
Proof.
  intros M s rq Hin Hnd. cbn [step].
  destruct (find_wait (rid rq) (waiting s)) as [rq'|] eqn:E; [|exfalso; exact (find_wait_in _ _ Hin E)].
  destruct (find_wait_some _ _ _ E) as [Hin' Hid].
  assert (rq' = rq); [|subst; reflexivity].
  clear E. induction (waiting s) as [|x w IH]; [destruct Hin|].
  cbn [wids map] in Hnd. inversion Hnd as [|? ? Hx Hw]; subst.
  destruct Hin as [->|Hin], Hin' as [->|Hin'].
  - reflexivity.
  - exfalso. apply Hx. rewrite <- Hid. now apply in_map.
  - exfalso. apply Hx. rewrite Hid. now apply in_map.
  - now apply IH.
Qed.

(** a raced request is released by its own timer only *)
Theorem raced_released_by_timeout : forall M s c rq, failed s = Some c -> ~ In (rid rq) (wids (waiting s)) ->
  let s1 := fst (step M s (ReqRaced rq)) in
  snd (step M s (ReqRaced rq)) = [] /\
  step M s1 (Timeout (rid rq)) =
    (mkst (seq s) (pending s) (failed s) (rm_wait (rid rq) (waiting s)) (errq s + 1),
     [Done (rid rq) (local_result rq (timeout_err (rkind rq)))]).
Proof.
  intros M s c rq F Hfresh. cbn [step]. rewrite F. cbn [fst snd]. split; [reflexivity|].
  unfold add_waiting. cbn [step waiting find_wait]. rewrite N.eqb_refl.
  cbn [seq pending failed errq waiting rm_wait]. rewrite N.eqb_refl, ?F. reflexivity.
Qed.

(** ** exec / run over concatenations *)

Lemma exec_app : forall M a s b, exec M s (a ++ b) = exec M s a ++ exec M (run M s a) b.
Proof.
  induction a as [|e a IH]; intros s b; [reflexivity|].
  cbn [app exec run]. destruct (step M s e) as [s1 o]. cbn [fst]. now rewrite IH.
Qed.

Lemma run_app : forall M a s b, run M s (a ++ b) = run M (run M s a) b.
Proof. induction a as [|e a IH]; intros s b; [reflexivity|]. cbn [app run]. apply IH. Qed.

Lemma guard_app : forall M a s b, guard M s (a ++ b) = guard M s a && guard M (run M s a) b.
Proof.
  induction a as [|e a IH]; intros s b; [reflexivity|].
  cbn [app]. rewrite !guard_cons. cbn [run]. rewrite IH. now rewrite andb_assoc.
Qed.

Lemma waiting_nodup_run : forall M es s, NoDup (req_ids es) -> NoDup (wids (waiting s)) ->
  (forall id, In id (req_ids es) -> ~ In id (wids (waiting s))) -> NoDup (wids (waiting (run M s es))).
Proof.
  induction es as [|e es IH]; intros s Hnd Hw Hfresh; [exact Hw|].
  cbn [run]. destruct (step M s e) as [s1 o] eqn:E. cbn [fst]. rewrite new_ids_req_ids in Hnd, Hfresh.
  assert (Hf1 : forall id, In id (new_ids e) -> ~ In id (wids (waiting s))).
  { intros x Hx. apply (Hfresh x). apply in_app_iff. now left. }
  destruct (step_callers _ _ _ _ _ E Hf1) as (C1 & C2 & C3 & C4 & C5).
  assert (Hsplit : NoDup (req_ids es) /\ forall x, In x (new_ids e) -> ~ In x (req_ids es)).
  { clear -Hnd. induction (new_ids e) as [|x l IHl]; cbn [app] in *; [split; [exact Hnd | intros x []]|].
    inversion Hnd as [|? ? Hx Hl]; subst. destruct (IHl Hl) as (I2 & I3). split; [exact I2|].
    intros y [->|Hy]; [intro Hin; apply Hx, in_app_iff; now right | now apply I3]. }
  destruct Hsplit as [N2 N3].
  apply IH; [exact N2 | now apply C4|].
  intros x Hx Hw1. apply C3 in Hw1. destruct Hw1 as [Hw1|Hw1].
  - apply (Hfresh x); [apply in_app_iff; now right | exact Hw1].
  - exact (N3 x Hw1 Hx).
Qed.

(** when the connection fails, every call issued so far has returned after that one step *)
Theorem fail_all_complete : forall M es c, NoDup (req_ids es) -> guard M init es = true ->
  failed (run M init es) = None ->
  forall id, In id (req_ids es) -> In id (done_ids (outs (exec M init (es ++ [TransportErr c])))).
Proof.
  intros M es c Hnd Hg F id Hin.
  rewrite exec_app, outs_app, done_ids_app, in_app_iff.
  destruct (accounted_gen M es init Hnd (fun _ _ H => H) id (or_intror Hin)) as [Hw|Hd]; [|now left].
  right. cbn [exec]. destruct (step M (run M init es) (TransportErr c)) as [s1 o] eqn:E.
  unfold outs. cbn [flat_map snd]. rewrite app_nil_r.
  destruct (fail_all_step M _ c (no_orphan M es Hg) F s1 o E) as (H1 & _).
  unfold wids in Hw. apply in_map_iff in Hw. destruct Hw as [rq [Hid Hrq]]. subst id.
  destruct (H1 rq Hrq) as [r [Hr _]]. apply in_done_ids. now exists r.
Qed.
