(** * Rpc: proofs about the client state machine (rpc/client.go), for every modulus M > 0 of the
    sequence counter (the code has M = 2^32). *)
From Coq Require Import List ZArith NArith Bool Arith Lia.
From Jiva Require Import Rpc.Model.
Import ListNotations.
Open Scope N_scope.

Definition wids (w : list req) : list N := map rid w.
Definition done_ids (os : list out) : list N := map fst (dones os).
Definition is_local (r : result) : bool := match r_err r with ELocal _ => true | _ => false end.
Definition new_ids (e : event) : list N := match is_req e with Some r => [rid r] | None => [] end.
Definition log := list (event * list out).

(** ** lists *)

Lemma NoDup_app_intro : forall (a b : list N), NoDup a -> NoDup b -> (forall x, In x a -> ~ In x b) -> NoDup (a ++ b).
Proof.
  induction a as [|x a IH]; intros b Ha Hb Hd; cbn [app]; [exact Hb|].
  inversion Ha as [|? ? Hx Ha']; subst. constructor.
  - rewrite in_app_iff. intros [H|H]; [now apply Hx | exact (Hd x (or_introl eq_refl) H)].
  - apply IH; [exact Ha' | exact Hb | intros y Hy; apply Hd; now right].
Qed.

Lemma dones_app : forall a b, dones (a ++ b) = dones a ++ dones b.
Proof.
  induction a as [|x a IH]; intro b; [reflexivity|].
  destruct x; cbn [app dones]; rewrite IH; reflexivity.
Qed.

Lemma done_ids_app : forall a b, done_ids (a ++ b) = done_ids a ++ done_ids b.
Proof. intros a b. unfold done_ids. now rewrite dones_app, map_app. Qed.

Lemma in_done_ids : forall os id, In id (done_ids os) <-> exists r, In (Done id r) os.
Proof.
  induction os as [|x os IH]; intro id.
  - cbn. split; [tauto | intros [r []]].
  - destruct x as [m|id' r'| |sq|id']; unfold done_ids in *; cbn [dones map fst In]; rewrite ?IH;
      split; try (intros [r [H|H]]; [discriminate | now exists r]); try (intros [r H]; exists r; now right).
    + intros [H|[r H]]; [subst; exists r'; now left | exists r; now right].
    + intros [r [H|H]]; [inversion H; now left | right; now exists r].
Qed.

Lemma outs_app : forall (a b : log), outs (a ++ b) = outs a ++ outs b.
Proof. intros a b. unfold outs. now rewrite flat_map_app. Qed.

(** ** the waiting list *)

Lemma find_wait_some : forall id w r, find_wait id w = Some r -> In r w /\ rid r = id.
Proof.
  induction w as [|x w IH]; intros r H; cbn [find_wait] in H; [discriminate|].
  destruct (rid x =? id) eqn:E.
  - inversion H; subst. apply N.eqb_eq in E. split; [now left | exact E].
  - destruct (IH r H) as [H1 H2]. split; [now right | exact H2].
Qed.

Lemma find_wait_none : forall id w, find_wait id w = None <-> ~ In id (wids w).
Proof.
  induction w as [|x w IH]; cbn [find_wait wids map In]; [tauto|].
  destruct (rid x =? id) eqn:E.
  - apply N.eqb_eq in E. split; [discriminate | intro H; exfalso; apply H; now left].
  - apply N.eqb_neq in E. fold (wids w). rewrite IH. tauto.
Qed.

Lemma find_wait_in : forall r w, In r w -> find_wait (rid r) w <> None.
Proof.
  intros r w Hin H. apply find_wait_none in H. apply H. unfold wids. apply in_map. exact Hin.
Qed.

Lemma in_rm_wait : forall id w r, In r (rm_wait id w) <-> In r w /\ rid r <> id.
Proof.
  induction w as [|x w IH]; intro r; cbn [rm_wait In]; [tauto|].
  destruct (rid x =? id) eqn:E.
  - apply N.eqb_eq in E. rewrite IH. split; [tauto|]. intros [[H|H] Hn]; [subst; contradiction | tauto].
  - apply N.eqb_neq in E. cbn [In]. rewrite IH. split; [intros [H|H]; [subst; tauto | tauto] | tauto].
Qed.

Lemma in_wids_rm_wait : forall id w x, In x (wids (rm_wait id w)) <-> In x (wids w) /\ x <> id.
Proof.
  intros id w x. unfold wids. rewrite !in_map_iff. split.
  - intros [r [Hr Hin]]. apply in_rm_wait in Hin. destruct Hin as [Hin Hne]. subst x. split; [now exists r | exact Hne].
  - intros [[r [Hr Hin]] Hne]. exists r. split; [exact Hr|]. apply in_rm_wait. subst x. tauto.
Qed.

Lemma nodup_rm_wait : forall id w, NoDup (wids w) -> NoDup (wids (rm_wait id w)).
Proof.
  induction w as [|x w IH]; intro H; cbn [rm_wait]; [exact H|].
  cbn [wids map] in H. inversion H as [|? ? Hx Hw]; subst.
  destruct (rid x =? id); [now apply IH|].
  cbn [wids map]. constructor; [|now apply IH].
  intro Hin. apply in_wids_rm_wait in Hin. apply Hx. tauto.
Qed.

(** [shrinks w w']: w' is w with some callers removed *)
Definition shrinks (w w' : list req) : Prop :=
  (forall x, In x w' -> In x w) /\ (NoDup (wids w) -> NoDup (wids w')).

Lemma shrinks_refl : forall w, shrinks w w.
Proof. intro w. split; auto. Qed.
Lemma shrinks_trans : forall a b c, shrinks a b -> shrinks b c -> shrinks a c.
Proof. intros a b c [H1 H2] [H3 H4]. split; auto. Qed.
Lemma shrinks_rm : forall id w, shrinks w (rm_wait id w).
Proof. intros id w. split; [intros x H; apply in_rm_wait in H; tauto | apply nodup_rm_wait]. Qed.
Lemma shrinks_wids : forall w w' id, shrinks w w' -> In id (wids w') -> In id (wids w).
Proof.
  intros w w' id [H _] Hin. unfold wids in *. apply in_map_iff in Hin. destruct Hin as [r [Hr Hin]].
  apply in_map_iff. exists r. auto.
Qed.

(** ** deliver / reply_all *)

Lemma deliver_cases : forall w rq r w' o, deliver w rq r = (w', o) ->
  (find_wait (rid rq) w <> None /\ w' = rm_wait (rid rq) w /\ o = [Done (rid rq) r]) \/
  (find_wait (rid rq) w = None /\ w' = w /\ o = [Void (rid rq)]).
Proof.
  intros w rq r w' o H. unfold deliver in H. destruct (find_wait (rid rq) w) eqn:E; inversion H; subst.
  - left. repeat split. discriminate.
  - right. repeat split.
Qed.

(** what one step may do to the callers: [o] completes distinct waiting callers and removes them *)
Definition step_ok (w : list req) (o : list out) (w' : list req) : Prop :=
  NoDup (done_ids o) /\
  (forall id, In id (done_ids o) -> In id (wids w) /\ ~ In id (wids w')) /\
  shrinks w w' /\
  (forall id, In id (wids w) -> In id (wids w') \/ In id (done_ids o)).

Lemma deliver_ok : forall w rq r w' o, deliver w rq r = (w', o) -> step_ok w o w'.
Proof.
  intros w rq r w' o H. apply deliver_cases in H. destruct H as [(Hf & -> & ->)|(Hf & -> & ->)].
  - unfold step_ok, done_ids. cbn [dones map fst]. repeat split.
    + constructor; [intros []|constructor].
    + destruct H as [<-|[]]. destruct (find_wait (rid rq) w) eqn:E; [|contradiction].
      apply find_wait_some in E. destruct E as [E1 E2]. rewrite <- E2. unfold wids. now apply in_map.
    + destruct H as [<-|[]]. intro Hin. apply in_wids_rm_wait in Hin. tauto.
    + apply shrinks_rm.
    + apply shrinks_rm.
    + intros id Hin. destruct (N.eq_dec id (rid rq)) as [->|Hne]; [right; now left|].
      left. apply in_wids_rm_wait. tauto.
  - unfold step_ok, done_ids. cbn [dones map fst]. repeat split; auto using NoDup_nil;
      try (intros id []); try (match goal with H : In _ [] |- _ => destruct H end).
Qed.

Lemma step_ok_seq : forall w o1 w1 o2 w2, step_ok w o1 w1 -> step_ok w1 o2 w2 -> step_ok w (o1 ++ o2) w2.
Proof.
  intros w o1 w1 o2 w2 (A1 & A2 & A3 & A4) (B1 & B2 & B3 & B4). unfold step_ok. rewrite done_ids_app.
  split; [|split; [|split]].
  - apply NoDup_app_intro; [exact A1 | exact B1|]. intros x Hx Hy. apply A2 in Hx. apply B2 in Hy. tauto.
  - intros id H. apply in_app_iff in H. destruct H as [H|H].
    + apply A2 in H. split; [tauto|]. intro Hin. destruct H as [_ H]. apply H. eapply shrinks_wids; eauto.
    + apply B2 in H. split; [|tauto]. eapply shrinks_wids; [exact A3 | tauto].
  - eapply shrinks_trans; eauto.
  - intros id Hin. rewrite in_app_iff. apply A4 in Hin. destruct Hin as [Hin|Hin]; [|tauto].
    apply B4 in Hin. tauto.
Qed.

Lemma step_ok_nothing : forall w, step_ok w [] w.
Proof.
  intro w. unfold step_ok, done_ids. cbn [dones map].
  split; [constructor|split; [intros id []|split; [apply shrinks_refl|intros id H; now left]]].
Qed.

Lemma reply_all_ok : forall c p w w2 o, reply_all c p w = (w2, o) -> step_ok w o w2.
Proof.
  induction p as [|[sq rq] p IH]; intros w w2 o H; cbn [reply_all] in H.
  - inversion H; subst. apply step_ok_nothing.
  - destruct (deliver w rq (local_result rq c)) as [w1 o1] eqn:E1.
    destruct (reply_all c p w1) as [w2' o2] eqn:E2. inversion H; subst.
    eapply step_ok_seq; [eapply deliver_ok; eauto | eapply IH; eauto].
Qed.

Lemma r_err_finish : forall k r, r_err (finish k r) = r_err r.
Proof. intros [] r; reflexivity. Qed.

Lemma local_result_err : forall rq c, r_err (local_result rq c) = ELocal c.
Proof. intros rq c. unfold local_result. now rewrite r_err_finish. Qed.

Lemma local_result_local : forall rq c, is_local (local_result rq c) = true.
Proof. intros rq c. unfold is_local. now rewrite local_result_err. Qed.

Lemma reply_all_local : forall c p w w2 o, reply_all c p w = (w2, o) ->
  forall id r, In (Done id r) o -> r_err r = ELocal c.
Proof.
  induction p as [|[sq rq] p IH]; intros w w2 o H id r Hin; cbn [reply_all] in H.
  - inversion H; subst. destruct Hin.
  - destruct (deliver w rq (local_result rq c)) as [w1 o1] eqn:E1.
    destruct (reply_all c p w1) as [w2' o2] eqn:E2. inversion H; subst.
    apply in_app_iff in Hin. destruct Hin as [Hin|Hin]; [|eapply IH; eauto].
    apply deliver_cases in E1. destruct E1 as [(_ & _ & ->)|(_ & _ & ->)]; destruct Hin as [Hin|[]]; [|discriminate].
    inversion Hin; subst. apply local_result_err.
Qed.

(** every waiting caller that owns a pending entry is completed; whoever is left owns none *)
Lemma reply_all_covers : forall c p w w2 o, reply_all c p w = (w2, o) ->
  (forall rq, In rq w -> (exists sq rq', In (sq, rq') p /\ rid rq' = rid rq) ->
     exists r, In (Done (rid rq) r) o /\ r_err r = ELocal c) /\
  (forall rq, In rq w2 -> forall sq rq', In (sq, rq') p -> rid rq' <> rid rq).
Proof.
  induction p as [|[sq0 rq0] p IH]; intros w w2 o H; cbn [reply_all] in H.
  - inversion H; subst. split; [intros rq _ [sq [rq' [[] _]]] | intros rq _ sq rq' []].
  - destruct (deliver w rq0 (local_result rq0 c)) as [w1 o1] eqn:E1.
    destruct (reply_all c p w1) as [w2' o2] eqn:E2. inversion H; subst. clear H.
    destruct (IH _ _ _ E2) as [IH1 IH2]. pose proof (reply_all_ok _ _ _ _ _ E2) as (_ & _ & [Hsub _] & _).
    apply deliver_cases in E1. split.
    + intros rq Hin [sq [rq' [Hp Hid]]].
      destruct (N.eq_dec (rid rq0) (rid rq)) as [Heq|Hne].
      * destruct E1 as [(_ & _ & ->)|(Hf & _ & _)].
        -- exists (local_result rq0 c). rewrite <- Heq. split; [now left | apply local_result_err].
        -- exfalso. rewrite Heq in Hf. exact (find_wait_in _ _ Hin Hf).
      * assert (Hin1 : In rq w1).
        { destruct E1 as [(_ & -> & _)|(_ & -> & _)]; [apply in_rm_wait; split; auto | exact Hin]. }
        destruct Hp as [Hp|Hp]; [inversion Hp; subst; contradiction|].
        destruct (IH1 rq Hin1 (ex_intro _ sq (ex_intro _ rq' (conj Hp Hid)))) as [r [Hr1 Hr2]].
        exists r. split; [apply in_app_iff; now right | exact Hr2].
    + intros rq Hin sq rq' [Hp|Hp]; [|eapply IH2; eauto].
      inversion Hp; subst. apply Hsub in Hin.
      destruct E1 as [(_ & -> & _)|(Hf & -> & _)].
      * apply in_rm_wait in Hin. intro Heq. destruct Hin as [_ Hne]. congruence.
      * intro Heq. rewrite Heq in Hf. exact (find_wait_in _ _ Hin Hf).
Qed.

(** ** one step, seen from the callers *)

Definition callers_ok (s : st) (e : event) (s1 : st) (o : list out) : Prop :=
  NoDup (done_ids o) /\
  (forall id, In id (done_ids o) -> (In id (wids (waiting s)) \/ In id (new_ids e)) /\ ~ In id (wids (waiting s1))) /\
  (forall id, In id (wids (waiting s1)) -> In id (wids (waiting s)) \/ In id (new_ids e)) /\
  (NoDup (wids (waiting s)) -> NoDup (wids (waiting s1))) /\
  (forall id, In id (wids (waiting s)) \/ In id (new_ids e) -> In id (wids (waiting s1)) \/ In id (done_ids o)).

Lemma callers_of_step_ok : forall s e s1 o, new_ids e = [] -> step_ok (waiting s) o (waiting s1) -> callers_ok s e s1 o.
Proof.
  intros s e s1 o Hn (A1 & A2 & A3 & A4). unfold callers_ok. rewrite Hn. repeat split.
  - exact A1.
  - left. now apply A2.
  - now apply A2.
  - intros id Hin. left. eapply shrinks_wids; eauto.
  - destruct A3; auto.
  - intros id [Hin|[]]. now apply A4.
Qed.

Lemma step_ok_skip : forall w x o w', done_ids [x] = [] -> step_ok w o w' -> step_ok w (x :: o) w'.
Proof.
  intros w x o w' Hx H. change (x :: o) with ([x] ++ o). unfold step_ok in *. rewrite done_ids_app, Hx. exact H.
Qed.

Lemma accept_step : forall M s rq, failed s = None ->
  handle_request M (add_waiting s rq) rq =
  (mkst (next_seq M (seq s)) ((next_seq M (seq s), rq) :: remove_key (next_seq M (seq s)) (pending s)) None
        (rq :: waiting s) (errq s),
   [Sent (req_msg (next_seq M (seq s)) rq)]).
Proof.
  intros M s rq F. unfold handle_request, add_waiting. cbn [failed seq pending waiting errq]. rewrite F. reflexivity.
Qed.

Lemma callers_accept : forall s e rq s1 o, is_req e = Some rq -> waiting s1 = rq :: waiting s -> done_ids o = [] ->
  (forall id, In id (new_ids e) -> ~ In id (wids (waiting s))) -> callers_ok s e s1 o.
Proof.
  intros s e rq s1 o Hr Hw Ho Hfresh. unfold callers_ok, new_ids in *. rewrite Hr in *. rewrite Hw, Ho. cbn [wids map].
  repeat split.
  - constructor.
  - destruct H.
  - destruct H.
  - intros id [Hid|Hin]; [right; now left | now left].
  - intros Hnd. constructor; [apply Hfresh; now left | exact Hnd].
  - intros id [Hin|[Hid|[]]]; left; [now right | now left].
Qed.

Lemma step_callers : forall M s e s1 o, step M s e = (s1, o) ->
  (forall id, In id (new_ids e) -> ~ In id (wids (waiting s))) -> callers_ok s e s1 o.
Proof.
  intros M s e s1 o H Hfresh.
  destruct e as [rq|rq|sq ty sz d|c|id]; cbn [step] in H.
  - destruct (failed s) as [c|] eqn:F.
    + inversion H; subst s1 o. unfold callers_ok, new_ids, done_ids. cbn [is_req dones map fst]. repeat split.
      * constructor; [intros []|constructor].
      * destruct H0 as [<-|[]]. right. now left.
      * destruct H0 as [<-|[]]. apply Hfresh. unfold new_ids. cbn [is_req]. now left.
      * intros id Hin; now left.
      * auto.
      * intros id [Hin|[Hid|[]]]; [now left | right; now left].
    + rewrite accept_step in H by exact F. inversion H; subst s1 o.
      eapply callers_accept with (rq := rq); try reflexivity; exact Hfresh.
  - destruct (failed s) as [c|] eqn:F.
    + inversion H; subst s1 o. eapply callers_accept with (rq := rq); try reflexivity; exact Hfresh.
    + rewrite accept_step in H by exact F. inversion H; subst s1 o.
      eapply callers_accept with (rq := rq); try reflexivity; exact Hfresh.
  - apply callers_of_step_ok; [reflexivity|].
    destruct (failed s) as [c|] eqn:F.
    + inversion H; subst s1 o. apply step_ok_nothing.
    + unfold handle_response in H. destruct (lookup sq (pending s)) as [rq|] eqn:L.
      * rewrite F in H. destruct (deliver (waiting s) rq (op_result rq ty sz d)) as [w o'] eqn:E. inversion H; subst s1 o.
        cbn [waiting]. eapply deliver_ok; eauto.
      * inversion H; subst s1 o. apply step_ok_skip; [reflexivity | apply step_ok_nothing].
  - apply callers_of_step_ok; [reflexivity|].
    destruct (failed s) as [c'|] eqn:F.
    + inversion H; subst s1 o. apply step_ok_nothing.
    + unfold handle_transport in H. destruct (reply_all c (pending s) (waiting s)) as [w o'] eqn:E. inversion H; subst s1 o.
      cbn [waiting]. apply step_ok_skip; [reflexivity | eapply reply_all_ok; eauto].
  - apply callers_of_step_ok; [reflexivity|].
    destruct (find_wait id (waiting s)) as [rq|] eqn:E.
    + inversion H; subst s1 o. cbn [waiting].
      destruct (find_wait_some _ _ _ E) as [_ Hid]. subst id.
      apply (deliver_ok (waiting s) rq (local_result rq (timeout_err (rkind rq)))).
      unfold deliver. rewrite E. reflexivity.
    + inversion H; subst s1 o. apply step_ok_nothing.
Qed.

(** ** each request is completed at most once *)

Lemma new_ids_req_ids : forall e es, req_ids (e :: es) = new_ids e ++ req_ids es.
Proof. reflexivity. Qed.

Lemma at_most_once_gen : forall M es s D,
  NoDup D -> NoDup (wids (waiting s)) ->
  (forall id, In id D -> ~ In id (wids (waiting s))) ->
  (forall id, In id (req_ids es) -> ~ In id D /\ ~ In id (wids (waiting s))) ->
  NoDup (req_ids es) ->
  NoDup (D ++ done_ids (outs (exec M s es))).
Proof.
  induction es as [|e es IH]; intros s D HD Hw Hdis Hfresh Hnd.
  - cbn. now rewrite app_nil_r.
  - cbn [exec]. destruct (step M s e) as [s1 o] eqn:E. unfold outs. cbn [flat_map snd]. fold (outs (exec M s1 es)).
    rewrite done_ids_app, app_assoc. rewrite new_ids_req_ids in Hfresh, Hnd.
    assert (Hf1 : forall id, In id (new_ids e) -> ~ In id (wids (waiting s))).
    { intros id Hin. apply (Hfresh id). apply in_app_iff. now left. }
    destruct (step_callers _ _ _ _ _ E Hf1) as (C1 & C2 & C3 & C4 & _).
    assert (Hnew : NoDup (new_ids e) /\ NoDup (req_ids es) /\ forall x, In x (new_ids e) -> ~ In x (req_ids es)).
    { clear -Hnd. induction (new_ids e) as [|x l IHl]; cbn [app] in *.
      - repeat split; [constructor | exact Hnd | intros x []].
      - inversion Hnd as [|? ? Hx Hl]; subst. destruct (IHl Hl) as (I1 & I2 & I3). repeat split.
        + constructor; [intro Hin; apply Hx, in_app_iff; now left | exact I1].
        + exact I2.
        + intros y [->|Hy]; [intro Hin; apply Hx, in_app_iff; now right | now apply I3]. }
    destruct Hnew as (N1 & N2 & N3).
    apply IH.
    + apply NoDup_app_intro; [exact HD | exact C1|].
      intros x Hx Hy. apply C2 in Hy. destruct Hy as [[Hy|Hy] _].
      * exact (Hdis x Hx Hy).
      * destruct (Hfresh x) as [Hn _]; [apply in_app_iff; now left | contradiction].
    + now apply C4.
    + intros id Hin. apply in_app_iff in Hin. destruct Hin as [Hin|Hin].
      * intro Hw1. apply C3 in Hw1. destruct Hw1 as [Hw1|Hw1]; [exact (Hdis id Hin Hw1)|].
        destruct (Hfresh id) as [Hn _]; [apply in_app_iff; now left | contradiction].
      * apply C2 in Hin. tauto.
    + intros id Hin. destruct (Hfresh id) as [Hn1 Hn2]; [apply in_app_iff; now right|]. split.
      * rewrite in_app_iff. intros [H|H]; [contradiction|]. apply C2 in H. destruct H as [[H|H] _]; [contradiction|].
        exact (N3 id H Hin).
      * intro H. apply C3 in H. destruct H as [H|H]; [contradiction | exact (N3 id H Hin)].
    + exact N2.
Qed.

Theorem at_most_once : forall M es, NoDup (req_ids es) -> NoDup (done_ids (outs (exec M init es))).
Proof.
  intros M es H. apply (at_most_once_gen M es init []).
  - constructor.
  - constructor.
  - intros id [].
  - intros id _. split; intros [].
  - exact H.
Qed.

(** every call that was issued has either returned or is still blocked in its select: nobody is forgotten *)
Lemma accounted_gen : forall M es s, NoDup (req_ids es) ->
  (forall id, In id (req_ids es) -> ~ In id (wids (waiting s))) ->
  forall id, In id (wids (waiting s)) \/ In id (req_ids es) ->
  In id (wids (waiting (run M s es))) \/ In id (done_ids (outs (exec M s es))).
Proof.
  induction es as [|e es IH]; intros s Hnd Hfresh id Hin.
  - cbn. destruct Hin as [Hin|[]]. now left.
  - cbn [exec run]. destruct (step M s e) as [s1 o] eqn:E. cbn [fst]. unfold outs. cbn [flat_map snd]. fold (outs (exec M s1 es)).
    rewrite done_ids_app, in_app_iff. rewrite new_ids_req_ids in Hfresh, Hnd, Hin.
    assert (Hf1 : forall id, In id (new_ids e) -> ~ In id (wids (waiting s))).
    { intros x Hx. apply (Hfresh x). apply in_app_iff. now left. }
    destruct (step_callers _ _ _ _ _ E Hf1) as (C1 & C2 & C3 & C4 & C5).
    assert (Hsplit : NoDup (req_ids es) /\ forall x, In x (new_ids e) -> ~ In x (req_ids es)).
    { clear -Hnd. induction (new_ids e) as [|x l IHl]; cbn [app] in *; [split; [exact Hnd | intros x []]|].
      inversion Hnd as [|? ? Hx Hl]; subst. destruct (IHl Hl) as (I2 & I3). split; [exact I2|].
      intros y [->|Hy]; [intro Hin; apply Hx, in_app_iff; now right | now apply I3]. }
    destruct Hsplit as [N2 N3].
    assert (Hf2 : forall x, In x (req_ids es) -> ~ In x (wids (waiting s1))).
    { intros x Hx Hw1. apply C3 in Hw1. destruct Hw1 as [Hw1|Hw1].
      - apply (Hfresh x); [apply in_app_iff; now right | exact Hw1].
      - exact (N3 x Hw1 Hx). }
    rewrite in_app_iff in Hin.
    assert (Hcase : (In id (wids (waiting s)) \/ In id (new_ids e)) \/ In id (req_ids es)) by tauto.
    destruct Hcase as [Hc|Hc].
    + apply C5 in Hc. destruct Hc as [Hc|Hc]; [|tauto].
      destruct (IH s1 N2 Hf2 id (or_introl Hc)); tauto.
    + destruct (IH s1 N2 Hf2 id (or_intror Hc)); tauto.
Qed.
