(** * Rpc: the C15 trace oracles hold on every trace of the model (Corr.v), plus non-vacuity
    examples.  The codec theorems are in CodecProofs.v, the state machine theorems in LoopProofs.v. *)
From Coq Require Import List ZArith NArith Bool Arith Lia.
From Jiva Require Import Rpc.Model Rpc.CodecProofs Rpc.LoopProofs Rpc.Corr.
Import ListNotations.
Open Scope N_scope.

(** ** boolean tests *)

Lemma listN_eqb_refl : forall l, listN_eqb l l = true.
Proof. induction l as [|x l IH]; cbn [listN_eqb]; [reflexivity|]. now rewrite N.eqb_refl, IH. Qed.

Lemma listN_eqb_eq : forall a b, listN_eqb a b = true -> a = b.
Proof.
  induction a as [|x a IH]; intros [|y b] H; cbn [listN_eqb] in H; try discriminate; [reflexivity|].
  apply andb_true_iff in H. destruct H as [H1 H2]. apply N.eqb_eq in H1. apply IH in H2. congruence.
Qed.

Lemma cerr_eqb_refl : forall c, cerr_eqb c c = true.
Proof. intros []; reflexivity. Qed.

Lemma rerr_eqb_refl : forall e, rerr_eqb e e = true.
Proof. intros [| |t|c]; cbn [rerr_eqb]; auto using listN_eqb_refl, cerr_eqb_refl. Qed.

Lemma result_eqb_refl : forall r, result_eqb r r = true.
Proof. intros [n e b]. unfold result_eqb. cbn [r_n r_err r_buf]. now rewrite Z.eqb_refl, rerr_eqb_refl, listN_eqb_refl. Qed.

Lemma msg_eqb_refl : forall m, msg_eqb m m = true.
Proof. intros [a b c d e f]. unfold msg_eqb. cbn. now rewrite !N.eqb_refl, !Z.eqb_refl, listN_eqb_refl. Qed.

Lemma memb_in : forall x l, memb x l = true <-> In x l.
Proof.
  intros x l. unfold memb. rewrite existsb_exists. split.
  - intros [y [Hy He]]. apply N.eqb_eq in He. now subst.
  - intro H. exists x. split; [exact H | apply N.eqb_refl].
Qed.

Lemma nodupb_NoDup : forall l, nodupb l = true <-> NoDup l.
Proof.
  induction l as [|x l IH]; cbn [nodupb]; [split; [constructor | reflexivity]|].
  rewrite andb_true_iff, negb_true_iff, IH. split.
  - intros [H1 H2]. constructor; [|exact H2]. intro Hin. apply memb_in in Hin. congruence.
  - intro H. inversion H as [|? ? Hx Hl]; subst. split; [|exact Hl].
    destruct (memb x l) eqn:E; [|reflexivity]. apply memb_in in E. contradiction.
Qed.

Lemma lookupc_unique : forall l id r, NoDup (map fst l) -> In (id, r) l -> lookupc id l = Some r.
Proof.
  induction l as [|[k x] l IH]; intros id r Hnd Hin; [destruct Hin|].
  cbn [map fst] in Hnd. inversion Hnd as [|? ? Hk Hl]; subst. cbn [lookupc].
  destruct Hin as [Hin|Hin].
  - inversion Hin; subst. now rewrite N.eqb_refl.
  - destruct (k =? id) eqn:E; [|now apply IH].
    apply N.eqb_eq in E. subst. exfalso. apply Hk. apply in_map_iff. exists (id, r). split; [reflexivity | exact Hin].
Qed.

Lemma in_dones : forall os id r, In (id, r) (dones os) <-> In (Done id r) os.
Proof.
  induction os as [|x os IH]; intros id r; [cbn; tauto|].
  destruct x as [m|id' r'| |sq|id']; cbn [dones In]; rewrite IH; split; try tauto;
    try (intros [H|H]; [discriminate | exact H]).
  - intros [H|H]; [inversion H; now left | now right].
  - intros [H|H]; [inversion H; now left | now right].
Qed.

Lemma NoDup_app_disj : forall (a b : list N), NoDup (a ++ b) -> forall x, In x a -> ~ In x b.
Proof.
  induction a as [|y a IH]; intros b H x Hin; [destruct Hin|].
  cbn [app] in H. inversion H as [|? ? Hy Hab]; subst. destruct Hin as [->|Hin].
  - intro Hb. apply Hy. apply in_app_iff. now right.
  - now apply IH.
Qed.

Lemma NoDup_app_l : forall (a b : list N), NoDup (a ++ b) -> NoDup a.
Proof.
  induction a as [|y a IH]; intros b H; [constructor|].
  cbn [app] in H. inversion H as [|? ? Hy Hab]; subst. constructor; [|eapply IH; eauto].
  intro Hin. apply Hy. apply in_app_iff. now left.
Qed.

Lemma req_ids_app : forall a b, req_ids (a ++ b) = req_ids a ++ req_ids b.
Proof. intros a b. unfold req_ids. apply flat_map_app. Qed.

(** ** the trace functions of the oracle under extension of the trace *)

Lemma find_req_app : forall id pre x rq, find_req id pre = Some rq -> find_req id (pre ++ x) = Some rq.
Proof.
  induction pre as [|e pre IH]; intros x rq H; [discriminate|].
  cbn [app find_req] in *. destruct (is_req e) as [r|]; [|now apply IH].
  destruct (rid r =? id); [exact H | now apply IH].
Qed.

Lemma find_req_none : forall id pre, ~ In id (req_ids pre) -> find_req id pre = None.
Proof.
  induction pre as [|e pre IH]; intro H; [reflexivity|].
  rewrite new_ids_req_ids in H. unfold new_ids in H. cbn [find_req]. destruct (is_req e) as [r|].
  - destruct (rid r =? id) eqn:E.
    + apply N.eqb_eq in E. exfalso. apply H. left. exact E.
    + apply IH. intro Hin. apply H. now right.
  - apply IH. exact H.
Qed.

Lemma find_req_snoc : forall id pre e rq, ~ In id (req_ids pre) -> is_req e = Some rq -> rid rq = id ->
  find_req id (pre ++ [e]) = Some rq.
Proof.
  induction pre as [|e0 pre IH]; intros e rq H He Hid.
  - cbn [app find_req]. rewrite He, Hid, N.eqb_refl. reflexivity.
  - rewrite new_ids_req_ids in H. unfold new_ids in H. cbn [app find_req]. destruct (is_req e0) as [r|].
    + destruct (rid r =? id) eqn:E.
      * apply N.eqb_eq in E. exfalso. apply H. left. exact E.
      * apply IH; auto. intro Hin. apply H. now right.
    + apply IH; auto.
Qed.

Lemma assigned_app : forall M pre cur x id sq, assigned_from M cur pre id = Some sq ->
  assigned_from M cur (pre ++ x) id = Some sq.
Proof.
  induction pre as [|e pre IH]; intros cur x id sq H; [discriminate|].
  destruct e as [r|r|a b c d|c|i]; cbn [app assigned_from is_req] in *; try (now apply IH); try discriminate.
  - destruct (rid r =? id); [exact H | now apply IH].
  - destruct (rid r =? id); [exact H | now apply IH].
Qed.

Fixpoint seq_after (M cur : N) (es : list event) : N :=
  match es with
  | [] => cur
  | e :: es' => match is_req e with
                | Some _ => seq_after M (next_seq M cur) es'
                | None => seq_after M cur es'
                end
  end.

Lemma seq_after_snoc : forall M pre cur e, seq_after M cur (pre ++ [e]) =
  match is_req e with Some _ => next_seq M (seq_after M cur pre) | None => seq_after M cur pre end.
Proof.
  induction pre as [|e0 pre IH]; intros cur e; cbn [app seq_after].
  - destruct (is_req e); reflexivity.
  - destruct (is_req e0); apply IH.
Qed.

Definition is_terr (e : event) : bool := match e with TransportErr _ => true | _ => false end.

Lemma split_fail_snoc : forall pre e, split_fail pre = None -> is_terr e = false -> split_fail (pre ++ [e]) = None.
Proof.
  induction pre as [|e0 pre IH]; intros e H He.
  - destruct e; try reflexivity. discriminate.
  - destruct e0 as [r|r|a b c d|c|i]; cbn [app split_fail] in *; try discriminate;
      (destruct (split_fail pre) as [[[p c'] q]|] eqn:E; [discriminate|]; now rewrite IH).
Qed.

Lemma live_app_nofail : forall pre x, split_fail pre = None -> live (pre ++ x) = pre ++ live x.
Proof.
  induction pre as [|e0 pre IH]; intros x H; [reflexivity|].
  destruct e0 as [r|r|a b c d|c|i]; cbn [app split_fail live] in *; try discriminate;
    (destruct (split_fail pre) as [[[p c'] q]|] eqn:E; [discriminate|]; now rewrite IH).
Qed.

Lemma live_app_in : forall pre x e, In e (live pre) -> In e (live (pre ++ x)).
Proof.
  induction pre as [|e0 pre IH]; intros x e H; [destruct H|].
  destruct e0 as [r|r|a b c d|c|i]; cbn [app live] in *; try (destruct H as [H|H]; [now left | right; now apply IH]).
  destruct H.
Qed.

Lemma assigned_snoc : forall M pre cur e rq id, split_fail pre = None -> ~ In id (req_ids pre) ->
  is_req e = Some rq -> rid rq = id ->
  assigned_from M cur (pre ++ [e]) id = Some (next_seq M (seq_after M cur pre)).
Proof.
  induction pre as [|e0 pre IH]; intros cur e rq id Hs Hf He Hid.
  - cbn [app seq_after]. destruct e as [r|r|a b c d|c|i]; cbn [is_req] in He; try discriminate;
      inversion He; subst; cbn [assigned_from is_req]; now rewrite N.eqb_refl.
  - rewrite new_ids_req_ids in Hf. unfold new_ids in Hf.
    destruct e0 as [r|r|a b c d|c|i]; cbn [app split_fail assigned_from seq_after is_req] in *; try discriminate;
      (destruct (split_fail pre) as [[[p c'] q]|] eqn:E; [discriminate|]).
    + destruct (rid r =? id) eqn:E2; [apply N.eqb_eq in E2; exfalso; apply Hf; left; exact E2|].
      eapply IH; eauto. intro Hin. apply Hf. now right.
    + destruct (rid r =? id) eqn:E2; [apply N.eqb_eq in E2; exfalso; apply Hf; left; exact E2|].
      eapply IH; eauto. intro Hin. apply Hf. now right.
    + eapply IH; eauto.
    + eapply IH; eauto.
Qed.

Lemma existsb_app_l : forall (f : event -> bool) a b, existsb f a = true -> existsb f (a ++ b) = true.
Proof. intros f a b H. rewrite existsb_app, H. reflexivity. Qed.

Lemma justified_mono : forall M pre x id r, justified M pre id r = true -> justified M (pre ++ x) id r = true.
Proof.
  intros M pre x id r H. unfold justified in *.
  destruct (find_req id pre) as [rq|] eqn:F; [|discriminate]. rewrite (find_req_app _ _ x _ F).
  destruct (r_err r) as [| |t|c].
  - destruct (assigned_from M 0 pre id) as [sq|] eqn:A; [|discriminate]. rewrite (assigned_app _ _ _ x _ _ A).
    apply existsb_exists in H. destruct H as [e [He1 He2]]. apply existsb_exists. exists e. split; [now apply live_app_in | exact He2].
  - destruct (assigned_from M 0 pre id) as [sq|] eqn:A; [|discriminate]. rewrite (assigned_app _ _ _ x _ _ A).
    apply existsb_exists in H. destruct H as [e [He1 He2]]. apply existsb_exists. exists e. split; [now apply live_app_in | exact He2].
  - destruct (assigned_from M 0 pre id) as [sq|] eqn:A; [|discriminate]. rewrite (assigned_app _ _ _ x _ _ A).
    apply existsb_exists in H. destruct H as [e [He1 He2]]. apply existsb_exists. exists e. split; [now apply live_app_in | exact He2].
  - apply andb_true_iff in H. destruct H as [H1 H2]. apply andb_true_iff. split; [now apply existsb_app_l | exact H2].
Qed.

(** ** the invariant that ties the state to the trace so far *)

Definition jinv (M : N) (pre : list event) (s : st) : Prop :=
  (forall sq rq, In (sq, rq) (pending s) ->
     find_req (rid rq) pre = Some rq /\ assigned_from M 0 pre (rid rq) = Some sq) /\
  (forall rq, In rq (waiting s) -> find_req (rid rq) pre = Some rq) /\
  (failed s = None -> split_fail pre = None /\ seq s = seq_after M 0 pre) /\
  (forall c, failed s = Some c -> existsb is_fail pre = true).

Lemma op_result_err : forall rq ty sz d, r_err (op_result rq ty sz d) =
  if ty =? TypeError then ERemote d else if ty =? TypeEOF then EEOF else ENone.
Proof.
  intros rq ty sz d. unfold op_result. rewrite r_err_finish.
  destruct (ty =? TypeError); [reflexivity|]. destruct (ty =? TypeEOF); reflexivity.
Qed.

Lemma justified_local : forall M es id rq c, find_req id es = Some rq -> existsb is_fail es = true ->
  justified M es id (local_result rq c) = true.
Proof.
  intros M es id rq c F E. unfold justified. rewrite F, local_result_err, E. cbn [andb]. apply result_eqb_refl.
Qed.

Lemma justified_resp : forall M pre id rq sq ty sz d, split_fail pre = None ->
  find_req id pre = Some rq -> assigned_from M 0 pre id = Some sq ->
  justified M (pre ++ [Resp sq ty sz d]) id (op_result rq ty sz d) = true.
Proof.
  intros M pre id rq sq ty sz d Hs F A. unfold justified.
  rewrite (find_req_app _ _ _ _ F), (assigned_app _ _ _ _ _ _ A), (live_app_nofail _ _ Hs). cbn [live].
  assert (E : existsb (fun e => match e with
                | Resp sq' ty0 sz0 d0 => (sq' =? sq) && result_eqb (op_result rq ty sz d) (op_result rq ty0 sz0 d0)
                | _ => false end) (pre ++ [Resp sq ty sz d]) = true).
  { apply existsb_exists. exists (Resp sq ty sz d). split; [apply in_app_iff; right; now left|].
    now rewrite N.eqb_refl, result_eqb_refl. }
  rewrite op_result_err. destruct (ty =? TypeError); [exact E|]. destruct (ty =? TypeEOF); exact E.
Qed.

Lemma reply_all_dones : forall c p w w2 o, reply_all c p w = (w2, o) ->
  forall id r, In (Done id r) o -> exists sq rq, In (sq, rq) p /\ id = rid rq /\ r = local_result rq c.
Proof.
  induction p as [|[sq0 rq0] p IH]; intros w w2 o H id r Hin; cbn [reply_all] in H.
  - inversion H; subst. destruct Hin.
  - destruct (deliver w rq0 (local_result rq0 c)) as [w1 o1] eqn:E1.
    destruct (reply_all c p w1) as [w2' o2] eqn:E2. inversion H; subst.
    apply in_app_iff in Hin. destruct Hin as [Hin|Hin].
    + apply deliver_cases in E1. destruct E1 as [(_ & _ & ->)|(_ & _ & ->)]; destruct Hin as [Hin|[]]; [|discriminate].
      inversion Hin; subst. exists sq0, rq0. repeat split. now left.
    + destruct (IH _ _ _ E2 id r Hin) as (sq & rq & H1 & H2 & H3). exists sq, rq. repeat split; auto. now right.
Qed.

Lemma is_fail_snoc : forall pre e, is_fail e = true -> existsb is_fail (pre ++ [e]) = true.
Proof. intros pre e H. rewrite existsb_app. cbn [existsb]. rewrite H. now rewrite orb_true_r. Qed.

Lemma jinv_step : forall M pre s e s1 o, jinv M pre s ->
  (forall id, In id (new_ids e) -> ~ In id (req_ids pre)) ->
  step M s e = (s1, o) ->
  (forall id r, In (Done id r) o -> justified M (pre ++ [e]) id r = true) /\ jinv M (pre ++ [e]) s1.
Proof.
  intros M pre s e s1 o (J1 & J2 & J3 & J4) Hfresh H.
  (* facts that survive any extension of the trace *)
  assert (K1 : forall sq rq, In (sq, rq) (pending s) ->
     find_req (rid rq) (pre ++ [e]) = Some rq /\ assigned_from M 0 (pre ++ [e]) (rid rq) = Some sq).
  { intros sq rq Hin. destruct (J1 sq rq Hin) as [A B]. split; [now apply find_req_app | now apply assigned_app]. }
  assert (K2 : forall rq, In rq (waiting s) -> find_req (rid rq) (pre ++ [e]) = Some rq).
  { intros rq Hin. apply find_req_app. now apply J2. }
  assert (K4 : forall c, failed s = Some c -> existsb is_fail (pre ++ [e]) = true).
  { intros c F. apply existsb_app_l. eapply J4; eauto. }
  (* a state that keeps or shrinks pending / waiting and keeps failed, seq *)
  assert (Hkeep : forall s', (forall x, In x (pending s') -> In x (pending s)) ->
            (forall x, In x (waiting s') -> In x (waiting s)) ->
            failed s' = failed s -> seq s' = seq s -> is_req e = None -> is_terr e = false -> jinv M (pre ++ [e]) s').
  { intros s' Hp Hw Hf Hs Hr Ht. unfold jinv. split; [|split; [|split]].
    - intros sq rq Hin. apply K1. now apply Hp.
    - intros rq Hin. apply K2. now apply Hw.
    - intro F0. rewrite Hf in F0. destruct (J3 F0) as [A B]. split; [now apply split_fail_snoc|].
      rewrite Hs, B, seq_after_snoc, Hr. reflexivity.
    - intros c F0. rewrite Hf in F0. eapply K4; eauto. }
  (* the state does not change although the connection has failed *)
  assert (Hdead : forall c, failed s = Some c -> jinv M (pre ++ [e]) s).
  { intros c F. unfold jinv. split; [|split; [|split]].
    - exact K1.
    - exact K2.
    - intro F0. congruence.
    - intros c' _. eapply K4; eauto. }
  (* accepting a request *)
  assert (Hacc : forall rq, is_req e = Some rq -> failed s = None ->
            step M s e = handle_request M (add_waiting s rq) rq ->
            (forall id r, In (Done id r) o -> justified M (pre ++ [e]) id r = true) /\ jinv M (pre ++ [e]) s1).
  { intros rq Hr F Hs. rewrite Hs, accept_step in H by exact F. inversion H; subst s1 o.
    destruct (J3 F) as [A B].
    assert (Hnew : ~ In (rid rq) (req_ids pre)). { apply Hfresh. unfold new_ids. rewrite Hr. now left. }
    assert (Ht : is_terr e = false) by (destruct e; try reflexivity; discriminate).
    split; [intros id r [Hin|[]]; discriminate|]. unfold jinv. cbn [pending waiting failed seq].
    split; [|split; [|split]].
    - intros sq rq' [Hin|Hin].
      + inversion Hin; subst sq rq'. split; [eapply find_req_snoc; eauto|].
        rewrite B. eapply assigned_snoc; eauto.
      + apply in_remove_key in Hin. apply K1. tauto.
    - intros rq' [Heq|Hin]; [subst rq'; eapply find_req_snoc; eauto | now apply K2].
    - intros _. split; [now apply split_fail_snoc|]. rewrite seq_after_snoc, Hr, B. reflexivity.
    - intros c Hc. discriminate. }
  destruct e as [rq|rq|sq ty sz d|c|id]; cbn [step] in H.
  - destruct (failed s) as [c|] eqn:F.
    + inversion H; subst s1 o. split; [|now apply (Hdead c)].
      intros id r [Hin|[]]. inversion Hin; subst. apply justified_local; [|eapply K4; eauto].
      apply find_req_snoc with (rq := rq); [apply Hfresh; now left | reflexivity | reflexivity].
    + apply (Hacc rq eq_refl eq_refl). cbn [step]. now rewrite F.
  - destruct (failed s) as [c|] eqn:F.
    + inversion H; subst s1 o. split; [intros id r []|].
      unfold jinv, add_waiting. cbn [pending waiting failed seq]. split; [|split; [|split]].
      * exact K1.
      * intros rq' [Heq|Hin]; [subst rq'|now apply K2].
        apply find_req_snoc with (rq := rq); [apply Hfresh; now left | reflexivity | reflexivity].
      * intro F0. congruence.
      * intros c' _. eapply K4; eauto.
    + apply (Hacc rq eq_refl eq_refl). cbn [step]. now rewrite F.
  - destruct (failed s) as [c|] eqn:F.
    + inversion H; subst s1 o. split; [intros id r []|]. apply Hkeep; auto.
    + unfold handle_response in H. destruct (lookup sq (pending s)) as [rq|] eqn:L.
      * rewrite F in H. destruct (deliver (waiting s) rq (op_result rq ty sz d)) as [w o'] eqn:E. inversion H; subst s1 o.
        pose proof (deliver_ok _ _ _ _ _ E) as (_ & _ & [Hsub _] & _).
        split.
        -- intros id r Hin. apply deliver_cases in E.
           destruct E as [(_ & _ & ->)|(_ & _ & ->)]; destruct Hin as [Hin|[]]; [|discriminate].
           inversion Hin; subst. destruct (J3 eq_refl) as [A _]. destruct (J1 sq rq (lookup_in _ _ _ L)) as [B C].
           now apply justified_resp.
        -- apply Hkeep; cbn [pending waiting failed seq]; auto.
           intros [k x] Hin. apply in_remove_key in Hin. tauto.
      * inversion H; subst s1 o. split; [intros id r [Hin|[]]; discriminate|]. apply Hkeep; auto.
  - destruct (failed s) as [c'|] eqn:F.
    + inversion H; subst s1 o. split; [intros id r []|]. now apply (Hdead c').
    + unfold handle_transport in H. destruct (reply_all c (pending s) (waiting s)) as [w o'] eqn:E. inversion H; subst s1 o.
      pose proof (reply_all_ok _ _ _ _ _ E) as (_ & _ & [Hsub _] & _).
      split.
      * intros id r [Hin|Hin]; [discriminate|].
        destruct (reply_all_dones _ _ _ _ _ E id r Hin) as (sq & rq & Hp & -> & ->).
        apply justified_local; [now apply (K1 sq rq) | now apply is_fail_snoc].
      * unfold jinv. cbn [pending waiting failed seq]. split; [|split; [|split]].
        -- intros sq rq [].
        -- intros rq Hin. apply K2. now apply Hsub.
        -- intro F0. discriminate.
        -- intros c'' _. now apply is_fail_snoc.
  - destruct (find_wait id (waiting s)) as [rq|] eqn:E.
    + inversion H; subst s1 o. destruct (find_wait_some _ _ _ E) as [Hin Hid]. split.
      * intros id' r [Hd|[]]. inversion Hd; subst. apply justified_local; [now apply K2 | now apply is_fail_snoc].
      * apply Hkeep; cbn [pending waiting failed seq]; auto. intros x Hx. apply in_rm_wait in Hx. tauto.
    + inversion H; subst s1 o. split; [intros id' r []|]. apply Hkeep; auto.
Qed.

Lemma jinv_init : forall M, jinv M [] init.
Proof.
  intro M. unfold jinv. cbn. repeat split; try (intros; contradiction); try discriminate.
Qed.

Lemma justified_gen : forall M es pre s, jinv M pre s -> NoDup (req_ids (pre ++ es)) ->
  forall id r, In (Done id r) (outs (exec M s es)) -> justified M (pre ++ es) id r = true.
Proof.
  induction es as [|e es IH]; intros pre s J Hnd id r Hin; [destruct Hin|].
  cbn [exec] in Hin. destruct (step M s e) as [s1 o] eqn:E.
  unfold outs in Hin. cbn [flat_map snd] in Hin. fold (outs (exec M s1 es)) in Hin.
  assert (Hfresh : forall x, In x (new_ids e) -> ~ In x (req_ids pre)).
  { intros x Hx Hp. rewrite req_ids_app, new_ids_req_ids in Hnd.
    apply (NoDup_app_disj _ _ Hnd x Hp). apply in_app_iff. now left. }
  destruct (jinv_step _ _ _ _ _ _ J Hfresh E) as [S1 S2].
  change (pre ++ e :: es) with (pre ++ [e] ++ es). rewrite app_assoc.
  apply in_app_iff in Hin. destruct Hin as [Hin|Hin].
  - apply justified_mono. now apply S1.
  - apply IH with (s := s1); auto. now rewrite <- app_assoc.
Qed.

(** ** the failure rule *)

Lemma split_fail_cons_none : forall e es, split_fail (e :: es) = None -> is_terr e = false /\ split_fail es = None.
Proof.
  intros e es H. destruct e as [r|r|a b c d|c|i]; cbn [split_fail is_terr] in *; try discriminate;
    (destruct (split_fail es) as [[[p c'] q]|]; [discriminate | split; reflexivity]).
Qed.

Lemma split_fail_spec : forall es pre c post, split_fail es = Some (pre, c, post) ->
  es = pre ++ TransportErr c :: post /\ split_fail pre = None.
Proof.
  induction es as [|e es IH]; intros pre c post H; [discriminate|].
  destruct e as [r|r|a b c0 d|c0|i]; cbn [split_fail] in H;
    try (destruct (split_fail es) as [[[p c'] q]|] eqn:E; [|discriminate]; inversion H; subst;
         destruct (IH _ _ _ eq_refl) as [-> Hn]; split; [reflexivity|]; cbn [split_fail]; now rewrite Hn).
  inversion H; subst. split; reflexivity.
Qed.

Lemma step_failed_none : forall M s e, failed s = None -> is_terr e = false -> failed (fst (step M s e)) = None.
Proof.
  intros M s e F Ht. destruct e as [rq|rq|sq ty sz d|c|id]; cbn [step]; try discriminate; rewrite ?F.
  - rewrite accept_step by exact F. reflexivity.
  - rewrite accept_step by exact F. reflexivity.
  - unfold handle_response. destruct (lookup sq (pending s)); [|exact F]. rewrite F.
    destruct (deliver (waiting s) r (op_result r ty sz d)). reflexivity.
  - destruct (find_wait id (waiting s)); cbn [fst failed]; first [exact F | reflexivity].
Qed.

Lemma nofail_run : forall M pre s, failed s = None -> split_fail pre = None -> failed (run M s pre) = None.
Proof.
  induction pre as [|e pre IH]; intros s F H; [exact F|].
  apply split_fail_cons_none in H. destruct H as [H1 H2]. cbn [run]. apply IH; [now apply step_failed_none | exact H2].
Qed.

Lemma step_terr_failed : forall M s c, failed s = None -> failed (fst (step M s (TransportErr c))) = Some c.
Proof.
  intros M s c F. cbn [step]. rewrite F. unfold handle_transport.
  destruct (reply_all c (pending s) (waiting s)). reflexivity.
Qed.

Lemma count_closed_app : forall a b, count_closed (a ++ b) = count_closed a + count_closed b.
Proof.
  induction a as [|x a IH]; intro b; [reflexivity|].
  destruct x; cbn [app count_closed]; rewrite IH; lia.
Qed.

Lemma deliver_no_closed : forall w rq r w' o, deliver w rq r = (w', o) -> count_closed o = 0.
Proof.
  intros w rq r w' o H. apply deliver_cases in H. destruct H as [(_ & _ & ->)|(_ & _ & ->)]; reflexivity.
Qed.

Lemma reply_all_no_closed : forall c p w w2 o, reply_all c p w = (w2, o) -> count_closed o = 0.
Proof.
  induction p as [|[sq rq] p IH]; intros w w2 o H; cbn [reply_all] in H.
  - inversion H; reflexivity.
  - destruct (deliver w rq (local_result rq c)) as [w1 o1] eqn:E1.
    destruct (reply_all c p w1) as [w2' o2] eqn:E2. inversion H; subst.
    rewrite count_closed_app, (deliver_no_closed _ _ _ _ _ E1), (IH _ _ _ E2). reflexivity.
Qed.

Definition closed_of (s : st) (e : event) : N :=
  match e, failed s with TransportErr _, None => 1 | _, _ => 0 end.

Lemma step_closed : forall M s e, count_closed (snd (step M s e)) = closed_of s e.
Proof.
  intros M s e. unfold closed_of. destruct e as [rq|rq|sq ty sz d|c|id]; cbn [step].
  - destruct (failed s) eqn:F; [reflexivity|]. rewrite accept_step by exact F. reflexivity.
  - destruct (failed s) eqn:F; [reflexivity|]. rewrite accept_step by exact F. reflexivity.
  - destruct (failed s) eqn:F; [reflexivity|]. unfold handle_response.
    destruct (lookup sq (pending s)); [|reflexivity]. rewrite F.
    destruct (deliver (waiting s) r (op_result r ty sz d)) as [w o] eqn:E. cbn [snd]. eapply deliver_no_closed; eauto.
  - destruct (failed s) eqn:F; [reflexivity|]. unfold handle_transport.
    destruct (reply_all c (pending s) (waiting s)) as [w o] eqn:E. cbn [snd count_closed].
    rewrite (reply_all_no_closed _ _ _ _ _ E). reflexivity.
  - destruct (find_wait id (waiting s)); reflexivity.
Qed.

Lemma outs_cons : forall e o (l : log), outs ((e, o) :: l) = o ++ outs l.
Proof. reflexivity. Qed.

Lemma closed_nofail : forall M pre s, failed s = None -> split_fail pre = None ->
  count_closed (outs (exec M s pre)) = 0.
Proof.
  induction pre as [|e pre IH]; intros s F H; [reflexivity|].
  apply split_fail_cons_none in H. destruct H as [H1 H2].
  cbn [exec]. pose proof (step_closed M s e) as Hc. pose proof (step_failed_none M s e F H1) as Hf.
  destruct (step M s e) as [s1 o]. cbn [fst snd] in *. rewrite outs_cons, count_closed_app, Hc, (IH s1 Hf H2).
  unfold closed_of. destruct e; try reflexivity. discriminate.
Qed.

Lemma closed_dead : forall M es s c, failed s = Some c -> count_closed (outs (exec M s es)) = 0.
Proof.
  induction es as [|e es IH]; intros s c F; [reflexivity|].
  cbn [exec]. pose proof (step_closed M s e) as Hc. pose proof (failed_sticky_step M s e c F) as [Hf _].
  destruct (step M s e) as [s1 o]. cbn [fst snd] in *. rewrite outs_cons, count_closed_app, Hc, (IH s1 c Hf).
  unfold closed_of. rewrite F. destruct e; reflexivity.
Qed.

Lemma post_reqs_fail : forall M post s c, failed s = Some c -> forall rq, In (Req rq) post ->
  In (Done (rid rq) (local_result rq c)) (outs (exec M s post)).
Proof.
  induction post as [|e post IH]; intros s c F rq Hin; [destruct Hin|].
  cbn [exec]. pose proof (failed_sticky_step M s e c F) as [Hf _].
  destruct (step M s e) as [s1 o] eqn:E. cbn [fst] in Hf. rewrite outs_cons, in_app_iff.
  destruct Hin as [->|Hin]; [|right; now apply IH].
  left. cbn [step] in E. rewrite F in E. inversion E; subst. now left.
Qed.

(** ** the C15 oracle holds on every trace of the model *)

Theorem c15_oracle_model : forall M es, trace_wf M es = true ->
  c15_oracle M es (dones (outs (exec M init es))) (count_closed (outs (exec M init es))) = true.
Proof.
  intros M es Hwf. unfold trace_wf in Hwf. apply andb_true_iff in Hwf. destruct Hwf as [Hnd Hc].
  apply nodupb_NoDup in Hnd. apply N.ltb_lt in Hc. pose proof (guard_of_count M es Hc) as Hg.
  pose proof (at_most_once M es Hnd) as Hamo. unfold done_ids in Hamo.
  unfold c15_oracle. rewrite !andb_true_iff. split; [split|].
  - now apply nodupb_NoDup.
  - apply forallb_forall. intros [id r] Hin. apply in_dones in Hin.
    apply (justified_gen M es [] init (jinv_init M) Hnd id r Hin).
  - unfold fail_rule. destruct (split_fail es) as [[[pre c] post]|] eqn:S.
    + destruct (split_fail_spec _ _ _ _ S) as [Hes Hpre].
      set (s0 := run M init pre).
      assert (F0 : failed s0 = None) by (apply nofail_run; [reflexivity | exact Hpre]).
      assert (Hex : exec M init es = exec M init pre ++ exec M s0 (TransportErr c :: post)).
      { rewrite Hes. apply exec_app. }
      cbn [exec] in Hex. pose proof (step_closed M s0 (TransportErr c)) as Hc1.
      pose proof (step_terr_failed M s0 c F0) as F1.
      destruct (step M s0 (TransportErr c)) as [s1 o1] eqn:E1. cbn [fst snd] in *.
      rewrite Hex, outs_app, outs_cons. rewrite !andb_true_iff. split; [split|].
      * rewrite !count_closed_app, (closed_nofail M pre init eq_refl Hpre), Hc1, (closed_dead M post s1 c F1).
        unfold closed_of. rewrite F0. reflexivity.
      * apply forallb_forall. intros id Hin. apply memb_in.
        assert (Hnd1 : NoDup (req_ids pre)) by (rewrite Hes, req_ids_app in Hnd; eapply NoDup_app_l; eauto).
        assert (Hg1 : guard M init pre = true).
        { rewrite Hes, guard_app in Hg. apply andb_true_iff in Hg. tauto. }
        pose proof (fail_all_complete M pre c Hnd1 Hg1 F0 id Hin) as Hd.
        rewrite exec_app in Hd. fold s0 in Hd. cbn [exec] in Hd. rewrite E1 in Hd.
        unfold done_ids in Hd. rewrite outs_app, outs_cons in Hd. cbn [outs flat_map] in Hd. rewrite app_nil_r in Hd.
        rewrite !dones_app, !map_app, !in_app_iff. rewrite dones_app, map_app, in_app_iff in Hd. tauto.
      * apply forallb_forall. intros e Hin. destruct e as [rq| | | |]; try reflexivity.
        pose proof (post_reqs_fail M post s1 c F1 rq Hin) as Hd.
        assert (Hall : In (rid rq, local_result rq c) (dones (outs (exec M init es)))).
        { apply in_dones. rewrite Hex, outs_app, outs_cons, !in_app_iff. tauto. }
        rewrite Hex, outs_app, outs_cons in Hall. rewrite Hex, outs_app, outs_cons in Hamo.
        rewrite (lookupc_unique _ _ _ Hamo Hall). apply result_eqb_refl.
    + rewrite (closed_nofail M es init eq_refl S). reflexivity.
Qed.

(** the model differs from itself nowhere (sanity of the comparison functions) *)
Lemma frames_eqb_refl : forall l, frames_eqb l l = true.
Proof. induction l as [|x l IH]; cbn [frames_eqb]; [reflexivity|]. now rewrite listN_eqb_refl, IH. Qed.

(** ** the codec oracles hold for the model's encoder / decoder *)

Theorem write_oracle_model : forall m, wcase_same (mkw m (encode m)) = true /\ c15_write_oracle (mkw m (encode m)) = true.
Proof.
  intro m. split; [apply listN_eqb_refl|].
  unfold c15_write_oracle. cbn [w_msg w_bytes]. destruct (wfb m) eqn:W; [|reflexivity].
  apply wfb_wf in W. rewrite <- (app_nil_r (encode m)), (roundtrip m [] W). apply msg_eqb_refl.
Qed.

(** *** what the reader accepts re-encodes to what it consumed (bytes are < 256) *)

Definition bytes (l : list N) : Prop := Forall (fun b => b < 256) l.

Lemma le_decode_bound : forall h, bytes h -> le_decode h < 256 ^ N.of_nat (length h).
Proof.
  induction h as [|b h IH]; intro H; [cbn; lia|].
  inversion H as [|? ? Hb Hh]; subst. specialize (IH Hh). cbn [le_decode length].
  rewrite pow256_succ. nia.
Qed.

Lemma le_encode_decode : forall h, bytes h -> le_encode (length h) (le_decode h) = h.
Proof.
  induction h as [|b h IH]; intro H; [reflexivity|].
  inversion H as [|? ? Hb Hh]; subst. cbn [le_decode length le_encode].
  rewrite (N.mul_comm 256), N.mod_add, N.div_add, N.mod_small, N.div_small by lia.
  cbn [N.add]. rewrite IH by exact Hh. reflexivity.
Qed.

Lemma u64_z_roundtrip : forall u, u < 2 ^ 64 -> u64_of_z (z_of_u64 u) = u.
Proof.
  intros u Hu. unfold u64_of_z, z_of_u64, two63, two64.
  assert (Hz : (0 <= Z.of_N u < 2 ^ 64)%Z) by (change (2 ^ 64)%Z with (Z.of_N (2 ^ 64)); lia).
  destruct (Z.ltb_spec (Z.of_N u) (2 ^ 63))%Z.
  - rewrite Z.mod_small by lia. apply N2Z.id.
  - replace ((Z.of_N u - 2 ^ 64) mod 2 ^ 64)%Z with (Z.of_N u); [apply N2Z.id|].
    apply (Z.mod_unique_pos (Z.of_N u - 2 ^ 64) (2 ^ 64) (-1)); lia.
Qed.

Lemma bytes_app : forall a b, bytes (a ++ b) <-> bytes a /\ bytes b.
Proof. intros a b. unfold bytes. apply Forall_app. Qed.

Lemma decode_r_inv : forall bs m rest, bytes bs -> decode_r bs = DOk m rest ->
  wf m /\ bs = encode m ++ rest /\ bytes rest.
Proof.
  intros bs m rest Hb H. unfold decode_r, get in H.
  destruct (split_at 2 bs) as [[h1 b1]|] eqn:E1; [|discriminate].
  destruct (negb (le_decode h1 =? magic_version)) eqn:Emg; [discriminate|].
  destruct (split_at 4 b1) as [[h2 b2]|] eqn:E2; [|discriminate].
  destruct (split_at 4 b2) as [[h3 b3]|] eqn:E3; [|discriminate].
  destruct (split_at 8 b3) as [[h4 b4]|] eqn:E4; [|discriminate].
  destruct (split_at 8 b4) as [[h5 b5]|] eqn:E5; [|discriminate].
  destruct (split_at 4 b5) as [[h6 b6]|] eqn:E6; [|discriminate].
  destruct (split_at (le_decode h6) b6) as [[d r]|] eqn:E7; [|discriminate].
  inversion H; subst m rest; clear H.
  apply negb_false_iff, N.eqb_eq in Emg.
  apply split_at_length in E1, E2, E3, E4, E5, E6, E7.
  destruct E1 as [-> L1], E2 as [-> L2], E3 as [-> L3], E4 as [-> L4], E5 as [-> L5], E6 as [-> L6], E7 as [-> L7].
  repeat (apply bytes_app in Hb; let X := fresh "B" in destruct Hb as [X Hb]).
  assert (N1 : length h1 = 2%nat) by lia. assert (N2 : length h2 = 4%nat) by lia.
  assert (N3 : length h3 = 4%nat) by lia. assert (N4 : length h4 = 8%nat) by lia.
  assert (N5 : length h5 = 8%nat) by lia. assert (N6 : length h6 = 4%nat) by lia.
  pose proof (le_decode_bound h2 B0) as Q2. pose proof (le_decode_bound h3 B1) as Q3.
  pose proof (le_decode_bound h4 B2) as Q4. pose proof (le_decode_bound h5 B3) as Q5.
  pose proof (le_decode_bound h6 B4) as Q6.
  rewrite N2 in Q2. rewrite N3 in Q3. rewrite N4 in Q4. rewrite N5 in Q5. rewrite N6 in Q6.
  change (256 ^ N.of_nat 4) with (2 ^ 32) in *. change (256 ^ N.of_nat 8) with (2 ^ 64) in *.
  split; [|split].
  - unfold wf. cbn [mmagic mseq mtype moff msize mdata]. repeat split; try assumption;
      try (apply z_of_u64_range; assumption); try (apply (z_of_u64_range _ Q4)); try (apply (z_of_u64_range _ Q5)).
    rewrite L7. exact Q6.
  - unfold encode. cbn [mmagic mseq mtype moff msize mdata].
    rewrite !u64_z_roundtrip by assumption. rewrite L7.
    rewrite <- N1 at 1. rewrite <- N2 at 1. rewrite <- N3 at 1. rewrite <- N4 at 1. rewrite <- N5 at 1. rewrite <- N6 at 1.
    rewrite !le_encode_decode by assumption. rewrite <- !app_assoc. reflexivity.
  - exact Hb.
Qed.

Lemma is_prefix_app : forall a b, is_prefix a (a ++ b) = true.
Proof. induction a as [|x a IH]; intro b; cbn [is_prefix app]; [reflexivity|]. now rewrite N.eqb_refl, IH. Qed.

Lemma decode_many_inv : forall fuel bs ms e, bytes bs -> decode_many fuel bs = (ms, e) ->
  Forall wf ms /\ exists tail, bs = flat_map encode ms ++ tail /\ (e = EndClean -> tail = []).
Proof.
  induction fuel as [|f IH]; intros bs ms e Hb H.
  - destruct bs; cbn [decode_many] in H; inversion H; subst.
    + split; [constructor|]. exists []. split; [reflexivity | auto].
    + split; [constructor|]. eexists. split; [reflexivity | discriminate].
  - destruct bs as [|b t]; [cbn [decode_many] in H; inversion H; subst; split; [constructor|]; exists []; split; [reflexivity | auto]|].
    cbn [decode_many] in H. destruct (decode_r (b :: t)) as [m rest|g|] eqn:D.
    + destruct (decode_many f rest) as [ms' e'] eqn:R. inversion H; subst.
      destruct (decode_r_inv _ _ _ Hb D) as (W & Heq & Hr).
      destruct (IH _ _ _ Hr R) as (W' & tail & Ht & Hc).
      split; [constructor; assumption|]. exists tail. cbn [flat_map]. rewrite <- app_assoc, <- Ht. split; [exact Heq | exact Hc].
    + inversion H; subst. split; [constructor|]. eexists. split; [reflexivity | discriminate].
    + inversion H; subst. split; [constructor|]. eexists. split; [reflexivity | discriminate].
Qed.

Theorem read_oracle_model : forall input, bytes input ->
  rcase_same (mkr input (fst (decode_stream input)) (snd (decode_stream input))) = true /\
  c15_read_oracle (mkr input (fst (decode_stream input)) (snd (decode_stream input))) = true.
Proof.
  intros input Hb. destruct (decode_stream input) as [ms e] eqn:D. cbn [fst snd]. split.
  - unfold rcase_same. cbn [r_input r_msgs r_end]. rewrite D.
    assert (Hm : forall l, msgs_eqb l l = true) by (induction l as [|x l IHl]; cbn [msgs_eqb]; [reflexivity | now rewrite msg_eqb_refl, IHl]).
    rewrite Hm. destruct e; cbn [dend_eqb andb]; auto using N.eqb_refl.
  - unfold decode_stream in D. destruct (decode_many_inv _ _ _ _ Hb D) as (W & tail & Ht & Hc).
    unfold c15_read_oracle. cbn [r_input r_msgs r_end]. rewrite !andb_true_iff. split; [split|].
    + apply forallb_forall. intros m Hin. apply wfb_wf. rewrite Forall_forall in W. now apply W.
    + rewrite Ht. apply is_prefix_app.
    + destruct e; try reflexivity. rewrite (Hc eq_refl), app_nil_r in Ht. rewrite Ht. apply Nat.eqb_refl.
Qed.

(** ** non-vacuity and the need for the guard *)

Definition rqA : req := mkreq 1 KRead 4096 4 [].
Definition rqB : req := mkreq 2 KWrite 8192 0 [7; 8; 9].
Definition rqC : req := mkreq 3 KSync 0 0 [].
Definition rqD : req := mkreq 4 KPing 0 0 [].
Definition rqE : req := mkreq 5 KRead 0 2 [].

(** three concurrent calls answered in the reverse order, a duplicate and an unknown number in
    between: every call gets the payload of its own response *)
Example ex_reorder :
  dones (outs (exec seq_mod init
    [Req rqA; Req rqB; Req rqC;
     Resp 3 TypeResponse 0 []; Resp 3 TypeResponse 0 []; Resp 77 TypeResponse 5 [1];
     Resp 2 TypeResponse 3 []; Resp 1 TypeResponse 4 [10; 11; 12; 13]]))
  = [(3, mkres 0 ENone []); (2, mkres 3 ENone []); (1, mkres 4 ENone [10; 11; 12; 13])].
Proof. vm_compute. reflexivity. Qed.

(** the peer closes with two calls waiting; a later call is refused at once *)
Example ex_fail_all :
  outs (exec seq_mod init [Req rqA; Req rqC; Resp 1 TypeError 0 [69]; TransportErr CTransport; Req rqD; Resp 2 TypeResponse 0 []])
  = [Sent (req_msg 1 rqA); Sent (req_msg 2 rqC); Done 1 (mkres 0 (ERemote [69]) [0; 0; 0; 0]);
     Closed; Done 3 (mkres (-1) (ELocal CTransport) []); Done 4 (mkres 0 (ELocal CTransport) [])].
Proof. vm_compute. reflexivity. Qed.

Example ex_oracle_nonvacuous :
  let es := [Req rqA; Req rqB; Resp 2 TypeResponse 3 []; Timeout 1; TransportErr CRWTimeout; Req rqC] in
  trace_wf seq_mod es = true /\
  c15_oracle seq_mod es [(2, mkres 3 ENone []); (1, mkres 0 (ELocal CRWTimeout) [0;0;0;0]); (3, mkres (-1) (ELocal CRWTimeout) [])] 1 = true /\
  (* a mis-delivered payload is rejected *)
  c15_oracle seq_mod es [(2, mkres 4 ENone []); (1, mkres 0 (ELocal CRWTimeout) [0;0;0;0]); (3, mkres (-1) (ELocal CRWTimeout) [])] 1 = false /\
  (* a call that never returned after the failure is rejected *)
  c15_oracle seq_mod es [(2, mkres 3 ENone []); (3, mkres (-1) (ELocal CRWTimeout) [])] 1 = false /\
  (* a failure that was not reported is rejected *)
  c15_oracle seq_mod es [(2, mkres 3 ENone []); (1, mkres 0 (ELocal CRWTimeout) [0;0;0;0]); (3, mkres (-1) (ELocal CRWTimeout) [])] 0 = false.
Proof. vm_compute. repeat split; reflexivity. Qed.

(** Without the guard the statement is false: on a 2-bit counter (M = 4) call 1 stays outstanding
    while four more calls are issued; the fifth call gets the number of the first one and takes its
    place in c.messages.  The response the peer sends for the frame of call 1 is then delivered to
    call 5 (whose read buffer receives the data read for call 1), call 1 is no longer known to the
    loop, and a failure of the connection does not release it.  The same happens in the code after
    2^32 requests with one request outstanding. *)
Definition wrap_trace : list event :=
  [Req rqA; Req rqB; Resp 2 TypeResponse 3 []; Req rqC; Resp 3 TypeResponse 0 [];
   Req rqD; Resp 0 TypeResponse 0 []; Req rqE].

Theorem wrap_orphans_refuted :
  NoDup (req_ids wrap_trace) /\
  guard 4 init wrap_trace = false /\
  (* call 1 and call 5 were both sent with number 1 *)
  assigned_from 4 0 wrap_trace 1 = Some 1 /\ assigned_from 4 0 wrap_trace 5 = Some 1 /\
  (* call 1 is blocked but owns no entry any more *)
  (let s := run 4 init wrap_trace in
   In rqA (waiting s) /\ existsb (fun p => rid (snd p) =? 1) (pending s) = false) /\
  (* the response to call 1's frame completes call 5 *)
  dones (snd (step 4 (run 4 init wrap_trace) (Resp 1 TypeResponse 4 [10; 11; 12; 13]))) = [(5, mkres 4 ENone [10; 11])] /\
  (* and a failure leaves call 1 hanging *)
  dones (snd (step 4 (run 4 init wrap_trace) (TransportErr CTransport))) = [(5, mkres 0 (ELocal CTransport) [0; 0])].
Proof.
  split; [|vm_compute; repeat split; auto].
  apply nodupb_NoDup. vm_compute. reflexivity.
Qed.
