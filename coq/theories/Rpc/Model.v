(** * Rpc: executable model of the controller-replica data connection (property C15).

    Part 1: the wire codec of rpc/wire.go (Wire.Write / Wire.Read) over byte lists.
    Part 2: the client of rpc/client.go as a sequential state machine: the [loop] goroutine's view
            (handleRequest / handleResponse / replyError) plus the caller side of [operation]
            (the c.err test before the send, the select on Complete / timeout, SetError).

    Executable only; theorems are in Proofs.v.  Bytes are [N] (the codec never inspects payload
    bytes; header bytes produced by [le_encode] are < 256 by construction). *)
From Coq Require Import List ZArith NArith Bool Arith Lia.
Import ListNotations.
Open Scope N_scope.

(** ** little endian, as encoding/binary.LittleEndian does it *)

(** binary.Write(w, LittleEndian, v) for an unsigned v of [w] bytes: the value is truncated to the
    width (Go conversions such as uint32(len(msg.Data)) truncate the same way). *)
Fixpoint le_encode (w : nat) (n : N) : list N :=
  match w with
  | O => []
  | S w' => (n mod 256) :: le_encode w' (n / 256)
  end.

Fixpoint le_decode (bs : list N) : N :=
  match bs with
  | [] => 0
  | b :: t => b + 256 * le_decode t
  end.

(** int64 <-> its two's complement bit pattern (binary.Write of an int64 writes uint64(v)) *)
Definition two63 : Z := (2 ^ 63)%Z.
Definition two64 : Z := (2 ^ 64)%Z.
Definition u64_of_z (z : Z) : N := Z.to_N (z mod two64)%Z.
Definition z_of_u64 (u : N) : Z :=
  if (Z.of_N u <? two63)%Z then Z.of_N u else (Z.of_N u - two64)%Z.

(** ** frames: rpc/types.go Message (the fields that travel) *)
Record msg := mkmsg {
  mmagic : N;        (* MagicVersion uint16 *)
  mseq   : N;        (* Seq uint32 *)
  mtype  : N;        (* Type uint32 *)
  moff   : Z;        (* Offset int64 *)
  msize  : Z;        (* Size int64 *)
  mdata  : list N    (* Data []byte; nil and empty are the same list *)
}.

Definition magic_version : N := 6915.     (* 0x1b03 *)

(** rpc/types.go: TypeRead = iota ... *)
Definition TypeRead : N := 0.
Definition TypeWrite : N := 1.
Definition TypeResponse : N := 2.
Definition TypeError : N := 3.
Definition TypeEOF : N := 4.
Definition TypeClose : N := 5.
Definition TypePing : N := 6.
Definition TypeUpdate : N := 7.
Definition TypeSync : N := 8.
Definition TypeUnmap : N := 9.

(** Wire.Write: MagicVersion(2) Seq(4) Type(4) Offset(8) Size(8) uint32(len(Data))(4) Data *)
Definition encode (m : msg) : list N :=
  le_encode 2 (mmagic m) ++ le_encode 4 (mseq m) ++ le_encode 4 (mtype m)
  ++ le_encode 8 (u64_of_z (moff m)) ++ le_encode 8 (u64_of_z (msize m))
  ++ le_encode 4 (N.of_nat (length (mdata m))) ++ mdata m.

(** io.ReadFull of n bytes: None when the stream is shorter *)
Fixpoint split_at (n : N) (bs : list N) {struct bs} : option (list N * list N) :=
  if n =? 0 then Some ([], bs) else
  match bs with
  | [] => None
  | b :: t => match split_at (n - 1) t with
              | Some (h, r) => Some (b :: h, r)
              | None => None
              end
  end.

Lemma split_at_eq : forall n bs, split_at n bs =
  if n =? 0 then Some ([], bs) else
  match bs with
  | [] => None
  | b :: t => match split_at (n - 1) t with
              | Some (h, r) => Some (b :: h, r)
              | None => None
              end
  end.
Proof. intros n bs; destruct bs; reflexivity. Qed.

(** binary.Read of a w-byte unsigned field *)
Definition get (w : N) (bs : list N) : option (N * list N) :=
  match split_at w bs with
  | Some (h, r) => Some (le_decode h, r)
  | None => None
  end.

(** Result of one Wire.Read: a message and the unread rest of the stream; the "Wrong API version"
    error (the only content check Wire.Read makes); or an i/o error (EOF / unexpected EOF) because
    the stream ended inside the frame. *)
Inductive dres :=
| DOk (m : msg) (rest : list N)
| DBadMagic (got : N)
| DShort.

Definition decode_r (bs : list N) : dres :=
  match get 2 bs with None => DShort | Some (mg, b1) =>
  if negb (mg =? magic_version) then DBadMagic mg else
  match get 4 b1 with None => DShort | Some (sq, b2) =>
  match get 4 b2 with None => DShort | Some (ty, b3) =>
  match get 8 b3 with None => DShort | Some (off, b4) =>
  match get 8 b4 with None => DShort | Some (sz, b5) =>
  match get 4 b5 with None => DShort | Some (len, b6) =>
  match split_at len b6 with None => DShort | Some (d, rest) =>
    DOk (mkmsg mg sq ty (z_of_u64 off) (z_of_u64 sz) d) rest
  end end end end end end end.

Definition decode (bs : list N) : option (msg * list N) :=
  match decode_r bs with DOk m r => Some (m, r) | _ => None end.

(** repeated Wire.Read on one stream, as Client.read / Server.readWrite do: the messages read until
    the first error, and how it ended ([EndClean] = end of stream exactly at a frame boundary). *)
Inductive dend := EndClean | EndBadMagic (got : N) | EndShort.

Fixpoint decode_many (fuel : nat) (bs : list N) : list msg * dend :=
  match bs with
  | [] => ([], EndClean)
  | _ :: _ =>
    match fuel with
    | O => ([], EndShort)
    | S f =>
      match decode_r bs with
      | DOk m rest => let '(ms, e) := decode_many f rest in (m :: ms, e)
      | DBadMagic g => ([], EndBadMagic g)
      | DShort => ([], EndShort)
      end
    end
  end.

(** every frame has at least 30 bytes, so [length bs] is enough fuel *)
Definition decode_stream (bs : list N) : list msg * dend := decode_many (length bs) bs.

(** field ranges of a message as the Go types bound them *)
Definition wf (m : msg) : Prop :=
  mmagic m = magic_version /\ mseq m < 2 ^ 32 /\ mtype m < 2 ^ 32 /\
  (- two63 <= moff m < two63)%Z /\ (- two63 <= msize m < two63)%Z /\
  N.of_nat (length (mdata m)) < 2 ^ 32.

Definition wfb (m : msg) : bool :=
  (mmagic m =? magic_version) && (mseq m <? 2 ^ 32) && (mtype m <? 2 ^ 32)
  && (- two63 <=? moff m)%Z && (moff m <? two63)%Z && (- two63 <=? msize m)%Z && (msize m <? two63)%Z
  && (N.of_nat (length (mdata m)) <? 2 ^ 32).

(** ** the client *)

Inductive kind := KRead | KWrite | KSync | KPing | KUnmap.

Definition type_of_kind (k : kind) : N :=
  match k with KRead => TypeRead | KWrite => TypeWrite | KSync => TypeSync | KPing => TypePing | KUnmap => TypeUnmap end.

(** one call of ReadAt(buf, off) / WriteAt(buf, off) / Sync() / Ping() / Unmap(off, len) *)
Record req := mkreq {
  rid   : N;          (* identity of the call (the harness: goroutine number) *)
  rkind : kind;
  roff  : Z;
  rlen  : N;          (* read: len(buf); unmap: length *)
  rdata : list N      (* write: buf *)
}.

(** the Message built in [operation] from the arguments the exported methods pass *)
Definition req_off (r : req) : Z := match rkind r with KSync | KPing => 0%Z | _ => roff r end.
Definition req_size (r : req) : Z :=
  match rkind r with
  | KRead | KUnmap => Z.of_N (rlen r)
  | KWrite => Z.of_nat (length (rdata r))
  | KSync | KPing => 0%Z
  end.
Definition req_data (r : req) : list N := match rkind r with KWrite => rdata r | _ => [] end.
(** handleRequest: req.MagicVersion = MagicVersion; req.Seq = c.nextSeq() *)
Definition req_msg (sq : N) (r : req) : msg :=
  mkmsg magic_version sq (type_of_kind (rkind r)) (req_off r) (req_size r) (req_data r).

(** c.err: what the connection failed with *)
Inductive cerr := CTransport | CRWTimeout | CPingTimeout.

(** error returned to the caller: nil, io.EOF, errors.New(string(msg.Data)) for a TypeError sent by
    the peer, or the connection's error (c.err, also as text through replyError) *)
Inductive rerr := ENone | EEOF | ERemote (text : list N) | ELocal (c : cerr).

Record result := mkres {
  r_n   : Z;           (* the int returned (0 for Ping) *)
  r_err : rerr;
  r_buf : list N       (* read: buf after the call; otherwise [] *)
}.

(** the caller's buffer: the harness passes zero-filled buffers *)
Definition init_buf (r : req) : list N :=
  match rkind r with KRead => repeat 0 (N.to_nat (rlen r)) | _ => [] end.

(** Go's copy(dst, src) *)
Definition copy_into (dst src : list N) : list N :=
  firstn (length dst) src ++ skipn (length src) dst.

(** Sync / Unmap return (-1, err) or (0, nil); Ping returns only the error *)
Definition finish (k : kind) (r : result) : result :=
  match k with
  | KRead | KWrite => r
  | KSync | KUnmap => mkres (match r_err r with ENone => 0 | _ => -1 end)%Z (r_err r) (r_buf r)
  | KPing => mkres 0%Z (r_err r) (r_buf r)
  end.

(** [operation] after <-msg.Complete, the loop having stored Type/Size/Data of the response *)
Definition op_result (rq : req) (ty : N) (sz : Z) (d : list N) : result :=
  let buf0 := init_buf rq in
  let buf := match rkind rq with
             | KRead => if (ty =? TypeResponse) || (ty =? TypeEOF) then copy_into buf0 d else buf0
             | _ => buf0
             end in
  finish (rkind rq)
    (if ty =? TypeError then mkres 0%Z (ERemote d) buf
     else if ty =? TypeEOF then mkres sz EEOF buf
     else mkres sz ENone buf).

(** [operation] returning c.err / the timeout error / the TypeError produced by replyError *)
Definition local_result (rq : req) (c : cerr) : result :=
  finish (rkind rq) (mkres 0%Z (ELocal c) (init_buf rq)).

(** operation's timeout branch: err := ErrRWTimeout; if msg.Type == TypePing { err = ErrPingTimeout } *)
Definition timeout_err (k : kind) : cerr := match k with KPing => CPingTimeout | _ => CRWTimeout end.

Inductive event :=
| Req (r : req)                            (* a call enters operation and its message reaches the loop *)
| ReqRaced (r : req)                       (* a call that passed the c.err test before the failure but whose
                                              message reached c.requests after the loop had returned *)
| Resp (sq ty : N) (sz : Z) (d : list N)   (* Client.read delivered a frame to c.responses *)
| TransportErr (c : cerr)                  (* the loop takes a Message{transportErr} from c.responses
                                              (SetError by read(), write(), a timed out caller, monitorPing) *)
| Timeout (id : N).                        (* the timer of caller [id] fires first in operation's select *)

Inductive out :=
| Sent (m : msg)                 (* c.send <- req : the frame Client.write puts on the wire *)
| Done (id : N) (r : result)     (* the call of [id] returns *)
| Closed                         (* c.closeChan <- struct{}{} : the failure is reported (monitorPing -> monitorChan) *)
| Unknown (sq : N)               (* "IOSeq: %v not found" *)
| Void (id : N).                 (* Complete signalled for a caller that has already returned *)

Record st := mkst {
  seq     : N;                   (* c.seq *)
  pending : list (N * req);      (* c.messages, newest first, at most one entry per key *)
  failed  : option cerr;         (* c.err *)
  waiting : list req;            (* callers blocked in operation's select *)
  errq    : N                    (* SetError calls made by timed out callers *)
}.

Definition init : st := mkst 0 [] None [] 0.

Fixpoint lookup (sq : N) (p : list (N * req)) : option req :=
  match p with
  | [] => None
  | (k, r) :: p' => if k =? sq then Some r else lookup sq p'
  end.

Fixpoint remove_key (sq : N) (p : list (N * req)) : list (N * req) :=
  match p with
  | [] => []
  | (k, r) :: p' => if k =? sq then remove_key sq p' else (k, r) :: remove_key sq p'
  end.

Fixpoint find_wait (id : N) (w : list req) : option req :=
  match w with
  | [] => None
  | r :: w' => if rid r =? id then Some r else find_wait id w'
  end.

Fixpoint rm_wait (id : N) (w : list req) : list req :=
  match w with
  | [] => []
  | r :: w' => if rid r =? id then rm_wait id w' else r :: rm_wait id w'
  end.

(** req.Complete <- struct{}{} : the caller returns if it is still in its select *)
Definition deliver (w : list req) (rq : req) (r : result) : list req * list out :=
  match find_wait (rid rq) w with
  | Some _ => (rm_wait (rid rq) w, [Done (rid rq) r])
  | None => (w, [Void (rid rq)])
  end.

(** c.nextSeq: c.seq++ on a uint32; [M] is 2^32 (a parameter so that wrap-around can be exhibited
    on small instances) *)
Definition next_seq (M : N) (s : N) : N := (s + 1) mod M.

(** handleRequest *)
Definition handle_request (M : N) (s : st) (rq : req) : st * list out :=
  match failed s with
  | Some c =>
      (* c.replyError(req): delete(c.messages, req.Seq) with the unassigned Seq 0; TypeError; Complete *)
      let '(w, o) := deliver (waiting s) rq (local_result rq c) in
      (mkst (seq s) (remove_key 0 (pending s)) (failed s) w (errq s), o)
  | None =>
      let sq := next_seq M (seq s) in
      (* c.messages[req.Seq] = req overwrites an entry that still uses the key *)
      (mkst sq ((sq, rq) :: remove_key sq (pending s)) None (waiting s) (errq s), [Sent (req_msg sq rq)])
  end.

(** the "Terminate all in flight" loop: replyError for every entry of c.messages *)
Fixpoint reply_all (c : cerr) (p : list (N * req)) (w : list req) : list req * list out :=
  match p with
  | [] => (w, [])
  | (_, rq) :: p' =>
      let '(w1, o1) := deliver w rq (local_result rq c) in
      let '(w2, o2) := reply_all c p' w1 in
      (w2, o1 ++ o2)
  end.

(** handleResponse, resp.transportErr != nil *)
Definition handle_transport (s : st) (c : cerr) : st * list out :=
  let '(w, o) := reply_all c (pending s) (waiting s) in
  (mkst (seq s) [] (Some c) w (errq s), Closed :: o).

(** handleResponse, an ordinary frame *)
Definition handle_response (s : st) (sq ty : N) (sz : Z) (d : list N) : st * list out :=
  match lookup sq (pending s) with
  | Some rq =>
      match failed s with
      | Some c =>
          let '(w, o) := deliver (waiting s) rq (local_result rq c) in
          (mkst (seq s) (remove_key sq (pending s)) (failed s) w (errq s), o)
      | None =>
          let '(w, o) := deliver (waiting s) rq (op_result rq ty sz d) in
          (mkst (seq s) (remove_key sq (pending s)) None w (errq s), o)
      end
  | None => (s, [Unknown sq])
  end.

Definition add_waiting (s : st) (rq : req) : st :=
  mkst (seq s) (pending s) (failed s) (rq :: waiting s) (errq s).

(** One event.  After c.err is set the loop returns, so nothing is taken from c.requests or
    c.responses any more; callers then leave [operation] at its c.err test. *)
Definition step (M : N) (s : st) (e : event) : st * list out :=
  match e with
  | Req rq =>
      match failed s with
      | Some c => (s, [Done (rid rq) (local_result rq c)])       (* if c.err != nil { return 0, c.err } *)
      | None => handle_request M (add_waiting s rq) rq
      end
  | ReqRaced rq =>
      match failed s with
      | Some _ => (add_waiting s rq, [])                          (* the message stays in c.requests *)
      | None => handle_request M (add_waiting s rq) rq
      end
  | Resp sq ty sz d =>
      match failed s with
      | Some _ => (s, [])
      | None => handle_response s sq ty sz d
      end
  | TransportErr c =>
      match failed s with
      | Some _ => (s, [])
      | None => handle_transport s c
      end
  | Timeout id =>
      match find_wait id (waiting s) with
      | Some rq =>
          (* return 0, err after c.SetError(err) *)
          (mkst (seq s) (pending s) (failed s) (rm_wait id (waiting s)) (errq s + 1),
           [Done id (local_result rq (timeout_err (rkind rq)))])
      | None => (s, [])
      end
  end.

Definition seq_mod : N := 2 ^ 32.

(** the log of a run: every event with what it produced *)
Fixpoint exec (M : N) (s : st) (es : list event) : list (event * list out) :=
  match es with
  | [] => []
  | e :: es' => let '(s1, o) := step M s e in (e, o) :: exec M s1 es'
  end.

Fixpoint run (M : N) (s : st) (es : list event) : st :=
  match es with
  | [] => s
  | e :: es' => run M (fst (step M s e)) es'
  end.

Definition outs (l : list (event * list out)) : list out := flat_map snd l.

Fixpoint dones (os : list out) : list (N * result) :=
  match os with
  | [] => []
  | Done id r :: t => (id, r) :: dones t
  | _ :: t => dones t
  end.

(** the guard under which sequence numbers identify requests: whenever the loop assigns a number,
    no request that is still pending carries it.  (It holds in particular when fewer than 2^32
    requests are issued on the connection, see Proofs.guard_of_count.) *)
Definition is_req (e : event) : option req :=
  match e with Req r | ReqRaced r => Some r | _ => None end.

Fixpoint guard (M : N) (s : st) (es : list event) : bool :=
  match es with
  | [] => true
  | e :: es' =>
      (match is_req e, failed s with
       | Some _, None => match lookup (next_seq M (seq s)) (pending s) with None => true | Some _ => false end
       | _, _ => true
       end) && guard M (fst (step M s e)) es'
  end.

Definition req_ids (es : list event) : list N :=
  flat_map (fun e => match is_req e with Some r => [rid r] | None => [] end) es.

Fixpoint count_reqs (es : list event) : nat :=
  match es with
  | [] => O
  | e :: es' => (match is_req e with Some _ => 1 | None => 0 end + count_reqs es')%nat
  end.
