(** * Rpc: proofs about the server model (Server.v): request order and sequence numbers, the reply
    mapping of createResponse, the byte level, the oracle on the model's own output, and the
    composition with the client machine of Model.v / LoopProofs.v. *)
From Coq Require Import List ZArith NArith Bool Arith Lia.
From Jiva Require Import Rpc.Model Rpc.CodecProofs Rpc.LoopProofs Rpc.Corr Rpc.Proofs Rpc.Server.
Import ListNotations.
Open Scope N_scope.

(** ** message types *)

Lemma type_cases : forall ty,
  ty = TypeRead \/ ty = TypeWrite \/ (ty = TypePing \/ ty = TypeSync \/ ty = TypeUnmap) \/
  ((ty =? TypeRead) = false /\ (ty =? TypeWrite) = false /\
   ((ty =? TypePing) || (ty =? TypeSync) || (ty =? TypeUnmap)) = false /\ handled ty = false).
Proof.
  intro ty. unfold handled.
  destruct (ty =? TypeRead) eqn:E1; [apply N.eqb_eq in E1; now left|].
  destruct (ty =? TypeWrite) eqn:E2; [apply N.eqb_eq in E2; right; now left|].
  destruct (ty =? TypePing) eqn:E3; [apply N.eqb_eq in E3; right; right; left; now left|].
  destruct (ty =? TypeSync) eqn:E4; [apply N.eqb_eq in E4; right; right; left; right; now left|].
  destruct (ty =? TypeUnmap) eqn:E5; [apply N.eqb_eq in E5; right; right; left; right; now right|].
  right; right; right. repeat split; reflexivity.
Qed.

Lemma fill_length : forall n d, length (fill n d) = n.
Proof. intros n d. unfold fill. rewrite app_length, firstn_length, repeat_length. lia. Qed.

(** ** (a) the reply is the request's own message object: Seq, Offset, magic *)

Lemma create_response_seq : forall c m o r, create_response c m o = Some r ->
  mseq r = mseq m /\ moff r = moff m /\ mmagic r = magic_version.
Proof.
  intros c m o r H. unfold create_response in H.
  destruct o as [d|c' d|t].
  - inversion H; subst r. cbn. auto.
  - destruct (mtype m =? TypeWrite); [inversion H; subst r; cbn; auto|].
    destruct ((0 <=? c)%Z && (c <=? Z.of_nat (length (mdata m)))%Z); [|discriminate].
    inversion H; subst r. cbn. auto.
  - inversion H; subst r. cbn. auto.
Qed.

Theorem srv_step_seq : forall m o r, srv_step m o = Some r ->
  mseq r = mseq m /\ moff r = moff m /\ (mmagic m = magic_version -> mmagic r = magic_version).
Proof.
  intros m o r H. unfold srv_step in H.
  destruct (mtype m =? TypeRead).
  - destruct (msize m <? 0)%Z; [discriminate|].
    apply create_response_seq in H. cbn [set_data mseq moff] in H. tauto.
  - destruct (mtype m =? TypeWrite); [apply create_response_seq in H; tauto|].
    destruct ((mtype m =? TypePing) || (mtype m =? TypeSync) || (mtype m =? TypeUnmap));
      [apply create_response_seq in H; tauto|].
    inversion H; subst r. auto.
Qed.

(** the server stops without a reply exactly where the Go runtime panics *)
Lemma srv_step_panics : forall m o, srv_step m o = None <-> panics m o = true.
Proof.
  intros [mg sq ty off sz d] o. unfold srv_step, panics, create_response. cbn [mtype msize mdata set_data].
  destruct (type_cases ty) as [-> | [-> | [[-> | [-> | ->]] | (H1 & H2 & H3 & _)]]].
  - cbn [N.eqb TypeRead TypeWrite andb].
    destruct (sz <? 0)%Z eqn:Es; [cbn; tauto|]. cbn [orb].
    apply Z.ltb_ge in Es.
    destruct o as [d'|c d'|t]; try (split; discriminate).
    cbn [ocount odata]. rewrite fill_length, Z2Nat.id by exact Es.
    destruct ((0 <=? c)%Z && (c <=? sz)%Z); cbn; split; try discriminate; auto.
  - cbn. destruct o as [d'|c d'|t]; split; discriminate.
  - cbn. destruct o as [d'|c d'|t]; try (split; discriminate).
    change (Z.of_nat (length d)) with (Z.of_nat (length d)).
    destruct (0 <=? Z.of_nat (length d))%Z eqn:E; [split; discriminate|]. apply Z.leb_gt in E. lia.
  - cbn. destruct o as [d'|c d'|t]; try (split; discriminate).
    destruct (0 <=? Z.of_nat (length d))%Z eqn:E; [split; discriminate|]. apply Z.leb_gt in E. lia.
  - cbn. destruct o as [d'|c d'|t]; try (split; discriminate).
    destruct (0 <=? Z.of_nat (length d))%Z eqn:E; [split; discriminate|]. apply Z.leb_gt in E. lia.
  - rewrite H1, H2, H3. cbn. split; discriminate.
Qed.

(** ** (b) the mapping of createResponse, stated on the reply *)

Theorem srv_step_spec : forall m o r, srv_step m o = Some r ->
  mtype r = expect_type m o /\ mdata r = expect_data m o /\ size_ok m o r = true.
Proof.
  intros [mg sq ty off sz d] o r H. unfold srv_step, create_response in H.
  unfold expect_type, expect_data, size_ok. cbn [mtype msize mdata set_data] in *.
  destruct (type_cases ty) as [-> | [-> | [[-> | [-> | ->]] | (H1 & H2 & H3 & H4)]]].
  - cbn [N.eqb TypeRead TypeWrite handled orb negb] in *.
    destruct (sz <? 0)%Z eqn:Es; [discriminate|]. apply Z.ltb_ge in Es.
    destruct o as [d'|c d'|t].
    + inversion H; subst r. cbn. rewrite Z.eqb_refl. auto.
    + cbn [ocount odata] in H.
      destruct ((0 <=? c)%Z && (c <=? Z.of_nat (length (fill (Z.to_nat sz) d')))%Z); [|discriminate].
      inversion H; subst r. cbn. rewrite Z.eqb_refl. auto.
    + inversion H; subst r. cbn. rewrite Z.eqb_refl. auto.
  - cbn in *. destruct o as [d'|c d'|t]; inversion H; subst r; cbn; rewrite ?Z.eqb_refl; auto.
  - cbn in *. destruct o as [d'|c d'|t].
    + inversion H; subst r. cbn. rewrite Z.eqb_refl. auto.
    + destruct (0 <=? Z.of_nat (length d))%Z; [|discriminate]. inversion H; subst r. cbn. auto.
    + inversion H; subst r. cbn. rewrite Z.eqb_refl. auto.
  - cbn in *. destruct o as [d'|c d'|t].
    + inversion H; subst r. cbn. rewrite Z.eqb_refl. auto.
    + destruct (0 <=? Z.of_nat (length d))%Z; [|discriminate]. inversion H; subst r. cbn. auto.
    + inversion H; subst r. cbn. rewrite Z.eqb_refl. auto.
  - cbn in *. destruct o as [d'|c d'|t].
    + inversion H; subst r. cbn. rewrite Z.eqb_refl. auto.
    + destruct (0 <=? Z.of_nat (length d))%Z; [|discriminate]. inversion H; subst r. cbn. auto.
    + inversion H; subst r. cbn. rewrite Z.eqb_refl. auto.
  - rewrite H1, H2, H3 in H. inversion H; subst r. rewrite H4. cbn. rewrite Z.eqb_refl. auto.
Qed.

(** the same, clause by clause *)

Theorem reply_type_mapping : forall m o r, handled (mtype m) = true -> srv_step m o = Some r ->
  mtype r = match o with OOk _ => TypeResponse | OEof _ _ => TypeEOF | OErr _ => TypeError end.
Proof.
  intros m o r Hh H. destruct (srv_step_spec m o r H) as [H1 _]. rewrite H1. unfold expect_type. now rewrite Hh.
Qed.

(** a frame whose type has no case in readWrite's switch is written back as it was read *)
Theorem unhandled_answered_unchanged : forall m o, handled (mtype m) = false -> srv_step m o = Some m.
Proof.
  intros m o H. unfold srv_step.
  destruct (type_cases (mtype m)) as [E | [E | [[E | [E | E]] | (H1 & H2 & H3 & _)]]];
    try (rewrite E in H; discriminate).
  now rewrite H1, H2, H3.
Qed.

(** Size = len(Data) for every reply except the acknowledgement of a write (and frames returned untouched) *)
Theorem size_is_payload_length : forall m o r, srv_step m o = Some r -> handled (mtype m) = true ->
  (mtype m = TypeWrite -> mtype r <> TypeResponse) -> msize r = Z.of_nat (length (mdata r)).
Proof.
  intros m o r H Hh Hw. destruct (srv_step_spec m o r H) as (T & _ & S).
  unfold size_ok in S. rewrite Hh in S. cbn [negb] in S.
  destruct o as [d|c d|t]; try (apply Z.eqb_eq; exact S).
  destruct (mtype m =? TypeWrite) eqn:E; [|apply Z.eqb_eq; exact S].
  apply N.eqb_eq in E. exfalso. apply (Hw E). rewrite T. unfold expect_type. now rewrite Hh.
Qed.

(** an acknowledged write: no payload travels back, Size reports the bytes written *)
Theorem write_ack : forall m d r, mtype m = TypeWrite -> srv_step m (OOk d) = Some r ->
  mtype r = TypeResponse /\ mdata r = [] /\ msize r = Z.of_nat (length (mdata m)).
Proof.
  intros m d r Hty H. destruct (srv_step_spec m _ r H) as (T & D & S).
  unfold expect_type, expect_data, size_ok in *. rewrite Hty in *. cbn in T, D, S.
  apply Z.eqb_eq in S. auto.
Qed.

(** a read that succeeded: the whole buffer of the requested size as the processor left it *)
Theorem read_reply : forall m d r, mtype m = TypeRead -> srv_step m (OOk d) = Some r ->
  mtype r = TypeResponse /\ mdata r = fill (Z.to_nat (msize m)) d /\ msize r = msize m.
Proof.
  intros m d r Hty H. destruct (srv_step_spec m _ r H) as (T & D & S).
  assert (P : panics m (OOk d) = false).
  { destruct (panics m (OOk d)) eqn:E; [|reflexivity]. apply srv_step_panics in E. congruence. }
  unfold expect_type, expect_data, size_ok, panics in *. rewrite Hty in *. cbn in T, D, S, P.
  rewrite orb_false_r in P. apply Z.ltb_ge in P.
  apply Z.eqb_eq in S. rewrite S, D, fill_length, Z2Nat.id by exact P. auto.
Qed.

(** a short read: the first [count] bytes of that buffer *)
Theorem eof_reply : forall m c d r, mtype m = TypeRead -> srv_step m (OEof c d) = Some r ->
  mtype r = TypeEOF /\ mdata r = firstn (Z.to_nat c) (fill (Z.to_nat (msize m)) d) /\ msize r = c /\
  (0 <= c <= msize m)%Z.
Proof.
  intros m c d r Hty H. destruct (srv_step_spec m _ r H) as (T & D & S).
  assert (P : panics m (OEof c d) = false).
  { destruct (panics m (OEof c d)) eqn:E; [|reflexivity]. apply srv_step_panics in E. congruence. }
  unfold expect_type, expect_data, size_ok, panics in *. rewrite Hty in *. cbn in T, D, S, P.
  apply orb_false_iff in P. destruct P as [P1 P2]. apply Z.ltb_ge in P1.
  apply negb_false_iff, andb_true_iff in P2. destruct P2 as [P2 P3]. apply Z.leb_le in P2, P3.
  apply Z.eqb_eq in S. rewrite S, D, firstn_length, fill_length.
  repeat split; auto. lia.
Qed.

(** a failed operation: the error text is the payload, for every handled type *)
Theorem error_reply : forall m t r, handled (mtype m) = true -> srv_step m (OErr t) = Some r ->
  mtype r = TypeError /\ mdata r = t /\ msize r = Z.of_nat (length t).
Proof.
  intros m t r Hh H. destruct (srv_step_spec m _ r H) as (T & D & S).
  unfold expect_type, expect_data, size_ok in *. rewrite Hh in *. cbn [negb] in *.
  apply Z.eqb_eq in S. rewrite S, D. auto.
Qed.

(** ** the serve loop: one reply per request, in request order, each carrying its request's Seq *)

Theorem serve_in_order : forall proc reqs k reps st, serve_from proc k reqs = (reps, st) ->
  (st = SEnd -> length reps = length reqs) /\ (length reps <= length reqs)%nat /\
  forall i r, nth_error reps i = Some r ->
    exists m, nth_error reqs i = Some m /\ srv_step m (proc (k + i)%nat m) = Some r /\
              mseq r = mseq m /\ moff r = moff m.
Proof.
  intros proc reqs. induction reqs as [|m rs IH]; intros k reps st H; rewrite serve_from_eq in H.
  - inversion H; subst. split; [reflexivity|]. split; [cbn; lia|]. intros [|i] r Hn; discriminate.
  - destruct (srv_step m (proc k m)) as [r0|] eqn:E.
    + destruct (serve_from proc (S k) rs) as [out e] eqn:R. inversion H; subst reps st.
      destruct (IH _ _ _ R) as (I1 & I2 & I3). split; [|split].
      * intro He. cbn [length]. now rewrite I1.
      * cbn [length]. lia.
      * intros [|i] r Hn; cbn [nth_error] in *.
        -- inversion Hn; subst r0. exists m. rewrite Nat.add_0_r.
           destruct (srv_step_seq _ _ _ E) as (S1 & S2 & _). auto.
        -- destruct (I3 i r Hn) as (m' & A & B & C). exists m'. replace (k + S i)%nat with (S k + i)%nat by lia. auto.
    + inversion H; subst. split; [discriminate|]. split; [cbn; lia|]. intros [|i] r Hn; discriminate.
Qed.

(** it stops early only at a request on which the runtime panics ... *)
Theorem serve_stops_at_panic : forall proc reqs k reps, serve_from proc k reqs = (reps, SPanic) ->
  exists m, nth_error reqs (length reps) = Some m /\ panics m (proc (k + length reps)%nat m) = true.
Proof.
  intros proc reqs. induction reqs as [|m rs IH]; intros k reps H; rewrite serve_from_eq in H.
  - inversion H.
  - destruct (srv_step m (proc k m)) as [r0|] eqn:E.
    + destruct (serve_from proc (S k) rs) as [out e] eqn:R. inversion H; subst reps e.
      destruct (IH _ _ R) as (m' & A & B). exists m'. cbn [length nth_error].
      replace (k + S (length out))%nat with (S k + length out)%nat by lia. auto.
    + inversion H; subst. exists m. cbn [length nth_error]. rewrite Nat.add_0_r. split; [reflexivity|].
      now apply srv_step_panics.
Qed.

(** ... and never when no request panics *)
Theorem serve_total : forall proc reqs k,
  (forall i m, nth_error reqs i = Some m -> panics m (proc (k + i)%nat m) = false) ->
  snd (serve_from proc k reqs) = SEnd /\ length (fst (serve_from proc k reqs)) = length reqs.
Proof.
  intros proc reqs k Hp. destruct (serve_from proc k reqs) as [reps st] eqn:R. cbn [fst snd].
  destruct st.
  - split; [reflexivity|]. now apply (serve_in_order _ _ _ _ _ R).
  - exfalso. destruct (serve_stops_at_panic _ _ _ _ R) as (m & A & B). rewrite (Hp _ _ A) in B. discriminate.
Qed.

(** the Seq values come back in request order, whatever they are (duplicates, wrapped counters) *)
Corollary serve_seqs : forall proc reqs k reps, serve_from proc k reqs = (reps, SEnd) ->
  map mseq reps = map mseq reqs.
Proof.
  intros proc reqs. induction reqs as [|m rs IH]; intros k reps H; rewrite serve_from_eq in H.
  - inversion H; reflexivity.
  - destruct (srv_step m (proc k m)) as [r0|] eqn:E; [|discriminate].
    destruct (serve_from proc (S k) rs) as [out e] eqn:R. inversion H; subst reps e.
    cbn [map]. rewrite (IH _ _ R). destruct (srv_step_seq _ _ _ E) as (S1 & _). now rewrite S1.
Qed.

(** ** (c) the byte level *)

(** requests as Wire.Read can deliver them, with read sizes the reply's 32-bit length field can carry;
    error texts likewise *)
Definition req_ok (m : msg) : Prop := wf m /\ (mtype m = TypeRead -> (msize m < 2 ^ 32)%Z).
Definition outcome_ok (o : outcome) : Prop :=
  match o with OErr t => N.of_nat (length t) < 2 ^ 32 | _ => True end.

Lemma len_bound : forall n : nat, N.of_nat n < 2 ^ 32 -> (- two63 <= Z.of_nat n < two63)%Z.
Proof.
  intros n H. unfold two63.
  assert (Z.of_N (N.of_nat n) < Z.of_N (2 ^ 32))%Z by (apply N2Z.inj_lt; exact H).
  rewrite nat_N_Z in H0. change (Z.of_N (2 ^ 32)) with (2 ^ 32)%Z in H0. lia.
Qed.

Lemma to_nat_bound : forall z, (0 <= z < 2 ^ 32)%Z -> N.of_nat (Z.to_nat z) < 2 ^ 32.
Proof.
  intros z H. rewrite Z_nat_N. change (2 ^ 32) with (Z.to_N (2 ^ 32)%Z). apply Z2N.inj_lt; lia.
Qed.

Lemma firstn_bound : forall (k n : nat) (l : list N), N.of_nat (length l) < 2 ^ 32 -> N.of_nat (length (firstn k l)) < 2 ^ 32.
Proof. intros k n l H. rewrite firstn_length. lia. Qed.

Lemma srv_step_wf : forall m o r, req_ok m -> outcome_ok o -> srv_step m o = Some r -> wf r.
Proof.
  intros m o r [W Hsz] Ho H.
  destruct (srv_step_seq _ _ _ H) as (S1 & S2 & S3).
  destruct (srv_step_spec _ _ _ H) as (T & D & S).
  assert (P : panics m o = false).
  { destruct (panics m o) eqn:E; [|reflexivity]. apply srv_step_panics in E. congruence. }
  destruct W as (Wmg & Wsq & Wty & Woff & Wsz & Wd).
  assert (Hd : N.of_nat (length (mdata r)) < 2 ^ 32).
  { rewrite D. unfold expect_data. destruct (handled (mtype m)); cbn [negb]; [|exact Wd].
    destruct o as [d|c d|t].
    - destruct (mtype m =? TypeRead) eqn:E.
      + apply N.eqb_eq in E. specialize (Hsz E). rewrite fill_length.
        unfold panics in P. rewrite E in P. cbn in P. rewrite orb_false_r in P. apply Z.ltb_ge in P.
        apply to_nat_bound; lia.
      + destruct (mtype m =? TypeWrite); [cbn; lia | exact Wd].
    - destruct (mtype m =? TypeRead) eqn:E; [|cbn; lia].
      apply N.eqb_eq in E. specialize (Hsz E). rewrite firstn_length, fill_length.
      unfold panics in P. rewrite E in P. cbn in P. apply orb_false_iff in P. destruct P as [P _]. apply Z.ltb_ge in P.
      assert (N.of_nat (Z.to_nat (msize m)) < 2 ^ 32) by (apply to_nat_bound; lia).
      lia.
    - exact Ho. }
  unfold wf. split; [now apply S3|]. split; [now rewrite S1|]. split; [|split; [now rewrite S2|split; [|exact Hd]]].
  - rewrite T. unfold expect_type. destruct (handled (mtype m)); [|exact Wty]. destruct o; reflexivity.
  - unfold size_ok in S. destruct (handled (mtype m)); cbn [negb] in S.
    + destruct o as [d|c d|t]; try (apply Z.eqb_eq in S; rewrite S; now apply len_bound).
      destruct (mtype m =? TypeWrite); apply Z.eqb_eq in S; rewrite S; now apply len_bound.
    + apply Z.eqb_eq in S. now rewrite S.
Qed.

Theorem serve_replies_wf : forall proc reqs k reps st, Forall req_ok reqs -> (forall i m, outcome_ok (proc i m)) ->
  serve_from proc k reqs = (reps, st) -> Forall wf reps.
Proof.
  intros proc reqs. induction reqs as [|m rs IH]; intros k reps st Hr Ho H; rewrite serve_from_eq in H.
  - inversion H; constructor.
  - inversion Hr as [|? ? Hm Hrs]; subst.
    destruct (srv_step m (proc k m)) as [r0|] eqn:E; [|inversion H; constructor].
    destruct (serve_from proc (S k) rs) as [out e] eqn:R. inversion H; subst reps st.
    constructor; [eapply srv_step_wf; eauto | eapply IH; eauto].
Qed.

(** what the server writes is read back by a Wire.Read loop as exactly the replies, in order *)
Theorem replies_roundtrip : forall proc reqs k reps st, Forall req_ok reqs -> (forall i m, outcome_ok (proc i m)) ->
  serve_from proc k reqs = (reps, st) -> decode_stream (flat_map encode reps) = (reps, EndClean).
Proof. intros proc reqs k reps st Hr Ho H. apply stream. eapply serve_replies_wf; eauto. Qed.

(** one Wire.Read consumes at least the two magic bytes *)
Lemma decode_r_shorter : forall bs m rest, decode_r bs = DOk m rest -> (length rest < length bs)%nat.
Proof.
  intros bs m rest H. unfold decode_r, get in H.
  destruct (split_at 2 bs) as [[h1 b1]|] eqn:E1; [|discriminate].
  destruct (negb (le_decode h1 =? magic_version)); [discriminate|].
  destruct (split_at 4 b1) as [[h2 b2]|] eqn:E2; [|discriminate].
  destruct (split_at 4 b2) as [[h3 b3]|] eqn:E3; [|discriminate].
  destruct (split_at 8 b3) as [[h4 b4]|] eqn:E4; [|discriminate].
  destruct (split_at 8 b4) as [[h5 b5]|] eqn:E5; [|discriminate].
  destruct (split_at 4 b5) as [[h6 b6]|] eqn:E6; [|discriminate].
  destruct (split_at (le_decode h6) b6) as [[d r]|] eqn:E7; [|discriminate].
  inversion H; subst m rest; clear H.
  apply split_at_length in E1, E2, E3, E4, E5, E6, E7.
  destruct E1 as [-> L1], E2 as [-> L2], E3 as [-> L3], E4 as [-> L4], E5 as [-> L5], E6 as [-> L6], E7 as [-> L7].
  rewrite !app_length. lia.
Qed.

(** the fuel of [decode_many] does not matter once it covers the stream *)
Lemma decode_many_fuel : forall f1 f2 bs, (length bs <= f1)%nat -> (length bs <= f2)%nat ->
  decode_many f1 bs = decode_many f2 bs.
Proof.
  induction f1 as [|f1 IH]; intros f2 bs H1 H2.
  - destruct bs; [destruct f2; reflexivity | cbn in H1; lia].
  - destruct bs as [|b t]; [destruct f2; reflexivity|].
    destruct f2 as [|f2]; [cbn in H2; lia|].
    cbn [decode_many]. destruct (decode_r (b :: t)) as [m rest| |] eqn:D; try reflexivity.
    apply decode_r_shorter in D. rewrite (IH f2 rest); [reflexivity | cbn [length] in *; lia | cbn [length] in *; lia].
Qed.

Lemma decode_stream_app : forall ms tail, Forall wf ms ->
  decode_stream (flat_map encode ms ++ tail) = (let '(ms', e) := decode_stream tail in (ms ++ ms', e)).
Proof.
  induction ms as [|m ms IH]; intros tail Hwf.
  - cbn [flat_map app]. destruct (decode_stream tail); reflexivity.
  - inversion Hwf as [|? ? Hm Hms]; subst. cbn [flat_map]. rewrite <- app_assoc.
    unfold decode_stream at 1.
    remember (flat_map encode ms ++ tail) as rest eqn:Er.
    destruct (encode m ++ rest) as [|b t] eqn:E.
    + apply (f_equal (@length N)) in E. rewrite app_length, encode_length in E. cbn in E. lia.
    + rewrite <- E.
      assert (Hl : length (encode m ++ rest) = S (29 + length (mdata m) + length rest)).
      { rewrite app_length, encode_length. lia. }
      rewrite Hl.
      replace (decode_many (S (29 + length (mdata m) + length rest)) (encode m ++ rest))
        with (match decode_r (encode m ++ rest) with
              | DOk m0 r0 => let '(ms0, e) := decode_many (29 + length (mdata m) + length rest) r0 in (m0 :: ms0, e)
              | DBadMagic g => ([], EndBadMagic g)
              | DShort => ([], EndShort)
              end) by (rewrite E; reflexivity).
      rewrite roundtrip_r by exact Hm.
      rewrite (decode_many_fuel _ (length rest) rest) by lia.
      fold (decode_stream rest). rewrite Er, (IH tail Hms).
      destruct (decode_stream tail); reflexivity.
Qed.

(** a tail that is not a frame: nothing more is decoded from it *)
Lemma decode_stream_nonframe : forall tail, (forall m r, decode_r tail <> DOk m r) -> fst (decode_stream tail) = [].
Proof.
  intros tail H. unfold decode_stream. destruct tail as [|b t]; [reflexivity|].
  cbn [length decode_many]. pose proof (H) as H'. destruct (decode_r (b :: t)) as [m r| |]; try reflexivity.
  exfalso. exact (H' m r eq_refl).
Qed.

(** A request stream that ends in something that is not a frame: the server answers exactly the complete
    frames before it, and stops reading with the decoder's verdict on the tail *)
Theorem serve_stream_complete_frames : forall reqs tail script, Forall wf reqs ->
  (forall m r, decode_r tail <> DOk m r) ->
  serve_stream (flat_map encode reqs ++ tail) script =
  (flat_map encode (fst (serve reqs script)), snd (decode_stream tail), snd (serve reqs script)).
Proof.
  intros reqs tail script Hwf Ht. unfold serve_stream. rewrite (decode_stream_app reqs tail Hwf).
  pose proof (decode_stream_nonframe tail Ht) as Hn.
  destruct (decode_stream tail) as [ms' e]. cbn [fst snd] in *. subst ms'. rewrite app_nil_r.
  destruct (serve reqs script) as [reps st]. reflexivity.
Qed.

(** instances of such a tail: nothing, a frame cut anywhere, a frame with a wrong magic number *)
Lemma tail_empty : forall m r, decode_r [] <> DOk m r.
Proof. intros m r. discriminate. Qed.

Lemma tail_truncated : forall m0 k, wf m0 -> (k < length (encode m0))%nat ->
  forall m r, decode_r (firstn k (encode m0)) <> DOk m r.
Proof.
  intros m0 k W Hk m r D. pose proof (truncated_rejected m0 k W Hk) as T. unfold decode in T. rewrite D in T. discriminate.
Qed.

Lemma tail_bad_magic : forall m0 rest, mmagic m0 < 2 ^ 16 -> mmagic m0 <> magic_version ->
  forall m r, decode_r (encode m0 ++ rest) <> DOk m r.
Proof.
  intros m0 rest H1 H2 m r D. destruct (bad_magic_frame m0 rest H1 H2) as [B _]. rewrite D in B. discriminate.
Qed.

Theorem serve_stream_truncated : forall reqs m0 k script, Forall wf reqs -> wf m0 -> (k < length (encode m0))%nat ->
  fst (fst (serve_stream (flat_map encode reqs ++ firstn k (encode m0)) script)) = flat_map encode (fst (serve reqs script)).
Proof.
  intros reqs m0 k script H W Hk.
  rewrite (serve_stream_complete_frames reqs _ script H (tail_truncated m0 k W Hk)). reflexivity.
Qed.

Theorem serve_stream_bad_magic : forall reqs m0 rest script, Forall wf reqs -> mmagic m0 < 2 ^ 16 -> mmagic m0 <> magic_version ->
  fst (fst (serve_stream (flat_map encode reqs ++ encode m0 ++ rest) script)) = flat_map encode (fst (serve reqs script)).
Proof.
  intros reqs m0 rest script H H1 H2.
  rewrite (serve_stream_complete_frames reqs _ script H (tail_bad_magic m0 rest H1 H2)). reflexivity.
Qed.

(** both directions together: request bytes in, reply bytes out, replies read back by a Wire.Read loop *)
Theorem serve_stream_roundtrip : forall reqs tail script, Forall req_ok reqs -> Forall outcome_ok script ->
  (forall m r, decode_r tail <> DOk m r) ->
  decode_stream (fst (fst (serve_stream (flat_map encode reqs ++ tail) script))) = (fst (serve reqs script), EndClean).
Proof.
  intros reqs tail script Hr Hs Ht.
  assert (Hwf : Forall wf reqs) by (eapply Forall_impl; [|exact Hr]; intros a [W _]; exact W).
  rewrite (serve_stream_complete_frames reqs tail script Hwf Ht). cbn [fst].
  destruct (serve reqs script) as [reps st] eqn:R. cbn [fst]. unfold serve in R.
  eapply replies_roundtrip; [exact Hr | | exact R].
  intros i m. unfold script_proc. destruct (nth_in_or_default i script dflt) as [Hin | Heq]; [|rewrite Heq; exact I].
  rewrite Forall_forall in Hs. now apply Hs.
Qed.

(** ** the server oracle holds on the model's own output *)

Lemma reply_bad_model : forall m o r, mmagic m = magic_version -> srv_step m o = Some r -> reply_bad m o r = 0%nat.
Proof.
  intros m o r Hm H. destruct (srv_step_seq _ _ _ H) as (S1 & _ & S3). destruct (srv_step_spec _ _ _ H) as (T & D & S).
  unfold reply_bad. rewrite S, S1, (S3 Hm), T, D, !N.eqb_refl, listN_eqb_refl. reflexivity.
Qed.

Lemma server_ok_from_model : forall script reqs k, Forall (fun m => mmagic m = magic_version) reqs ->
  server_ok_from k reqs script (fst (serve_from (script_proc script) k reqs)) = true.
Proof.
  intros script reqs. induction reqs as [|m rs IH]; intros k Hm; rewrite serve_from_eq; [reflexivity|].
  inversion Hm as [|? ? Hm1 Hm2]; subst. unfold script_proc at 1.
  destruct (srv_step m (nth k script dflt)) as [r|] eqn:E.
  - destruct (serve_from (script_proc script) (S k) rs) as [out e] eqn:R. cbn [fst server_ok_from].
    assert (P : panics m (nth k script dflt) = false).
    { destruct (panics m (nth k script dflt)) eqn:Ep; [|reflexivity]. apply srv_step_panics in Ep. congruence. }
    rewrite P, (reply_bad_model _ _ _ Hm1 E). cbn [negb Nat.eqb andb].
    specialize (IH (S k) Hm2). rewrite R in IH. exact IH.
  - cbn [fst server_ok_from]. now apply srv_step_panics.
Qed.

(** every request list that Wire.Read can deliver, every script *)
Theorem c15_server_ok_model : forall reqs script, Forall (fun m => mmagic m = magic_version) reqs ->
  c15_server_ok reqs script (fst (serve reqs script)) = true.
Proof. intros reqs script H. unfold c15_server_ok, serve. now apply server_ok_from_model. Qed.

Lemma msgs_eqb_refl : forall l, msgs_eqb l l = true.
Proof. induction l as [|x l IH]; cbn [msgs_eqb]; [reflexivity | now rewrite msg_eqb_refl, IH]. Qed.

(** on bytes: the model neither differs from itself nor fails the oracle, for every input *)
Theorem server_case_model : forall input script, bytes input ->
  let reqs := fst (decode_stream input) in
  let c := mksv input reqs script (fst (serve reqs script)) in
  server_diff c = 0%nat /\ sv_oracle (check_scase c) = true.
Proof.
  intros input script Hb reqs c. subst c. unfold check_scase, server_diff. cbn [s_input s_reqs s_script s_replies sv_oracle].
  subst reqs. destruct (decode_stream input) as [ms e] eqn:D. cbn [fst].
  rewrite !msgs_eqb_refl. cbn [negb]. split; [reflexivity|].
  apply c15_server_ok_model. unfold decode_stream in D.
  destruct (decode_many_inv _ _ _ _ Hb D) as (W & _).
  eapply Forall_impl; [|exact W]. intros a (Hmg & _). exact Hmg.
Qed.

(** non-vacuity: the oracle rejects replies that go to the wrong request, keep a stale Size, are not
    truncated, carry the written data back, or are missing *)
Definition exR : msg := mkmsg magic_version 7 TypeRead 4096 4 [].
Definition exW : msg := mkmsg magic_version 7 TypeWrite 8192 99 [5; 6; 7].
Definition exP : msg := mkmsg magic_version (2 ^ 32 - 1) TypePing 0 0 [].
Definition exU : msg := mkmsg magic_version 0 TypeUpdate 3 4 [9].

Example ex_serve :
  serve [exR; exW; exP; exU; exR; exW] [OOk [1; 2; 3; 4]; OOk []; OErr [69]; OOk []; OEof 2 [8; 9]; OEof 1 []] =
  ([mkmsg magic_version 7 TypeResponse 4096 4 [1; 2; 3; 4];
    mkmsg magic_version 7 TypeResponse 8192 3 [];
    mkmsg magic_version (2 ^ 32 - 1) TypeError 0 1 [69];
    exU;
    mkmsg magic_version 7 TypeEOF 4096 2 [8; 9];
    mkmsg magic_version 7 TypeEOF 8192 0 []], SEnd).
Proof. vm_compute. reflexivity. Qed.

Example ex_server_oracle :
  let reqs := [exR; exW; exP] in
  let script := [OEof 2 [8; 9; 10; 11]; OOk []; OErr [69; 70]] in
  c15_server_ok reqs script (fst (serve reqs script)) = true /\
  (* Seq of another request *)
  c15_server_ok reqs script [mkmsg magic_version 7 TypeEOF 4096 2 [8; 9]; mkmsg magic_version 7 TypeResponse 8192 3 [];
                             mkmsg magic_version 7 TypeError 0 2 [69; 70]] = false /\
  (* Size not updated on error *)
  c15_server_ok reqs script [mkmsg magic_version 7 TypeEOF 4096 2 [8; 9]; mkmsg magic_version 7 TypeResponse 8192 3 [];
                             mkmsg magic_version (2 ^ 32 - 1) TypeError 0 0 [69; 70]] = false /\
  (* EOF reply not truncated to count *)
  c15_server_ok reqs script [mkmsg magic_version 7 TypeEOF 4096 4 [8; 9; 10; 11]; mkmsg magic_version 7 TypeResponse 8192 3 [];
                             mkmsg magic_version (2 ^ 32 - 1) TypeError 0 2 [69; 70]] = false /\
  (* the written data travels back *)
  c15_server_ok reqs script [mkmsg magic_version 7 TypeEOF 4096 2 [8; 9]; mkmsg magic_version 7 TypeResponse 8192 3 [5; 6; 7];
                             mkmsg magic_version (2 ^ 32 - 1) TypeError 0 2 [69; 70]] = false /\
  (* a reply is missing / one too many *)
  c15_server_ok reqs script [mkmsg magic_version 7 TypeEOF 4096 2 [8; 9]; mkmsg magic_version 7 TypeResponse 8192 3 []] = false /\
  c15_server_ok [exP] [OOk []] [mkmsg magic_version (2 ^ 32 - 1) TypeResponse 0 0 []; mkmsg magic_version (2 ^ 32 - 1) TypeResponse 0 0 []] = false.
Proof. vm_compute. repeat split; reflexivity. Qed.

(** the runtime panics of the code as it is (not driven by the harness: the process dies) *)
Example ex_panics :
  serve [exP; mkmsg magic_version 2 TypeRead 0 (-1) []; exP] [] = ([mkmsg magic_version (2 ^ 32 - 1) TypeResponse 0 0 []], SPanic) /\
  serve [exR] [OEof 5 []] = ([], SPanic).
Proof. vm_compute. split; reflexivity. Qed.

(** ** (d) the client of LoopProofs.v served by this server

    Schedules ([list nev]) interleave, in any order and any number: new calls (any number outstanding),
    the server handling the oldest request it has not read yet, the client's reader delivering the oldest
    reply it has not delivered yet, timers of waiting callers, a transport error.  Each direction of the
    connection is a FIFO of whole frames (the byte level is (c)); the server is the sequential loop above,
    so replies are produced in arrival order, possibly long after later requests were sent (batches). *)

Definition fr (p : N * req) : msg := req_msg (fst p) (snd p).

Fixpoint replies_from (proc : nat -> msg -> outcome) (k : nat) (ms : list msg) : list (option msg) :=
  match ms with
  | [] => []
  | m :: t => srv_step m (proc k m) :: replies_from proc (S k) t
  end.

Lemma replies_from_app : forall proc a k b,
  replies_from proc k (a ++ b) = replies_from proc k a ++ replies_from proc (k + length a) b.
Proof.
  intros proc a. induction a as [|x a IH]; intros k b; cbn [app replies_from length].
  - now rewrite Nat.add_0_r.
  - rewrite IH. replace (S k + length a)%nat with (k + S (length a))%nat by lia. reflexivity.
Qed.

(** what ties the connection to the client's log [l]: the frames sent so far are, in order, those whose
    reply was delivered ([dl]), those answered but not delivered ([rp]), those not yet read by the server
    ([qu]); and while the connection has not failed the client's pending map is exactly the undelivered ones *)
Definition ninv (proc : nat -> msg -> outcome) (l : log) (n : net) : Prop :=
  exists dl rp qu : list (N * req),
    sent_pairs l = dl ++ rp ++ qu /\
    n_up n = map fr qu /\
    map Some (n_down n) = replies_from proc (length dl) (map fr rp) /\
    n_served n = (length dl + length rp)%nat /\
    uniq_inv (n_cli n) /\
    (failed (n_cli n) = None -> pending (n_cli n) = rev (rp ++ qu)).

(** a call that returns something else than the connection's error returns what [operation] makes of the
    reply the server computed for the k-th frame of the connection, and that frame is this call's own *)
Definition e2e_entry (proc : nat -> msg -> outcome) (pre : log) (x : event * list out) : Prop :=
  forall id r, In (Done id r) (snd x) -> is_local r = false ->
  exists k sq rq rep,
    rid rq = id /\ nth_error (sent_pairs pre) k = Some (sq, rq) /\
    srv_step (req_msg sq rq) (proc k (req_msg sq rq)) = Some rep /\
    fst x = Resp sq (mtype rep) (msize rep) (mdata rep) /\
    r = op_result rq (mtype rep) (msize rep) (mdata rep).

Definition all_e2e (proc : nat -> msg -> outcome) (l : log) : Prop :=
  forall pre x post, l = pre ++ x :: post -> e2e_entry proc pre x.

Lemma all_e2e_snoc : forall proc l x, all_e2e proc l -> e2e_entry proc l x -> all_e2e proc (l ++ [x]).
Proof.
  intros proc l x Hl Hx pre y post Heq.
  destruct post as [|z post'] using rev_ind.
  - apply app_inj_tail in Heq. destruct Heq as [Hp Hy]. subst. exact Hx.
  - clear IHpost'. rewrite app_comm_cons, app_assoc in Heq. apply app_inj_tail in Heq. destruct Heq as [Heq _].
    eapply Hl. exact Heq.
Qed.

(** *** frames in the outputs of a step *)

Lemma sents_app : forall a b, sents (a ++ b) = sents a ++ sents b.
Proof. induction a as [|x a IH]; intro b; [reflexivity|]. destruct x; cbn [app sents]; rewrite IH; reflexivity. Qed.

Lemma sents_deliver : forall w rq r w' o, deliver w rq r = (w', o) -> sents o = [].
Proof.
  intros w rq r w' o H. apply deliver_cases in H. destruct H as [(_ & _ & Ho) | (_ & _ & Ho)]; subst o; reflexivity.
Qed.

Lemma sents_reply_all : forall c p w w2 o, reply_all c p w = (w2, o) -> sents o = [].
Proof.
  induction p as [|[sq rq] p IH]; intros w w2 o H; cbn [reply_all] in H.
  - inversion H; reflexivity.
  - destruct (deliver w rq (local_result rq c)) as [w1 o1] eqn:E1.
    destruct (reply_all c p w1) as [w2' o2] eqn:E2. inversion H; subst.
    rewrite sents_app, (sents_deliver _ _ _ _ _ E1), (IH _ _ _ E2). reflexivity.
Qed.

Lemma sent_pairs_snoc : forall l x, sent_pairs (l ++ [x]) =
  sent_pairs l ++ match is_req (fst x) with
                  | Some rq => map (fun m => (mseq m, rq)) (sents (snd x))
                  | None => []
                  end.
Proof. intros l x. unfold sent_pairs. rewrite flat_map_app. cbn [flat_map]. now rewrite app_nil_r. Qed.

Lemma sent_pairs_snoc_nosent : forall l e o, sents o = [] -> sent_pairs (l ++ [(e, o)]) = sent_pairs l.
Proof.
  intros l e o H. rewrite sent_pairs_snoc. cbn [fst snd]. rewrite H. destruct (is_req e); cbn [map]; apply app_nil_r.
Qed.

(** only a response frame completes a call with something else than the connection's error *)
Lemma step_nonresp_local : forall M s e s1 o, step M s e = (s1, o) ->
  (forall sq ty sz d, e <> Resp sq ty sz d) ->
  forall id r, In (Done id r) o -> is_local r = true.
Proof.
  intros M s e s1 o H Hn id r Hin.
  destruct e as [rq|rq|sq ty sz d|c|id0]; cbn [step] in H.
  - destruct (failed s) as [c|] eqn:F.
    + inversion H; subst. destruct Hin as [Hin|[]]. inversion Hin; subst. apply local_result_local.
    + rewrite accept_step in H by exact F. inversion H; subst. destruct Hin as [Hin|[]]. discriminate.
  - destruct (failed s) as [c|] eqn:F.
    + inversion H; subst. destruct Hin.
    + rewrite accept_step in H by exact F. inversion H; subst. destruct Hin as [Hin|[]]. discriminate.
  - exfalso. exact (Hn sq ty sz d eq_refl).
  - destruct (failed s) as [c'|] eqn:F.
    + inversion H; subst. destruct Hin.
    + unfold handle_transport in H. destruct (reply_all c (pending s) (waiting s)) as [w o'] eqn:E. inversion H; subst.
      destruct Hin as [Hin|Hin]; [discriminate|].
      unfold is_local. now rewrite (reply_all_local _ _ _ _ _ E id r Hin).
  - destruct (find_wait id0 (waiting s)) as [rq|].
    + inversion H; subst. destruct Hin as [Hin|[]]. inversion Hin; subst. apply local_result_local.
    + inversion H; subst. destruct Hin.
Qed.

(** *** the pending map as a list *)

Lemma lookup_unique : forall (p : list (N * req)) k v, NoDup (map fst p) -> In (k, v) p -> lookup k p = Some v.
Proof.
  induction p as [|[k0 v0] p IH]; intros k v Hnd Hin; [destruct Hin|].
  cbn [map fst] in Hnd. inversion Hnd as [|? ? Hk Hp]; subst. cbn [lookup].
  destruct Hin as [Hin|Hin].
  - inversion Hin; subst. now rewrite N.eqb_refl.
  - destruct (k0 =? k) eqn:E; [|now apply IH].
    apply N.eqb_eq in E. subst. exfalso. apply Hk. apply in_map_iff. exists (k, v). split; [reflexivity | exact Hin].
Qed.

Lemma remove_key_app : forall k (a b : list (N * req)), remove_key k (a ++ b) = remove_key k a ++ remove_key k b.
Proof.
  intros k a. induction a as [|[k0 v0] a IH]; intro b; [reflexivity|].
  cbn [app remove_key]. destruct (k0 =? k); rewrite IH; reflexivity.
Qed.

Lemma remove_key_last : forall (l : list (N * req)) k v, NoDup (map fst (l ++ [(k, v)])) -> remove_key k (l ++ [(k, v)]) = l.
Proof.
  intros l k v Hnd. rewrite remove_key_app. cbn [remove_key]. rewrite N.eqb_refl, app_nil_r.
  apply remove_key_absent. apply lookup_none. rewrite map_app in Hnd. cbn [map fst] in Hnd.
  intro Hin. apply NoDup_remove_2 in Hnd. apply Hnd. rewrite app_nil_r. exact Hin.
Qed.

(** *** one move of the schedule *)

Ltac split6 := split; [|split; [|split; [|split; [|split]]]].

Lemma ninv_keep : forall proc M l n ce s1 o down,
  ninv proc l n -> step M (n_cli n) ce = (s1, o) -> guard1 M (n_cli n) ce = true ->
  sents o = [] -> down = n_down n ->
  (failed s1 = None -> pending s1 = pending (n_cli n) /\ failed (n_cli n) = None) ->
  ninv proc (l ++ [(ce, o)]) (mknet s1 (n_up n ++ sents o) down (n_served n) (n_dead n)).
Proof.
  intros proc M l n ce s1 o down (dl & rp & qu & I1 & I2 & I3 & I4 & I5 & I6) Hs Hg Hso Hd Hp.
  exists dl, rp, qu. cbn [n_cli n_up n_down n_served]. rewrite (sent_pairs_snoc_nosent l ce o Hso), Hso, app_nil_r. subst down.
  split6; try assumption.
  - pose proof (step_uniq M (n_cli n) ce I5 Hg) as U. now rewrite Hs in U.
  - intro F. destruct (Hp F) as [P1 P2]. rewrite P1. now apply I6.
Qed.

Lemma nstep_ok : forall proc M l n e, ninv proc l n ->
  match cli_ev n e with
  | None => ninv proc l (nstep proc M n e) /\ n_cli (nstep proc M n e) = n_cli n
  | Some ce => forall s1 o, step M (n_cli n) ce = (s1, o) -> guard1 M (n_cli n) ce = true ->
      e2e_entry proc l (ce, o) /\ ninv proc (l ++ [(ce, o)]) (nstep proc M n e) /\ n_cli (nstep proc M n e) = s1
  end.
Proof.
  intros proc M l n e Hinv.
  (* a client move that is not a response: nothing but the connection's error can be returned *)
  assert (Hloc : forall ce s1 o, step M (n_cli n) ce = (s1, o) -> (forall sq ty sz d, ce <> Resp sq ty sz d) ->
                   e2e_entry proc l (ce, o)).
  { intros ce s1 o Hs Hn id r Hin Hl. cbn [snd] in Hin.
    rewrite (step_nonresp_local _ _ _ _ _ Hs Hn id r Hin) in Hl. discriminate. }
  (* accepting a request: its frame joins the queue to the server *)
  assert (Hacc : forall ce rq s1 o, is_req ce = Some rq -> failed (n_cli n) = None ->
                   step M (n_cli n) ce = handle_request M (add_waiting (n_cli n) rq) rq ->
                   step M (n_cli n) ce = (s1, o) -> guard1 M (n_cli n) ce = true ->
                   ninv proc (l ++ [(ce, o)]) (mknet s1 (n_up n ++ sents o) (n_down n) (n_served n) (n_dead n))).
  { intros ce rq s1 o Hr F Hh Hs Hg.
    destruct Hinv as (dl & rp & qu & I1 & I2 & I3 & I4 & I5 & I6).
    pose proof (step_uniq M (n_cli n) ce I5 Hg) as U1.
    rewrite Hs in U1. cbn [fst] in U1.
    rewrite Hh, accept_step in Hs by exact F. inversion Hs; subst s1 o. clear Hs.
    unfold guard1 in Hg. rewrite Hr, F in Hg.
    destruct (lookup (next_seq M (seq (n_cli n))) (pending (n_cli n))) eqn:L; [discriminate|].
    set (sq := next_seq M (seq (n_cli n))) in *.
    exists dl, rp, (qu ++ [(sq, rq)]). cbn [n_cli n_up n_down n_served sents].
    rewrite sent_pairs_snoc. cbn [fst snd sents]. rewrite Hr. cbn [map mseq req_msg].
    split6.
    - rewrite I1, <- !app_assoc. reflexivity.
    - rewrite I2, map_app. reflexivity.
    - exact I3.
    - exact I4.
    - exact U1.
    - intros _. cbn [pending]. rewrite (remove_key_absent _ _ L), (I6 F).
      rewrite app_assoc, rev_unit. reflexivity. }
  destruct e as [rq|rq| | |c|id0]; cbn [cli_ev].
  - (* NCall *)
    intros s1 o Hs Hg. cbn [nstep cli_ev]. rewrite Hs. split; [|split; [|reflexivity]].
    + apply (Hloc _ _ _ Hs). intros; discriminate.
    + destruct (failed (n_cli n)) as [c|] eqn:F.
      * apply (ninv_keep proc M l n (Req rq) s1 o (n_down n) Hinv Hs Hg); [| reflexivity |].
        -- cbn [step] in Hs. rewrite F in Hs. inversion Hs; reflexivity.
        -- intro F1. cbn [step] in Hs. rewrite F in Hs. inversion Hs; subst. congruence.
      * apply (Hacc (Req rq) rq s1 o eq_refl eq_refl); [|exact Hs | exact Hg]. cbn [step]. now rewrite F.
  - (* NCallRaced *)
    intros s1 o Hs Hg. cbn [nstep cli_ev]. rewrite Hs. split; [|split; [|reflexivity]].
    + apply (Hloc _ _ _ Hs). intros; discriminate.
    + destruct (failed (n_cli n)) as [c|] eqn:F.
      * apply (ninv_keep proc M l n (ReqRaced rq) s1 o (n_down n) Hinv Hs Hg); [| reflexivity |].
        -- cbn [step] in Hs. rewrite F in Hs. inversion Hs; reflexivity.
        -- intro F1. cbn [step] in Hs. rewrite F in Hs. inversion Hs; subst. unfold add_waiting in F1. cbn [failed] in F1. congruence.
      * apply (Hacc (ReqRaced rq) rq s1 o eq_refl eq_refl); [|exact Hs | exact Hg]. cbn [step]. now rewrite F.
  - (* NServe *)
    destruct Hinv as (dl & rp & qu & I1 & I2 & I3 & I4 & I5 & I6). cbn [nstep].
    destruct (n_dead n); [split; [exists dl, rp, qu; split6; assumption | reflexivity]|].
    destruct (n_up n) as [|m up] eqn:Eu; [split; [exists dl, rp, qu; rewrite Eu; split6; assumption | reflexivity]|].
    destruct qu as [|p qu']; [discriminate|]. cbn [map] in I2. inversion I2; subst m up.
    destruct (srv_step (fr p) (proc (n_served n) (fr p))) as [rep|] eqn:E.
    + split; [|reflexivity]. exists dl, (rp ++ [p]), qu'. cbn [n_cli n_up n_down n_served].
      split6.
      * rewrite I1, <- app_assoc. reflexivity.
      * reflexivity.
      * rewrite map_app, I3, map_app, replies_from_app, map_length. cbn [map replies_from].
        rewrite <- I4, E. reflexivity.
      * rewrite I4, app_length. cbn [length]. lia.
      * exact I5.
      * intro F. rewrite (I6 F), <- app_assoc. reflexivity.
    + split; [|reflexivity]. exists dl, rp, (p :: qu'). cbn [n_cli n_up n_down n_served].
      split6; first [assumption | reflexivity].
  - (* NDeliver *)
    destruct (n_down n) as [|rep down] eqn:Ed.
    + cbn [nstep cli_ev]. rewrite Ed. split; [exact Hinv | reflexivity].
    + intros s1 o Hs Hg. cbn [nstep cli_ev]. rewrite Ed, Hs. cbn [tl].
      destruct Hinv as (dl & rp & qu & I1 & I2 & I3 & I4 & I5 & I6).
      pose proof (step_uniq M (n_cli n) _ I5 Hg) as U1.
      rewrite Hs in U1. cbn [fst] in U1.
      rewrite Ed in I3. destruct rp as [|[sq0 rq0] rp']; [discriminate|].
      cbn [map replies_from] in I3. inversion I3 as [[Hrep Hdown]]. clear I3. symmetry in Hrep.
      unfold fr in Hrep. cbn [fst snd] in Hrep.
      destruct (srv_step_seq _ _ _ Hrep) as (Hseq & _). cbn [mseq req_msg] in Hseq.
      assert (Hnew : sent_pairs (l ++ [(Resp (mseq rep) (mtype rep) (msize rep) (mdata rep), o)]) = (dl ++ [(sq0, rq0)]) ++ rp' ++ qu).
      { rewrite sent_pairs_snoc. cbn [fst is_req]. rewrite app_nil_r, I1, <- app_assoc. reflexivity. }
      assert (Hlen : length (dl ++ [(sq0, rq0)]) = S (length dl)) by (rewrite app_length; cbn [length]; lia).
      cbn [step] in Hs. destruct (failed (n_cli n)) as [c|] eqn:F.
      * inversion Hs; subst s1 o. split; [intros id r []|]. split; [|reflexivity].
        exists (dl ++ [(sq0, rq0)]), rp', qu. cbn [n_cli n_up n_down n_served sents]. rewrite app_nil_r, Hlen.
        split6; try assumption.
        -- rewrite I4. cbn [length]. lia.
        -- intro F1. congruence.
      * unfold handle_response in Hs. rewrite Hseq in Hs.
        assert (Hpend : pending (n_cli n) = rev (rp' ++ qu) ++ [(sq0, rq0)]).
        { rewrite (I6 eq_refl). cbn [app rev]. reflexivity. }
        destruct (I5 F) as [Und _].
        assert (Hl : lookup sq0 (pending (n_cli n)) = Some rq0).
        { apply lookup_unique; [exact Und|]. rewrite Hpend. apply in_app_iff. right. now left. }
        rewrite Hl, F in Hs.
        destruct (deliver (waiting (n_cli n)) rq0 (op_result rq0 (mtype rep) (msize rep) (mdata rep))) as [w o'] eqn:E.
        inversion Hs; subst s1 o. clear Hs.
        split; [|split; [|reflexivity]].
        -- intros id r Hin _. cbn [snd] in Hin. apply deliver_cases in E.
           destruct E as [(_ & _ & Ho) | (_ & _ & Ho)]; subst o'; destruct Hin as [Hin|[]]; [|discriminate].
           inversion Hin; subst id r.
           exists (length dl), sq0, rq0, rep. repeat split.
           ++ rewrite I1, nth_error_app2, Nat.sub_diag by lia. reflexivity.
           ++ exact Hrep.
           ++ cbn [fst]. now rewrite Hseq.
        -- exists (dl ++ [(sq0, rq0)]), rp', qu. cbn [n_cli n_up n_down n_served].
           rewrite (sents_deliver _ _ _ _ _ E), app_nil_r, Hlen.
           split6; try assumption.
           ++ rewrite I4. cbn [length]. lia.
           ++ intros _. cbn [pending]. rewrite Hpend. apply remove_key_last. rewrite <- Hpend. exact Und.
  - (* NFail *)
    intros s1 o Hs Hg. cbn [nstep cli_ev]. rewrite Hs. split; [|split; [|reflexivity]].
    + apply (Hloc _ _ _ Hs). intros; discriminate.
    + apply (ninv_keep proc M l n (TransportErr c) s1 o (n_down n) Hinv Hs Hg); [| reflexivity |].
      * cbn [step] in Hs. destruct (failed (n_cli n)); [inversion Hs; reflexivity|].
        unfold handle_transport in Hs. destruct (reply_all c (pending (n_cli n)) (waiting (n_cli n))) as [w o'] eqn:E.
        inversion Hs; subst. cbn [sents]. eapply sents_reply_all; eauto.
      * intro F1. cbn [step] in Hs. destruct (failed (n_cli n)) eqn:F; [inversion Hs; subst; congruence|].
        unfold handle_transport in Hs. destruct (reply_all c (pending (n_cli n)) (waiting (n_cli n))) as [w o'].
        inversion Hs; subst. discriminate.
  - (* NTimeout *)
    intros s1 o Hs Hg. cbn [nstep cli_ev]. rewrite Hs. split; [|split; [|reflexivity]].
    + apply (Hloc _ _ _ Hs). intros; discriminate.
    + apply (ninv_keep proc M l n (Timeout id0) s1 o (n_down n) Hinv Hs Hg); [| reflexivity |].
      * cbn [step] in Hs. destruct (find_wait id0 (waiting (n_cli n))); inversion Hs; reflexivity.
      * intro F1. cbn [step] in Hs. destruct (find_wait id0 (waiting (n_cli n))); inversion Hs; subst; cbn [failed pending] in *; auto.
Qed.

(** *** every schedule *)

Lemma end_to_end_gen : forall proc M sched n l, ninv proc l n -> all_e2e proc l ->
  guard M (n_cli n) (ntrace proc M n sched) = true ->
  all_e2e proc (l ++ exec M (n_cli n) (ntrace proc M n sched)).
Proof.
  intros proc M sched. induction sched as [|e t IH]; intros n l Hinv Hl Hg.
  - cbn [ntrace exec]. now rewrite app_nil_r.
  - cbn [ntrace] in *. pose proof (nstep_ok proc M l n e Hinv) as Hstep.
    destruct (cli_ev n e) as [ce|].
    + rewrite guard_cons in Hg. apply andb_true_iff in Hg. destruct Hg as [G1 G2].
      cbn [exec]. destruct (step M (n_cli n) ce) as [s1 o] eqn:E. cbn [fst] in G2.
      destruct (Hstep s1 o eq_refl G1) as (H1 & H2 & H3).
      change ((ce, o) :: exec M s1 (ntrace proc M (nstep proc M n e) t))
        with ([(ce, o)] ++ exec M s1 (ntrace proc M (nstep proc M n e) t)).
      rewrite app_assoc, <- H3. apply IH; [exact H2 | now apply all_e2e_snoc | now rewrite H3].
    + destruct Hstep as [H2 H3]. rewrite <- H3. apply IH; [exact H2 | exact Hl | now rewrite H3].
Qed.

Lemma ninv_init : forall proc, ninv proc [] net0.
Proof.
  intro proc. exists [], [], []. cbn [app length map replies_from rev net0 n_cli n_up n_down n_served sent_pairs flat_map].
  split6; try reflexivity; try (apply uniq_init).
Qed.

(** END TO END.  One client (any modulus M of its sequence counter), the server with any data processor,
    any schedule under which the client never reuses a sequence number that is still pending (the guard of
    LoopProofs; it holds when fewer than M requests are issued): whenever a call returns something other
    than the connection's error, then
    - the frame this call's own request event put on the connection was the k-th frame of the connection,
      sent with sequence number sq;
    - the server answered that very frame (its k-th request) with [rep], computed from this frame and from
      what the processor did for the k-th request;
    - the event that completed the call is the delivery of [rep], and the call returns exactly what
      [operation] makes of [rep]. *)
Theorem end_to_end : forall proc M sched,
  guard M init (ntrace proc M net0 sched) = true ->
  forall pre e o post id r,
    exec M init (ntrace proc M net0 sched) = pre ++ (e, o) :: post ->
    In (Done id r) o -> is_local r = false ->
    exists k sq rq rep,
      rid rq = id /\ nth_error (sent_pairs pre) k = Some (sq, rq) /\
      srv_step (req_msg sq rq) (proc k (req_msg sq rq)) = Some rep /\
      e = Resp sq (mtype rep) (msize rep) (mdata rep) /\
      r = op_result rq (mtype rep) (msize rep) (mdata rep).
Proof.
  intros proc M sched Hg pre e o post id r Hex Hin Hl.
  assert (A : all_e2e proc ([] ++ exec M (n_cli net0) (ntrace proc M net0 sched))).
  { apply end_to_end_gen; [apply ninv_init | | exact Hg]. intros p x q Hq. destruct p; discriminate. }
  cbn [app n_cli net0] in A. exact (A pre (e, o) post Hex id r Hin Hl).
Qed.

Lemma in_sents : forall o m, In m (sents o) -> In (Sent m) o.
Proof.
  induction o as [|x o IH]; intros m H; [destruct H|].
  destruct x; cbn [sents] in H; try (right; now apply IH).
  destruct H as [H|H]; [left; now subst | right; now apply IH].
Qed.

(** the pairing is by the call's own event: an entry (sq, rq) of [sent_pairs] comes from the request event of
    [rq], and that event put exactly the frame [req_msg sq rq] on the connection *)
Lemma sent_pairs_sent_in : forall M es s k sq rq, nth_error (sent_pairs (exec M s es)) k = Some (sq, rq) ->
  sent_in (exec M s es) sq rq.
Proof.
  intros M es s k sq rq H. apply nth_error_In in H. unfold sent_pairs in H. apply in_flat_map in H.
  destruct H as [[e o] [Hin Hp]]. cbn [fst snd] in Hp.
  destruct (is_req e) as [rq'|] eqn:R; [|destruct Hp].
  apply in_map_iff in Hp. destruct Hp as [m [Hm Hs]]. inversion Hm; subst rq'. clear Hm.
  exists e, o. split; [exact Hin|]. split; [exact R|].
  apply in_sents in Hs.
  (* the frame a request event sends is req_msg of its own request *)
  assert (Hform : forall es s, In (e, o) (exec M s es) -> forall m0, In (Sent m0) o -> m0 = req_msg (mseq m0) rq).
  { clear -R. induction es as [|e0 es IH]; intros s Hin m0 Hs; [destruct Hin|].
    cbn [exec] in Hin. destruct (step M s e0) as [s1 o0] eqn:E. destruct Hin as [Hin|Hin]; [|eapply IH; eauto].
    inversion Hin; subst e0 o0. clear Hin.
    destruct e as [r0|r0| | |]; cbn [is_req] in R; try discriminate; inversion R; subst r0; cbn [step] in E;
      destruct (failed s) eqn:F.
    - inversion E; subst. destruct Hs as [Hs|[]]. discriminate.
    - rewrite accept_step in E by exact F. inversion E; subst. destruct Hs as [Hs|[]]. inversion Hs. reflexivity.
    - inversion E; subst. destruct Hs.
    - rewrite accept_step in E by exact F. inversion E; subst. destruct Hs as [Hs|[]]. inversion Hs. reflexivity. }
  rewrite <- (Hform es s Hin m Hs). exact Hs.
Qed.

(** with distinct call ids every call owns at most one frame of the connection, so the index [k] above is
    determined by the call *)
Definition pid (p : N * req) : N := rid (snd p).

Lemma step_sents_le1 : forall M s e s1 o, step M s e = (s1, o) ->
  sents o = [] \/ exists rq, is_req e = Some rq /\ sents o = [req_msg (next_seq M (seq s)) rq].
Proof.
  intros M s e s1 o H. destruct e as [rq|rq|sq ty sz d|c|id0]; cbn [step] in H.
  - destruct (failed s) eqn:F; [inversion H; now left|]. rewrite accept_step in H by exact F. inversion H; subst.
    right. exists rq. split; reflexivity.
  - destruct (failed s) eqn:F; [inversion H; now left|]. rewrite accept_step in H by exact F. inversion H; subst.
    right. exists rq. split; reflexivity.
  - left. destruct (failed s) eqn:F; [inversion H; reflexivity|]. unfold handle_response in H.
    destruct (lookup sq (pending s)); [|inversion H; reflexivity]. rewrite F in H.
    destruct (deliver (waiting s) r (op_result r ty sz d)) as [w o'] eqn:E. inversion H; subst. eapply sents_deliver; eauto.
  - left. destruct (failed s) eqn:F; [inversion H; reflexivity|]. unfold handle_transport in H.
    destruct (reply_all c (pending s) (waiting s)) as [w o'] eqn:E. inversion H; subst. cbn [sents]. eapply sents_reply_all; eauto.
  - left. destruct (find_wait id0 (waiting s)); inversion H; reflexivity.
Qed.

Lemma sent_ids_gen : forall M es s,
  (forall id, In id (map pid (sent_pairs (exec M s es))) -> In id (req_ids es)) /\
  (NoDup (req_ids es) -> NoDup (map pid (sent_pairs (exec M s es)))).
Proof.
  intros M es. induction es as [|e es IH]; intro s; [split; [intros id [] | intros _; constructor]|].
  cbn [exec]. destruct (step M s e) as [s1 o] eqn:E. destruct (IH s1) as [I1 I2].
  unfold sent_pairs. cbn [flat_map fst snd]. fold (sent_pairs (exec M s1 es)). rewrite map_app, new_ids_req_ids.
  destruct (step_sents_le1 _ _ _ _ _ E) as [Hs | (rq & Hr & Hs)]; rewrite Hs.
  - assert (Hnil : match is_req e with Some rq => map (fun m : msg => (mseq m, rq)) [] | None => [] end = [])
      by (destruct (is_req e); reflexivity).
    rewrite Hnil. cbn [map app]. split.
    + intros id Hin. apply in_app_iff. right. now apply I1.
    + intro Hnd. apply I2. clear -Hnd. induction (new_ids e) as [|x l IHl]; [exact Hnd|]. inversion Hnd; subst. now apply IHl.
  - rewrite Hr. cbn [map app pid snd]. unfold new_ids. rewrite Hr. cbn [app]. split.
    + intros id [Hin|Hin]; [now left | right; now apply I1].
    + intro Hnd. inversion Hnd as [|? ? Hx Hl]; subst. constructor; [|now apply I2].
      intro Hin. apply Hx. now apply I1.
Qed.

Theorem own_frame_unique : forall M es s, NoDup (req_ids es) -> NoDup (map pid (sent_pairs (exec M s es))).
Proof. intros M es s. apply sent_ids_gen. Qed.

(** what a reader gets: the processor's data for its own request *)
Theorem read_result_is_own_data : forall sq rq data rep, rkind rq = KRead ->
  srv_step (req_msg sq rq) (OOk data) = Some rep ->
  op_result rq (mtype rep) (msize rep) (mdata rep) =
  mkres (Z.of_N (rlen rq)) ENone (fill (N.to_nat (rlen rq)) data).
Proof.
  intros sq rq data rep Hk H.
  assert (Hty : mtype (req_msg sq rq) = TypeRead) by (cbn [req_msg mtype]; now rewrite Hk).
  destruct (read_reply _ _ _ Hty H) as (T & D & S).
  cbn [req_msg msize] in D, S. unfold req_size in D, S. rewrite Hk in D, S.
  assert (Hn : Z.to_nat (Z.of_N (rlen rq)) = N.to_nat (rlen rq)) by lia.
  rewrite T, D, S, Hn. unfold op_result, init_buf. rewrite Hk.
  change (TypeResponse =? TypeError) with false. change (TypeResponse =? TypeEOF) with false.
  change (TypeResponse =? TypeResponse) with true. cbn [orb finish].
  f_equal. unfold copy_into. rewrite repeat_length, fill_length, skipn_all2 by (rewrite repeat_length; lia).
  rewrite app_nil_r. apply firstn_all2. rewrite fill_length. lia.
Qed.

(** non-vacuity: three concurrent calls; the server answers the first two before the third is even sent,
    replies are delivered late and the timer of a caller fires in between *)
Definition ex_proc : nat -> msg -> outcome :=
  fun k m => if mtype m =? TypeRead then OOk [N.of_nat k + 10; Z.to_N (moff m / 4096)] else
             if mtype m =? TypeSync then OErr [69] else OOk [].

Example ex_end_to_end :
  dones (outs (exec seq_mod init (ntrace ex_proc seq_mod net0
    [NCall rqA; NCall rqB; NServe; NServe; NCall rqC; NCall rqE; NDeliver; NServe; NTimeout 2; NDeliver; NServe; NDeliver; NDeliver])))
  = [(1, mkres 4 ENone [10; 1; 0; 0]); (2, mkres 0 (ELocal CRWTimeout) []);
     (3, mkres (-1) (ERemote [69]) []); (5, mkres 2 ENone [13; 0])].
Proof. vm_compute. reflexivity. Qed.
