(** * Rpc: observations, correspondence functions and the C15 trace oracles.
    Executable only; the theorems about the oracles are in Proofs.v.

    What the harness (harness/cmd/rpc) observes:
    - codec, write side: a Message given to the real Wire.Write and the bytes that arrived at the
      other end of the connection;
    - codec, read side: a byte stream fed to the real Wire.Read in a loop, the messages returned
      and how the loop ended;
    - client: the events of one connection (requests in the order of the sequence numbers seen by
      the scripted peer, the frames the peer sent back, the failure, the callers whose own timer
      fired), the frames the peer received, what every call returned, and the number of signals
      on closeChan. *)
From Coq Require Import List ZArith NArith Bool Arith.
From Jiva Require Import Rpc.Model.
Import ListNotations.
Open Scope N_scope.

(** ** equality tests *)
Fixpoint listN_eqb (a b : list N) : bool :=
  match a, b with
  | [], [] => true
  | x :: a', y :: b' => (x =? y) && listN_eqb a' b'
  | _, _ => false
  end.

Definition msg_eqb (a b : msg) : bool :=
  (mmagic a =? mmagic b) && (mseq a =? mseq b) && (mtype a =? mtype b)
  && (moff a =? moff b)%Z && (msize a =? msize b)%Z && listN_eqb (mdata a) (mdata b).

Fixpoint msgs_eqb (a b : list msg) : bool :=
  match a, b with
  | [], [] => true
  | x :: a', y :: b' => msg_eqb x y && msgs_eqb a' b'
  | _, _ => false
  end.

Definition dend_eqb (a b : dend) : bool :=
  match a, b with
  | EndClean, EndClean => true
  | EndBadMagic x, EndBadMagic y => x =? y
  | EndShort, EndShort => true
  | _, _ => false
  end.

Definition cerr_eqb (a b : cerr) : bool :=
  match a, b with
  | CTransport, CTransport | CRWTimeout, CRWTimeout | CPingTimeout, CPingTimeout => true
  | _, _ => false
  end.

Definition rerr_eqb (a b : rerr) : bool :=
  match a, b with
  | ENone, ENone => true
  | EEOF, EEOF => true
  | ERemote x, ERemote y => listN_eqb x y
  | ELocal x, ELocal y => cerr_eqb x y
  | _, _ => false
  end.

Definition result_eqb (a b : result) : bool :=
  (r_n a =? r_n b)%Z && rerr_eqb (r_err a) (r_err b) && listN_eqb (r_buf a) (r_buf b).

Fixpoint frames_eqb (a b : list (list N)) : bool :=
  match a, b with
  | [], [] => true
  | x :: a', y :: b' => listN_eqb x y && frames_eqb a' b'
  | _, _ => false
  end.

(** ** codec cases *)

(** Wire.Write(m) put [w_bytes] on the connection *)
Record wcase := mkw { w_msg : msg; w_bytes : list N }.
(** Wire.Read in a loop over [r_input] returned [r_msgs] and then failed as [r_end] *)
Record rcase := mkr { r_input : list N; r_msgs : list msg; r_end : dend }.

(** correspondence: the model's encoder / decoder agree with the implementation *)
Definition wcase_same (c : wcase) : bool := listN_eqb (encode (w_msg c)) (w_bytes c).
Definition rcase_same (c : rcase) : bool :=
  let '(ms, e) := decode_stream (r_input c) in msgs_eqb ms (r_msgs c) && dend_eqb e (r_end c).

(** the property on the implementation's observations: what the real writer produced decodes to
    the message that was written and nothing else ... *)
Definition c15_write_oracle (c : wcase) : bool :=
  if wfb (w_msg c) then
    match decode (w_bytes c) with
    | Some (m, []) => msg_eqb m (w_msg c)
    | _ => false
    end
  else true.

Fixpoint is_prefix (a b : list N) : bool :=
  match a, b with
  | [], _ => true
  | x :: a', y :: b' => (x =? y) && is_prefix a' b'
  | _ :: _, [] => false
  end.

(** ... and what the real reader returned re-encodes to exactly the bytes it consumed; a stream
    that does not start a frame with the magic number yields no further message *)
Definition c15_read_oracle (c : rcase) : bool :=
  forallb wfb (r_msgs c) &&
  is_prefix (flat_map encode (r_msgs c)) (r_input c) &&
  match r_end c with
  | EndClean => (length (flat_map encode (r_msgs c)) =? length (r_input c))%nat
  | _ => true
  end.

(** ** client cases *)

Record lcase := mkl {
  l_events : list event;
  l_frames : list (list N);        (* frames received by the peer, in order *)
  l_comps  : list (N * result);    (* what every call returned *)
  l_closed : N                     (* signals on closeChan *)
}.

Fixpoint sents (os : list out) : list msg :=
  match os with
  | [] => []
  | Sent m :: t => m :: sents t
  | _ :: t => sents t
  end.

Fixpoint count_closed (os : list out) : N :=
  match os with
  | [] => 0
  | Closed :: t => 1 + count_closed t
  | _ :: t => count_closed t
  end.

Fixpoint lookupc (id : N) (l : list (N * result)) : option result :=
  match l with
  | [] => None
  | (k, r) :: t => if k =? id then Some r else lookupc id t
  end.

Definition comps_same (a b : list (N * result)) : bool :=
  (length a =? length b)%nat &&
  forallb (fun '(id, r) => match lookupc id b with Some r' => result_eqb r r' | None => false end) a.

(** 0 = the model and the implementation agree; 1 frames on the wire; 2 results of the calls;
    3 number of failure reports *)
Definition loop_diff (M : N) (c : lcase) : nat :=
  let os := outs (exec M init (l_events c)) in
  if negb (frames_eqb (map encode (sents os)) (l_frames c)) then 1
  else if negb (comps_same (l_comps c) (dones os)) then 2
  else if negb (count_closed os =? l_closed c) then 3
  else 0%nat.

(** *** C15 on an observed trace *)

Fixpoint find_req (id : N) (es : list event) : option req :=
  match es with
  | [] => None
  | e :: es' => match is_req e with
                | Some r => if rid r =? id then Some r else find_req id es'
                | None => find_req id es'
                end
  end.

(** the sequence number the loop gave to the frame of call [id]: requests are numbered in the order
    in which the loop took them, from c.seq+1, modulo M, until the connection fails *)
Fixpoint assigned_from (M cur : N) (es : list event) (id : N) : option N :=
  match es with
  | [] => None
  | TransportErr _ :: _ => None
  | e :: es' => match is_req e with
                | Some r => if rid r =? id then Some (next_seq M cur) else assigned_from M (next_seq M cur) es' id
                | None => assigned_from M cur es' id
                end
  end.

(** the events before the failure *)
Fixpoint live (es : list event) : list event :=
  match es with
  | [] => []
  | TransportErr _ :: _ => []
  | e :: es' => e :: live es'
  end.

Definition is_fail (e : event) : bool :=
  match e with TransportErr _ | Timeout _ => true | _ => false end.

(** Is the result [r] of call [id] justified by the trace?  A result that is not the connection's
    error must be exactly what [operation] makes of a response frame that carried the number
    assigned to this call and arrived before the failure; the connection's error is only possible
    if the connection failed or a timer fired. *)
Definition justified (M : N) (es : list event) (id : N) (r : result) : bool :=
  match find_req id es with
  | None => false
  | Some rq =>
      match r_err r with
      | ELocal c => existsb is_fail es && result_eqb r (local_result rq c)
      | _ =>
          match assigned_from M 0 es id with
          | None => false
          | Some sq =>
              existsb (fun e => match e with
                                | Resp sq' ty sz d => (sq' =? sq) && result_eqb r (op_result rq ty sz d)
                                | _ => false
                                end) (live es)
          end
      end
  end.

Fixpoint split_fail (es : list event) : option (list event * cerr * list event) :=
  match es with
  | [] => None
  | TransportErr c :: post => Some ([], c, post)
  | e :: es' => match split_fail es' with
                | Some (pre, c, post) => Some (e :: pre, c, post)
                | None => None
                end
  end.

Definition memb (x : N) (l : list N) : bool := existsb (N.eqb x) l.

Fixpoint nodupb (l : list N) : bool :=
  match l with
  | [] => true
  | x :: t => negb (memb x t) && nodupb t
  end.

(** after the failure: it was reported exactly once, every call issued before it has returned, and
    every call issued after it returned the connection's error *)
Definition fail_rule (es : list event) (comps : list (N * result)) (closed : N) : bool :=
  match split_fail es with
  | None => closed =? 0
  | Some (pre, c, post) =>
      (closed =? 1)
      && forallb (fun id => memb id (map fst comps)) (req_ids pre)
      && forallb (fun e => match e with
                           | Req rq => match lookupc (rid rq) comps with
                                       | Some r => result_eqb r (local_result rq c)
                                       | None => false
                                       end
                           | _ => true
                           end) post
  end.

Definition c15_oracle (M : N) (es : list event) (comps : list (N * result)) (closed : N) : bool :=
  nodupb (map fst comps)
  && forallb (fun '(id, r) => justified M es id r) comps
  && fail_rule es comps closed.

(** well-formedness of an observed trace (what the harness guarantees by construction): call ids are
    distinct, and fewer than M requests *)
Definition trace_wf (M : N) (es : list event) : bool :=
  nodupb (req_ids es) && (N.of_nat (count_reqs es) <? M).

Record lverdict := mklv { lv_diff : nat; lv_oracle : bool; lv_wf : bool }.

Definition check_lcase (c : lcase) : lverdict :=
  mklv (loop_diff seq_mod c)
       (c15_oracle seq_mod (l_events c) (l_comps c) (l_closed c))
       (trace_wf seq_mod (l_events c)).

(** (index, diff, oracle) of every client case that differs from the model or fails the oracle *)
Fixpoint bad_lcases (i : nat) (cs : list lcase) : list (nat * nat * bool) :=
  match cs with
  | [] => []
  | c :: cs' =>
      let v := check_lcase c in
      let rest := bad_lcases (S i) cs' in
      if (Nat.eqb (lv_diff v) 0) && lv_oracle v && lv_wf v then rest
      else (i, (if lv_wf v then lv_diff v else 9%nat), lv_oracle v) :: rest
  end.

Fixpoint bad_wcases (i : nat) (cs : list wcase) : list (nat * bool * bool) :=
  match cs with
  | [] => []
  | c :: cs' =>
      let rest := bad_wcases (S i) cs' in
      if wcase_same c && c15_write_oracle c then rest else (i, wcase_same c, c15_write_oracle c) :: rest
  end.

Fixpoint bad_rcases (i : nat) (cs : list rcase) : list (nat * bool * bool) :=
  match cs with
  | [] => []
  | c :: cs' =>
      let rest := bad_rcases (S i) cs' in
      if rcase_same c && c15_read_oracle c then rest else (i, rcase_same c, c15_read_oracle c) :: rest
  end.

(** ** coverage predicates, evaluated on the model side
    client case bit mask: 1 some call completed by a response that is not the oldest outstanding one
    (out of order delivery), 2 a frame for an unknown / already answered number was dropped,
    4 the connection failed with callers waiting, 8 a call was refused after the failure,
    16 a timer fired, 32 a peer-sent TypeError / TypeEOF was delivered *)
Definition b2n (b : bool) (k : nat) : nat := if b then k else 0%nat.

Fixpoint out_of_order (lowest : N) (es : list event) : bool :=
  match es with
  | [] => false
  | Resp sq _ _ _ :: es' => (lowest + 1 <? sq) || out_of_order (N.max lowest sq) es'
  | _ :: es' => out_of_order lowest es'
  end.

Definition has_out (p : out -> bool) (c : lcase) : bool :=
  existsb p (outs (exec seq_mod init (l_events c))).

Definition lcase_flags (c : lcase) : nat :=
  let os := outs (exec seq_mod init (l_events c)) in
  (b2n (out_of_order 0 (live (l_events c))) 1
   + b2n (existsb (fun o => match o with Unknown _ => true | _ => false end) os) 2
   + b2n (match split_fail (l_events c) with
          | Some (pre, _, _) => negb (Nat.eqb (length (waiting (run seq_mod init pre))) 0)
          | None => false end) 4
   + b2n (match split_fail (l_events c) with
          | Some (_, _, post) => existsb (fun e => match e with Req _ => true | _ => false end) post
          | None => false end) 8
   + b2n (existsb (fun e => match e with Timeout _ => true | _ => false end) (l_events c)) 16
   + b2n (existsb (fun o => match o with
                            | Done _ r => match r_err r with ERemote _ | EEOF => true | _ => false end
                            | _ => false end) os) 32)%nat.

Definition lcoverage (cs : list lcase) : list nat := map lcase_flags cs.

(** codec read case mask: 1 at least one message, 2 bad magic, 4 ended inside a frame, 8 payload present *)
Definition rcase_flags (c : rcase) : nat :=
  let '(ms, e) := decode_stream (r_input c) in
  (b2n (negb (Nat.eqb (length ms) 0)) 1
   + b2n (match e with EndBadMagic _ => true | _ => false end) 2
   + b2n (match e with EndShort => true | _ => false end) 4
   + b2n (existsb (fun m => negb (Nat.eqb (length (mdata m)) 0)) ms) 8)%nat.
Definition rcoverage (cs : list rcase) : list nat := map rcase_flags cs.
