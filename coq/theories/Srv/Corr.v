(** * Srv: observations, trace oracles for C10 and C17, and the correspondence checker.
    Executable only; the theorems about the oracles are in Proofs.v. *)
From Coq Require Import List ZArith NArith Bool Arith.
From Jiva Require Import Srv.Model.
Import ListNotations.
Open Scope Z_scope.

(** What the harness can see after every operation. *)
Record obs := mkobs {
  ores   : res;
  ostate : rstate;
  omode  : option mode;          (* None when no replica is open *)
  ocount : Z;                    (* revision.counter as read from the directory *)
  oimg   : option (list N)       (* per block: id of the write it holds, 0 = never written; None when closed *)
}.

Definition nblk : nat := 8.

Fixpoint set_nth {A} (l : list A) (i : nat) (v : A) : list A :=
  match l, i with
  | [], _ => []
  | _ :: t, O => v :: t
  | h :: t, S j => h :: set_nth t j v
  end.

Definition image (ws : list N) : list N :=
  fold_left (fun im id => set_nth im (N.to_nat (N.modulo id (N.of_nat nblk))) id) ws (repeat 0%N nblk).

Definition observe (s : st) (x : res) : obs :=
  mkobs x (state s)
        (match r s with Some y => Some (rmode y) | None => None end)
        (dcount s)
        (match r s with
         | Some y => match rmode y with CLOSED => None | _ => Some (image (applied s)) end   (* files closed: unreadable *)
         | None => None end).

Fixpoint trace (s : st) (ts : list top) : list obs :=
  match ts with
  | [] => []
  | t :: ts' => let '(s1, x) := tstep s t in observe s1 x :: trace s1 ts'
  end.

(** ** equality of observations, reporting the first differing field
    1 result, 2 state, 3 mode, 4 counter, 5 image *)
Definition omode_eqb (a b : option mode) : bool :=
  match a, b with
  | None, None => true | Some x, Some y => mode_eqb x y | _, _ => false end.
Fixpoint listN_eqb (a b : list N) : bool :=
  match a, b with
  | [], [] => true
  | x :: a', y :: b' => N.eqb x y && listN_eqb a' b'
  | _, _ => false
  end.
Definition oimg_eqb (a b : option (list N)) : bool :=
  match a, b with
  | None, None => true | Some x, Some y => listN_eqb x y | _, _ => false end.

Definition obs_diff (a b : obs) : nat :=
  if negb (res_eqb (ores a) (ores b)) then 1
  else if negb (rstate_eqb (ostate a) (ostate b)) then 2
  else if negb (omode_eqb (omode a) (omode b)) then 3
  else if negb (Z.eqb (ocount a) (ocount b)) then 4
  else if negb (oimg_eqb (oimg a) (oimg b)) then 5
  else 0%nat.

Fixpoint first_diff (i : nat) (a b : list obs) : option (nat * nat) :=
  match a, b with
  | [], [] => None
  | x :: a', y :: b' =>
      match obs_diff x y with
      | O => first_diff (S i) a' b'
      | k => Some (i, k)
      end
  | _, _ => Some (i, 9%nat)
  end.

(** ** C10 as a predicate on any observed trace *)
Definition obs0 : obs := observe init ROk.

Definition is_ok (x : res) : bool := res_eqb x ROk.
Definition mode_is (o : obs) (m : mode) : bool := omode_eqb (omode o) (Some m).

Definition c10_step (prev : obs) (t : top) (cur : obs) : bool :=
  match t with
  | Eng (OWrite _) =>
      if mode_is prev RW && is_ok (ores cur)
      then Z.eqb (ocount cur) (ocount prev + 1)
      else Z.eqb (ocount cur) (ocount prev)
  | Eng (OSetRev v) | Rest ASetrevisioncounter _ v _ =>
      if is_ok (ores cur)
      then mode_is prev RW && Z.eqb (ocount cur) v      (* allowed only while RW *)
      else Z.eqb (ocount cur) (ocount prev)
  | Eng OCreate | Rest ACreate _ _ _ =>
      (* creating a volume where none exists starts the counter; otherwise nothing changes *)
      if rstate_eqb (ostate prev) SInitial then true else Z.eqb (ocount cur) (ocount prev)
  | _ => Z.eqb (ocount cur) (ocount prev)
  end.

Fixpoint c10_oracle (prev : obs) (ts : list top) (os : list obs) : bool :=
  match ts, os with
  | [], [] => true
  | t :: ts', o :: os' => c10_step prev t o && c10_oracle o ts' os'
  | _, _ => false
  end.

(** ** C17 as a predicate on any observed trace *)
Definition serving (o : obs) : bool := mode_is o RW || mode_is o WO.
Definition same_img (a b : obs) : bool :=
  match oimg a, oimg b with
  | Some x, Some y => listN_eqb x y
  | _, _ => true                         (* not observable while closed *)
  end.
Definition unchanged (a b : obs) : bool :=
  rstate_eqb (ostate a) (ostate b) && omode_eqb (omode a) (omode b)
  && Z.eqb (ocount a) (ocount b) && oimg_eqb (oimg a) (oimg b).

Definition is_open (o : obs) : bool := match omode o with Some _ => true | None => false end.

Definition c17_eng0 (prev : obs) (o : op) (cur : obs) : bool :=
  match o with
  | OWrite _ =>
      (* data changes and the write succeeds only if open and RW/WO; closed: refused *)
      (if serving prev then true else negb (is_ok (ores cur)) && same_img prev cur)
      && (if is_open prev then true else unchanged prev cur)
  | OWriteFail _ =>
      (* a write whose data write failed is reported failed and leaves image and counter alone *)
      negb (is_ok (ores cur)) && same_img prev cur && Z.eqb (ocount prev) (ocount cur)
  | ORead => if is_open prev then true else negb (is_ok (ores cur)) && unchanged prev cur
  | ORemove | OPrepRemove =>
      if mode_is prev RW then true else negb (is_ok (ores cur)) && unchanged prev cur
  | OSetRev _ =>
      if mode_is prev RW then true else negb (is_ok (ores cur)) && unchanged prev cur
  | OOpen =>
      (* a replica that is open is not opened (attached) a second time *)
      if is_open prev then negb (is_ok (ores cur)) && unchanged prev cur else true
  | OGetRevFail | OOpenBadCounter | OSetRevFail _ => negb (is_ok (ores cur)) && unchanged prev cur
  | OOpenFail =>
      (* an open that fails leaves the replica as it was: closed stays closed, nothing is served *)
      negb (is_ok (ores cur)) && unchanged prev cur
  | OCloseFail =>
      (* whether or not the close reported an error, a replica whose files were closed serves nothing *)
      negb (serving cur)
  | _ => true
  end.

(** The action table keys on the reported state, so the reported state has to stay truthful: a replica
    that reports "rebuilding" keeps reporting it across every request that does not end the rebuild or
    close the replica (I/O, mode and counter requests, refused opens), whatever else those requests set
    (the in-memory dirty flag in particular). *)
Definition keeps_rebuild (o : op) : bool :=
  match o with
  | OWrite _ | OWriteFail _ | ORead | OSetMode _ | OSetRev _ | OSetRevFail _ | OGetRevFail
  | OOpen | OOpenBadCounter | OOpenFail => true
  | _ => false
  end.
Definition c17_status (prev : obs) (o : op) (cur : obs) : bool :=
  if keeps_rebuild o && rstate_eqb (ostate prev) SRebuilding && is_open cur
  then rstate_eqb (ostate cur) SRebuilding else true.

Definition c17_eng (prev : obs) (o : op) (cur : obs) : bool :=
  c17_eng0 prev o cur && c17_status prev o cur.

Definition c17_step (prev : obs) (t : top) (cur : obs) : bool :=
  match t with
  | Eng o => c17_eng prev o cur
  | Rest a m v b =>
      if allowed (ostate prev) a
      then match engine_of a m v b with Some o => c17_eng prev o cur | None => true end
      else res_eqb (ores cur) R404 && unchanged prev cur
  | Attach =>
      if is_ok (ores cur)
      then rstate_eqb (ostate prev) SClosed && negb (rstate_eqb (ostate cur) SClosed)
      else unchanged prev cur
  end.

Fixpoint c17_oracle (prev : obs) (ts : list top) (os : list obs) : bool :=
  match ts, os with
  | [], [] => true
  | t :: ts', o :: os' => c17_step prev t o && c17_oracle o ts' os'
  | _, _ => false
  end.

(** ** one correspondence case: the operations the harness ran and what it observed *)
Record case := mkcase { c_ops : list top; c_obs : list obs }.

Record verdict := mkverdict {
  v_diff : option (nat * nat);    (* first step / field where implementation and model differ *)
  v_c10  : bool;                  (* C10 oracle on the implementation's trace *)
  v_c17  : bool                   (* C17 oracle on the implementation's trace *)
}.

Definition check_case (c : case) : verdict :=
  mkverdict (first_diff 0 (trace init (c_ops c)) (c_obs c))
            (c10_oracle obs0 (c_ops c) (c_obs c))
            (c17_oracle obs0 (c_ops c) (c_obs c)).

(** compact result for the harness: (case index, step, field, c10 ok, c17 ok) for every case that
    differs from the model or fails an oracle *)
Fixpoint bad_cases (i : nat) (cs : list case) : list (nat * (nat * nat) * (bool * bool)) :=
  match cs with
  | [] => []
  | c :: cs' =>
      let v := check_case c in
      let rest := bad_cases (S i) cs' in
      match v_diff v with
      | Some d => (i, d, (v_c10 v, v_c17 v)) :: rest
      | None => if v_c10 v && v_c17 v then rest else (i, (0, 0)%nat, (v_c10 v, v_c17 v)) :: rest
      end
  end.

(** coverage predicates, evaluated on the model side: how many cases exercise what *)
Definition has_rw_write (c : case) : bool := Z.ltb 0 (rw_acks init (c_ops c)).
Definition has_gate_refusal (c : case) : bool :=
  existsb (fun o => negb (is_ok (ores o))) (trace init (c_ops c)).
Definition has_reopen (c : case) : bool :=
  existsb (fun t => match t with Eng OCrash | Eng OClose | Eng (OWriteCrash _) | Rest AClose _ _ _ => true | _ => false end) (c_ops c).
Definition has_404 (c : case) : bool :=
  existsb (fun o => res_eqb (ores o) R404) (trace init (c_ops c)).
Definition b2n (b : bool) (k : nat) : nat := if b then k else 0%nat.
(** per case bit mask: 1 RW write acknowledged, 2 some refusal, 4 close/crash/reopen, 8 REST 404 *)
Definition case_flags (c : case) : nat :=
  (b2n (has_rw_write c) 1 + b2n (has_gate_refusal c) 2 + b2n (has_reopen c) 4 + b2n (has_404 c) 8)%nat.
Definition coverage (cs : list case) : list nat := map case_flags cs.
