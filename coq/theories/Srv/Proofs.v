(** * Srv: proofs about the model (C10, C17) *)
From Coq Require Import List ZArith NArith Bool Arith Lia.
From Jiva Require Import Srv.Model Srv.Corr.
Import ListNotations.
Open Scope Z_scope.

(** ** Invariant: while a replica is open its cached counter equals the persisted one *)
Definition inv (s : st) : Prop :=
  match r s with Some x => cache x = dcount s | None => True end.

Lemma inv_init : inv init.
Proof. exact I. Qed.

Ltac case_state s :=
  unfold state in *; destruct (r s) as [x|] eqn:Hr; [destruct x as [m c d b]; destruct m, b, d | destruct (present s) eqn:Hp];
  cbn in *.

Ltac crush_st s :=
  destruct s as [pr rr dc dd dr ap sn]; cbn in *;
  try (destruct rr as [[m c d b]|]; cbn in *);
  try (match goal with m : mode |- _ => destruct m end; cbn in *).

Lemma step_inv : forall s o, inv s -> inv (fst (step s o)).
Proof.
  intros s o H. unfold inv in *.
  destruct s as [pr rr dc dd dr ap sn]; cbn in *.
  destruct o; cbn [step with_rep]; unfold with_rep, set_r, state; cbn.
  all: destruct rr as [[md cc dd0 bb]|]; cbn in *; auto.
  all: repeat match goal with mm : mode |- _ => destruct mm end; cbn; auto.
  all: try (destruct pr; cbn; auto).
  all: try (destruct sn as [|a1 [|a2 [|a3 l]]]; cbn; auto).
  all: try (destruct bb; destruct dd0; cbn; auto).
  all: try (match goal with |- context [if ?b0 then _ else _] => destruct b0; cbn; auto end).
Qed.

Lemma tstep_inv : forall s t, inv s -> inv (fst (tstep s t)).
Proof.
  intros s t H. destruct t as [o|a m v b|]; cbn [tstep].
  - apply step_inv; exact H.
  - destruct (allowed (state s) a); [|exact H].
    destruct (engine_of a m v b); [apply step_inv; exact H|exact H].
  - destruct (rstate_eqb (state s) SClosed); [apply step_inv; exact H|exact H].
Qed.

(** ** How one engine step moves the persisted counter *)
Lemma step_count : forall s o, inv s ->
  dcount (fst (step s o)) =
  match o with
  | OWrite _ => if is_rw s then dcount s + 1 else dcount s
  | OSetRev v => if is_rw s then v else dcount s
  | OCreate => if rstate_eqb (state s) SInitial then 1 else dcount s
  | _ => dcount s
  end.
Proof.
  intros s o H. unfold inv, is_rw in *.
  destruct s as [pr rr dc dd dr ap sn]; cbn in *.
  destruct o; cbn [step with_rep]; unfold with_rep, set_r, state; cbn.
  all: destruct rr as [[md cc dd0 bb]|]; cbn in *; auto.
  all: repeat match goal with mm : mode |- _ => destruct mm end; cbn; auto; try lia.
  all: try (destruct pr; cbn; auto).
  all: try (destruct sn as [|a1 [|a2 [|a3 l]]]; cbn; auto).
  all: try (destruct bb; destruct dd0; cbn; auto).
  all: try (match goal with |- context [if ?b0 then _ else _] => destruct b0; cbn; auto end).
Qed.

Lemma step_res_write : forall s id, is_rw s = true -> snd (step s (OWrite id)) = ROk.
Proof.
  intros s id H. unfold is_rw in H. cbn [step]. unfold with_rep.
  destruct (r s) as [x|]; [|discriminate]. destruct x as [m c d b]; destruct m; cbn in *; try discriminate; reflexivity.
Qed.

Lemma step_res_setrev : forall s v, snd (step s (OSetRev v)) = ROk <-> is_rw s = true.
Proof.
  intros s v. unfold is_rw. cbn [step]. unfold with_rep.
  destruct (r s) as [x|]; [|cbn; split; discriminate].
  destruct x as [m c d b]; destruct m; cbn; split; intro; try discriminate; reflexivity.
Qed.

(** ** C10: exact counting *)
Fixpoint no_setrev (ts : list top) : bool :=
  match ts with [] => true | t :: ts' => negb (sets_rev t) && no_setrev ts' end.

Lemma tstep_count_nosr : forall s t, inv s -> sets_rev t = false ->
  dcount (fst (tstep s t)) = dcount s + counted s t.
Proof.
  intros s t H Hs. destruct t as [o|a m v b|]; cbn [tstep counted].
  - rewrite step_count by exact H. destruct o; cbn in Hs; try discriminate; cbn; try lia.
    destruct (is_rw s); lia.
  - destruct (allowed (state s) a); [|cbn; lia].
    destruct a; cbn in Hs; try discriminate; cbn [engine_of fst]; try lia;
      rewrite step_count by exact H; cbn; try lia.
  - destruct (rstate_eqb (state s) SClosed); [rewrite step_count by exact H|]; cbn; lia.
Qed.

Theorem counts_exact : forall ts s, inv s -> no_setrev ts = true ->
  dcount (fst (run s ts)) = dcount s + rw_acks s ts.
Proof.
  induction ts as [|t ts IH]; intros s H Hn; cbn [run rw_acks].
  - cbn. lia.
  - cbn in Hn. apply andb_prop in Hn. destruct Hn as [Ht Hn]. apply negb_true_iff in Ht.
    destruct (tstep s t) as [s1 x] eqn:E. destruct (run s1 ts) as [s2 xs] eqn:E2. cbn [fst].
    pose proof (IH s1) as IH1. rewrite E2 in IH1. cbn [fst] in IH1.
    assert (Hs1 : s1 = fst (tstep s t)) by (rewrite E; reflexivity).
    rewrite IH1; [| subst s1; apply tstep_inv; exact H | exact Hn].
    subst s1. rewrite tstep_count_nosr by assumption. lia.
Qed.

Lemma rw_acks_nonneg : forall ts s, 0 <= rw_acks s ts.
Proof.
  induction ts as [|t ts IH]; intros s; cbn [rw_acks]; [lia|].
  specialize (IH (fst (tstep s t))).
  assert (0 <= counted s t) by (unfold counted; destruct t as [o| |]; try lia; destruct o; try lia; destruct (is_rw s); lia).
  lia.
Qed.

Theorem never_decreases : forall ts s, inv s -> no_setrev ts = true ->
  dcount s <= dcount (fst (run s ts)).
Proof.
  intros ts s H Hn. rewrite counts_exact by assumption. pose proof (rw_acks_nonneg ts s). lia.
Qed.

(** a write applied while rebuilding (WO), a refused write, a crash in the middle of a write, close,
    reopen: the counter stays *)
Theorem write_not_rw_keeps : forall s id, inv s -> is_rw s = false ->
  dcount (fst (step s (OWrite id))) = dcount s.
Proof. intros s id H Hrw. rewrite step_count by exact H. rewrite Hrw. reflexivity. Qed.

Theorem write_rw_adds_one : forall s id, inv s -> is_rw s = true ->
  dcount (fst (step s (OWrite id))) = dcount s + 1 /\ snd (step s (OWrite id)) = ROk.
Proof. intros s id H Hrw. split; [rewrite step_count by exact H; rewrite Hrw; reflexivity | apply step_res_write; exact Hrw]. Qed.

Theorem crash_close_open_keep : forall s o, inv s ->
  match o with OCrash | OClose | OOpen | OWriteCrash _ | OReload => True | _ => False end ->
  dcount (fst (step s o)) = dcount s.
Proof. intros s o H Ho. rewrite step_count by exact H. destruct o; try contradiction; reflexivity. Qed.

Theorem setrev_needs_rw : forall s v, is_rw s = false ->
  step s (OSetRev v) = (s, RErr).
Proof.
  intros s v H. unfold is_rw in H. cbn [step]. unfold with_rep.
  destruct (r s) as [x|]; [|reflexivity]. destruct x as [m c d b]; destruct m; cbn in *; try discriminate; reflexivity.
Qed.

(** ** the C10 oracle holds on every trace of the model *)
Lemma observe_fields : forall s x,
  ostate (observe s x) = state s /\ ocount (observe s x) = dcount s /\ ores (observe s x) = x
  /\ omode (observe s x) = match r s with Some y => Some (rmode y) | None => None end.
Proof. intros; repeat split. Qed.

Lemma mode_is_rw : forall s x, mode_is (observe s x) RW = is_rw s.
Proof. intros s x. unfold mode_is, is_rw, observe; cbn. destruct (r s) as [y|]; reflexivity. Qed.

Lemma c10_step_model : forall s x0 t, inv s ->
  c10_step (observe s x0) t (observe (fst (tstep s t)) (snd (tstep s t))) = true.
Proof.
  intros s x0 t H.
  destruct t as [o|a m v b|]; cbn [tstep c10_step].
  - destruct o; cbn [c10_step]; rewrite ?mode_is_rw; cbn [ocount ores ostate observe];
      rewrite step_count by exact H; rewrite ?Z.eqb_refl; auto.
    + destruct (rstate_eqb (state s) SInitial); auto. apply Z.eqb_refl.
    + destruct (is_rw s) eqn:E.
      * rewrite step_res_write by exact E. cbn. apply Z.eqb_refl.
      * cbn. apply Z.eqb_refl.
    + destruct (is_rw s) eqn:E.
      * destruct (step_res_setrev s v) as [_ Hx]. rewrite (Hx E). cbn. apply Z.eqb_refl.
      * rewrite (setrev_needs_rw s v E). cbn. apply Z.eqb_refl.
  - destruct (allowed (state s) a) eqn:Ea.
    + destruct a; cbn [engine_of c10_step]; rewrite ?mode_is_rw; cbn [ocount ores ostate observe fst snd];
        try (rewrite step_count by exact H); rewrite ?Z.eqb_refl; auto.
      * destruct (rstate_eqb (state s) SInitial); auto. apply Z.eqb_refl.
      * destruct (is_rw s) eqn:E.
        -- destruct (step_res_setrev s v) as [_ Hx]. rewrite (Hx E). cbn. apply Z.eqb_refl.
        -- rewrite (setrev_needs_rw s v E). cbn. apply Z.eqb_refl.
    + destruct a; cbn [c10_step ocount ores ostate observe fst snd is_ok res_eqb]; rewrite ?Z.eqb_refl; auto.
      destruct (rstate_eqb (state s) SInitial); auto.
  - cbn [c10_step]. destruct (rstate_eqb (state s) SClosed); cbn [fst snd ocount observe];
      [rewrite step_count by exact H|]; apply Z.eqb_refl.
Qed.

Theorem c10_oracle_model : forall ts s x0, inv s ->
  c10_oracle (observe s x0) ts (trace s ts) = true.
Proof.
  induction ts as [|t ts IH]; intros s x0 H; cbn [trace c10_oracle]; [reflexivity|].
  pose proof (c10_step_model s x0 t H) as Hs.
  destruct (tstep s t) as [s1 x] eqn:E. cbn [fst snd] in Hs. cbn [c10_oracle].
  rewrite Hs. cbn. apply IH.
  replace s1 with (fst (tstep s t)) by (rewrite E; reflexivity). apply tstep_inv; exact H.
Qed.

(** ** C17 *)
Definition serving_st (s : st) : bool :=
  match r s with Some x => mode_eqb (rmode x) RW || mode_eqb (rmode x) WO | None => false end.

Theorem write_gate : forall s id,
  serving_st s = false -> step s (OWrite id) = (s, RErr).
Proof.
  intros s id H. unfold serving_st in H. cbn [step]. unfold with_rep.
  destruct (r s) as [x|]; [|reflexivity]. destruct x as [m c d b]; destruct m; cbn in *; try discriminate; reflexivity.
Qed.

Theorem write_applies_only_when_serving : forall s id,
  applied (fst (step s (OWrite id))) <> applied s -> serving_st s = true /\ snd (step s (OWrite id)) = ROk.
Proof.
  intros s id H. destruct (serving_st s) eqn:E.
  - split; [reflexivity|]. unfold serving_st in E. cbn [step]. unfold with_rep.
    destruct (r s) as [x|]; [|discriminate]. destruct x as [m c d b]; destruct m; cbn in *; try discriminate; reflexivity.
  - rewrite write_gate in H by exact E. cbn in H. contradiction.
Qed.

Theorem closed_no_io : forall s o, r s = None ->
  match o with OWrite _ | ORead | OSnapshot | ORemove | OPrepRemove | OSetMode _ | OSetRev _
             | OSetRebuilding _ | OReload | ORevert | OSetCheckpoint => True | _ => False end ->
  step s o = (s, RErr).
Proof.
  intros s o H Ho. destruct o; try contradiction; cbn [step]; unfold with_rep; rewrite H; reflexivity.
Qed.

Theorem remove_needs_rw : forall s, is_rw s = false ->
  step s ORemove = (s, RErr) /\ step s OPrepRemove = (s, RErr).
Proof.
  intros s H. unfold is_rw in H. cbn [step]. unfold with_rep.
  destruct (r s) as [x|]; [|split; reflexivity].
  destruct x as [m c d b]; destruct m; cbn in *; try discriminate; split; reflexivity.
Qed.

Theorem rest_gate : forall s a m v b, allowed (state s) a = false ->
  tstep s (Rest a m v b) = (s, R404).
Proof. intros s a m v b H. cbn [tstep]. rewrite H. reflexivity. Qed.

Theorem attach_only_closed : forall s,
  snd (tstep s Attach) = ROk -> state s = SClosed /\ r (fst (tstep s Attach)) <> None.
Proof.
  intros s H. cbn [tstep] in *. destruct (rstate_eqb (state s) SClosed) eqn:E; [|cbn in H; discriminate].
  unfold state in *. destruct (r s) as [x|] eqn:Hr.
  - destruct (irebuild x); [discriminate|]. destruct (idirty x); discriminate.
  - destruct (present s) eqn:Hp; [|discriminate]. split; [reflexivity|].
    cbn [step]. rewrite Hr, Hp. cbn. discriminate.
Qed.

(** between two successful attaches there is an operation that closed the replica *)
Theorem attach_once : forall s, snd (tstep s Attach) = ROk ->
  snd (tstep (fst (tstep s Attach)) Attach) = RErr.
Proof.
  intros s H. destruct (attach_only_closed s H) as [_ Hn].
  set (s1 := fst (tstep s Attach)) in *. cbn [tstep].
  unfold state. destruct (r s1) as [x|]; [|contradiction].
  destruct (irebuild x); [reflexivity|]. destruct (idirty x); reflexivity.
Qed.

(** the C17 oracle holds on every trace of the model *)
Lemma oimg_refl : forall o, oimg_eqb o o = true.
Proof.
  assert (E3 : forall l, listN_eqb l l = true) by (induction l; cbn; [reflexivity|rewrite N.eqb_refl; assumption]).
  intros [l|]; cbn; [apply E3|reflexivity].
Qed.

Lemma unchanged_refl : forall s x y, unchanged (observe s x) (observe s y) = true.
Proof.
  intros. unfold unchanged, observe; cbn.
  assert (forall t, rstate_eqb t t = true) as E1 by (destruct t; reflexivity).
  assert (forall m, omode_eqb m m = true) as E2 by (destruct m as [[]|]; reflexivity).
  rewrite E1, E2, Z.eqb_refl. cbn. apply oimg_refl.
Qed.

Lemma same_img_refl : forall s x y, same_img (observe s x) (observe s y) = true.
Proof.
  intros. unfold same_img, observe; cbn.
  match goal with |- match ?o with Some _ => _ | None => _ end = true => pose proof (oimg_refl o) as H; destruct o; [exact H|reflexivity] end.
Qed.

Lemma serving_obs : forall s x, serving (observe s x) = serving_st s.
Proof. intros. unfold serving, serving_st, mode_is, observe; cbn. destruct (r s) as [y|]; reflexivity. Qed.

Lemma is_open_obs : forall s x, is_open (observe s x) = match r s with Some _ => true | None => false end.
Proof. intros. unfold is_open, observe; cbn. destruct (r s); reflexivity. Qed.

Lemma c17_eng0_model : forall s x0 o,
  c17_eng0 (observe s x0) o (observe (fst (step s o)) (snd (step s o))) = true.
Proof.
  intros s x0 o. destruct o; cbn [c17_eng0]; auto.
  - (* open of an open replica *)
    rewrite is_open_obs. destruct (r s) eqn:Hr; [|reflexivity].
    cbn [step]. rewrite Hr. cbn [fst snd ores observe is_ok res_eqb negb andb]. apply unchanged_refl.
  - (* write *)
    rewrite serving_obs, is_open_obs. destruct (serving_st s) eqn:E.
    + unfold serving_st in E. destruct (r s); [reflexivity|discriminate].
    + rewrite write_gate by exact E. cbn [fst snd ores observe is_ok res_eqb negb andb].
      rewrite same_img_refl. destruct (r s); [reflexivity|apply unchanged_refl].
  - (* write whose data write fails *)
    cbn [step]. unfold with_rep. destruct (r s) as [x|] eqn:Hr.
    + assert (Hi : forall l, listN_eqb l l = true)
        by (induction l; cbn; [reflexivity|rewrite N.eqb_refl; assumption]).
      destruct (rmode x) eqn:Hm; cbn [fst snd set_r]; unfold same_img, observe; cbn;
        rewrite ?Hr, ?Hm; cbn; rewrite ?Hi, ?Z.eqb_refl; reflexivity.
    + cbn [fst snd]. unfold same_img, observe; cbn. rewrite Hr. cbn. rewrite Z.eqb_refl. reflexivity.
  - rewrite is_open_obs. destruct (r s) eqn:Hr; [reflexivity|].
    rewrite closed_no_io by (auto; exact I). cbn. apply unchanged_refl.
  - rewrite mode_is_rw. destruct (is_rw s) eqn:E; [reflexivity|].
    rewrite setrev_needs_rw by exact E. cbn. apply unchanged_refl.
  - rewrite mode_is_rw. destruct (is_rw s) eqn:E; [reflexivity|].
    destruct (remove_needs_rw s E) as [H1 _]. rewrite H1. cbn. apply unchanged_refl.
  - rewrite mode_is_rw. destruct (is_rw s) eqn:E; [reflexivity|].
    destruct (remove_needs_rw s E) as [_ H1]. rewrite H1. cbn. apply unchanged_refl.
  - (* open with an unparsable counter block *)
    cbn [step fst snd ores observe is_ok res_eqb negb andb]. apply unchanged_refl.
  - (* failed counter write *)
    cbn [step fst snd ores observe is_ok res_eqb negb andb]. apply unchanged_refl.
  - (* failed counter read *)
    cbn [step fst snd ores observe is_ok res_eqb negb andb]. apply unchanged_refl.
  - (* failed open *)
    cbn [step fst snd ores observe is_ok res_eqb negb andb]. apply unchanged_refl.
  - (* failed close *)
    cbn [step]. destruct (r s) as [z|] eqn:Hr; cbn [fst snd set_r];
      unfold serving, mode_is, observe; cbn; rewrite ?Hr; reflexivity.
Qed.

Lemma c17_status_model : forall s x0 o,
  c17_status (observe s x0) o (observe (fst (step s o)) (snd (step s o))) = true.
Proof.
  intros s x0 o. unfold c17_status.
  destruct (keeps_rebuild o) eqn:Hk; [|reflexivity].
  cbn [andb]. unfold observe at 1; cbn [ostate].
  destruct (rstate_eqb (state s) SRebuilding) eqn:Hst; [|reflexivity].
  cbn [andb].
  assert (Hreb : exists x, r s = Some x /\ irebuild x = true).
  { unfold state in Hst. destruct (r s) as [x|].
    - exists x. split; [reflexivity|]. destruct (irebuild x); [reflexivity|].
      destruct (idirty x); discriminate.
    - destruct (present s); discriminate. }
  destruct Hreb as [x [Hr Hreb]].
  destruct o; try discriminate Hk;
    cbn [step]; unfold with_rep; rewrite ?Hr;
    repeat match goal with
    | |- context [match rmode x with _ => _ end] => destruct (rmode x)
    | |- context [match ?m with INIT => _ | _ => _ end] => destruct m
    | |- context [if present s then _ else _] => destruct (present s)
    end;
    cbn [fst snd set_r]; unfold is_open, observe, state; cbn; rewrite ?Hr; cbn; rewrite ?Hreb; reflexivity.
Qed.

Lemma c17_eng_model : forall s x0 o,
  c17_eng (observe s x0) o (observe (fst (step s o)) (snd (step s o))) = true.
Proof.
  intros s x0 o. unfold c17_eng. rewrite c17_eng0_model, c17_status_model. reflexivity.
Qed.

Lemma c17_step_model : forall s x0 t,
  c17_step (observe s x0) t (observe (fst (tstep s t)) (snd (tstep s t))) = true.
Proof.
  intros s x0 t. destruct t as [o|a m v b|]; cbn [c17_step tstep].
  - apply c17_eng_model.
  - cbn [ostate observe]. destruct (allowed (state s) a) eqn:Ea.
    + destruct (engine_of a m v b); [apply c17_eng_model|reflexivity].
    + cbn. apply unchanged_refl.
  - destruct (rstate_eqb (state s) SClosed) eqn:E.
    + assert (Hr : r s = None /\ present s = true).
      { unfold state in E. destruct (r s) as [x|].
        - destruct (irebuild x); [discriminate|]. destruct (idirty x); discriminate.
        - destruct (present s); [auto|discriminate]. }
      destruct Hr as [Hr Hp]. cbn [step]. rewrite Hr, Hp. cbn.
      unfold state. rewrite Hr, Hp. cbn.
      destruct (drebuild s); [reflexivity|]. destruct (ddirty s); reflexivity.
    + cbn. apply unchanged_refl.
Qed.

Theorem c17_oracle_model : forall ts s x0,
  c17_oracle (observe s x0) ts (trace s ts) = true.
Proof.
  induction ts as [|t ts IH]; intros s x0; cbn [trace c17_oracle]; [reflexivity|].
  pose proof (c17_step_model s x0 t) as Hs.
  destruct (tstep s t) as [s1 x] eqn:E. cbn [fst snd] in Hs. cbn [c17_oracle].
  rewrite Hs. cbn. apply IH.
Qed.

(** non-vacuity: a concrete run that exercises RW writes, WO writes, refusal, crash and reopen *)
Example ex_hist : list top :=
  [Eng OCreate; Eng OOpen; Eng (OWrite 1); Eng (OSetMode RW); Eng (OWrite 2); Eng (OWrite 3);
   Eng (OSetMode WO); Eng (OWrite 4); Eng (OWriteCrash 5); Eng OOpen; Eng (OSetMode RW); Eng (OWrite 6);
   Rest AClose RW 0 false; Attach; Attach].
Example ex_counts : dcount (fst (run init ex_hist)) = 4 /\ rw_acks init ex_hist = 3 /\ no_setrev (tl ex_hist) = true.
Proof. vm_compute. repeat split. Qed.
