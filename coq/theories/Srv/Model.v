(** * Srv: replica.Server / replica.Replica gate logic, revision counter, REST action table.

    Hand-written transcription of
      replica/server.go        (nil checks, Status, Open/Close/Create/Reload/SetRebuilding/...)
      replica/replica.go       (WriteAt mode rule, RemoveDiffDisk/PrepareRemoveDisk mode rule, SetReplicaMode,
                                Snapshot, SetCheckpoint, close)
      replica/revision_counter.go
      replica/rest/model.go    (state -> allowed actions)     replica/rest/router.go (checkAction)
      backend/remote/remote.go (Factory.Create: state must be "closed", then open)
    Data is abstracted to the list of write ids that reached the head file; snapshot content to the
    list that was applied when the snapshot was taken.  No proofs in this file. *)
From Coq Require Import List ZArith Bool Arith.
Import ListNotations.
Open Scope Z_scope.

Inductive mode := INIT | RW | WO | CLOSED.
Inductive rstate := SInitial | SOpen | SClosed | SDirty | SRebuilding | SError.
Inductive res := ROk | RErr | R404.

Definition mode_eqb (a b : mode) : bool :=
  match a, b with INIT, INIT | RW, RW | WO, WO | CLOSED, CLOSED => true | _, _ => false end.
Definition rstate_eqb (a b : rstate) : bool :=
  match a, b with
  | SInitial, SInitial | SOpen, SOpen | SClosed, SClosed | SDirty, SDirty
  | SRebuilding, SRebuilding | SError, SError => true
  | _, _ => false end.
Definition res_eqb (a b : res) : bool :=
  match a, b with ROk, ROk | RErr, RErr | R404, R404 => true | _, _ => false end.

(** in-memory Replica *)
Record rep := mkrep { rmode : mode; cache : Z; idirty : bool; irebuild : bool }.

Record st := mkst {
  present  : bool;            (* volume.meta exists *)
  r        : option rep;      (* Server.r *)
  dcount   : Z;               (* revision.counter on disk *)
  ddirty   : bool;            (* volume.meta Dirty *)
  drebuild : bool;            (* volume.meta Rebuilding *)
  applied  : list N;          (* write ids whose data reached the live image, oldest first *)
  snaps    : list (list N)    (* content captured by each chain snapshot, latest first *)
}.

Definition init : st := mkst false None 1 false false [] [].

(** Server.Status *)
Definition state (s : st) : rstate :=
  match r s with
  | None => if present s then SClosed else SInitial
  | Some x => if irebuild x then SRebuilding else if idirty x then SDirty else SOpen
  end.

Inductive op :=
| OCreate | OOpen | OClose | OCrash
| OWrite (id : N)
| OWriteCrash (id : N)        (* process dies between the data write and the counter write *)
| OWriteFail (id : N)         (* the data write fails in the file system (EIO / ENOSPC / EBADF): nothing is applied *)
| ORead
| OSetMode (m : mode)         (* INIT / CLOSED stand for an invalid mode string *)
| OSetRev (v : Z)
| OSnapshot
| ORemove                     (* RemoveDiffDisk of the snapshot just below the latest one (after a fold),
                                 or of the latest one when there is none *)
| OPrepRemove                 (* PrepareRemoveDisk, same target rule *)
| OSetRebuilding (b : bool)
| OReload
| ORevert                     (* Revert to the latest snapshot (bogus name when there is none) *)
| OSetCheckpoint
| OOpenBadCounter             (* Server.Open while the counter block does not parse: refused, nothing kept *)
| OSetRevFail (v : Z)         (* SetRevisionCounter whose write of the counter block fails: refused, cache and file keep the old value *)
| OGetRevFail                 (* Replica.GetRevisionCounter while the counter block cannot be read: answers -1, keeps everything *)
| OOpenFail                   (* Server.Open whose last step, the rewrite of volume.meta, fails: refused, nothing kept *)
| OCloseFail.                 (* Server.Close whose final metadata write fails: the replica's files are closed and
                                 its mode is CLOSED, but the Server keeps the instance and reports the error *)

Definition set_r (s : st) (x : option rep) : st :=
  mkst (present s) x (dcount s) (ddirty s) (drebuild s) (applied s) (snaps s).

Definition with_rep (s : st) (f : rep -> st * res) : st * res :=
  match r s with None => (s, RErr) | Some x => f x end.

Definition step (s : st) (o : op) : st * res :=
  match o with
  | OCreate =>
      match state s with
      | SInitial => (mkst true None 1 false false [] [], ROk)
      | _ => (s, ROk)
      end
  | OOpen =>
      match r s with
      | Some _ => (s, RErr)
      | None =>
          if present s
          then (mkst true (Some (mkrep INIT (dcount s) (ddirty s) (drebuild s)))
                     (dcount s) true (drebuild s) (applied s) (snaps s), ROk)
          else (s, RErr)
      end
  | OClose =>
      match r s with
      | None => (s, ROk)
      | Some x => (mkst (present s) None (dcount s) false (irebuild x) (applied s) (snaps s), ROk)
      end
  | OCrash => (set_r s None, ROk)
  | OWrite id =>
      with_rep s (fun x =>
        (* Replica.WriteAt tests the mode first; a refused write changes nothing *)
        let x' := mkrep (rmode x) (cache x) true (irebuild x) in
        match rmode x with
        | RW => (mkst (present s) (Some (mkrep RW (cache x + 1) true (irebuild x)))
                      (cache x + 1) (ddirty s) (drebuild s) (applied s ++ [id]) (snaps s), ROk)
        | WO => (mkst (present s) (Some x') (dcount s) (ddirty s) (drebuild s)
                      (applied s ++ [id]) (snaps s), ROk)
        | _  => (s, RErr)
        end)
  | OWriteFail id =>
      with_rep s (fun x =>
        (* Replica.WriteAt: mode test, Dirty := true in memory, volume.WriteAt fails, error returned *)
        match rmode x with
        | RW | WO => (set_r s (Some (mkrep (rmode x) (cache x) true (irebuild x))), RErr)
        | _ => (s, RErr)
        end)
  | OWriteCrash id =>
      with_rep s (fun x =>
        match rmode x with
        | RW | WO =>
            (mkst (present s) None (dcount s) (ddirty s) (drebuild s) (applied s ++ [id]) (snaps s), ROk)
        | _ => (set_r s None, ROk)
        end)
  | ORead => with_rep s (fun _ => (s, ROk))
  | OSetMode m =>
      with_rep s (fun x =>
        match m with
        | RW | WO => (set_r s (Some (mkrep m (cache x) (idirty x) (irebuild x))), ROk)
        | _ => (s, RErr)
        end)
  | OSetRev v =>
      with_rep s (fun x =>
        match rmode x with
        | RW => (mkst (present s) (Some (mkrep RW v (idirty x) (irebuild x)))
                      v (ddirty s) (drebuild s) (applied s) (snaps s), ROk)
        | _ => (s, RErr)
        end)
  | OSnapshot =>
      with_rep s (fun x =>
        (mkst (present s) (Some (mkrep (rmode x) (cache x) true (irebuild x)))
              (dcount s) true (irebuild x) (applied s) (applied s :: snaps s), ROk))
  | ORemove =>
      with_rep s (fun x =>
        match rmode x with
        | RW => match snaps s with
                | a :: b :: c :: rest =>
                    (mkst (present s) (r s) (dcount s) (ddirty s) (drebuild s) (applied s)
                          (a :: c :: rest), ROk)
                | [] => (s, ROk)          (* unknown name: removeDiskNode and rmDisk are no-ops *)
                | _ => (s, RErr)
                end
        | _ => (s, RErr)
        end)
  | OPrepRemove =>
      with_rep s (fun x =>
        match rmode x with
        | RW => match snaps s with
                | a :: b :: c :: rest => (s, ROk)
                | [] => (s, ROk)          (* unknown name: (nil, nil) *)
                | _ => (s, RErr)
                end
        | _ => (s, RErr)
        end)
  | OSetRebuilding b =>
      with_rep s (fun x =>
        let stt := state s in
        if (b && negb (rstate_eqb stt SOpen) && negb (rstate_eqb stt SDirty))
           || (negb b && negb (rstate_eqb stt SRebuilding))
        then (s, RErr)
        else (mkst (present s) (Some (mkrep (rmode x) (cache x) (idirty x) b))
                   (dcount s) true b (applied s) (snaps s), ROk))
  | OReload =>
      with_rep s (fun x =>
        (* New(...) writes Dirty=true, then the old instance's Close writes Dirty=false *)
        (mkst (present s) (Some (mkrep (rmode x) (dcount s) (idirty x) (drebuild s)))
              (dcount s) false (irebuild x) (applied s) (snaps s), ROk))
  | ORevert =>
      with_rep s (fun x =>
        match snaps s with
        | [] => (s, RErr)
        | a :: _ =>
            (mkst (present s) (Some (mkrep (rmode x) (dcount s) (idirty x) (irebuild x)))
                  (dcount s) true (irebuild x) a (snaps s), ROk)
        end)
  | OSetCheckpoint =>
      with_rep s (fun x =>
        (mkst (present s) (r s) (dcount s) (idirty x) (irebuild x) (applied s) (snaps s), ROk))
  | OOpenBadCounter => (s, RErr)
  | OSetRevFail _ => (s, RErr)
  | OGetRevFail => (s, RErr)
  | OOpenFail => (s, RErr)
  | OCloseFail =>
      match r s with
      | None => (s, ROk)
      | Some x => (set_r s (Some (mkrep CLOSED (cache x) (idirty x) (irebuild x))), RErr)
      end
  end.

(** ** REST layer: action table of replica/rest/model.go and the checkAction gate *)
Inductive action :=
| AStart | ACreate | AOpen | AClose | AResize | ASnapshot | AReload | ARemovedisk | AReplacedisk
| ARevert | APrepareremovedisk | ASetreplicamode | ASetrevisioncounter | ASetrebuilding
| ASetlogging | AUpdatecloneinfo | ASetcheckpoint.

Definition all_actions : list action :=
  [AStart; ACreate; AOpen; AClose; AResize; ASnapshot; AReload; ARemovedisk; AReplacedisk;
   ARevert; APrepareremovedisk; ASetreplicamode; ASetrevisioncounter; ASetrebuilding;
   ASetlogging; AUpdatecloneinfo; ASetcheckpoint].

Definition allowed (t : rstate) (a : action) : bool :=
  match t with
  | SInitial => match a with AStart | ACreate | AResize | AUpdatecloneinfo => true | _ => false end
  | SOpen => match a with
             | AStart | AResize | AClose | ASetrebuilding | ASetlogging | ASnapshot | AReload
             | ARemovedisk | AReplacedisk | ARevert | APrepareremovedisk | ASetreplicamode
             | ASetrevisioncounter | AUpdatecloneinfo | ASetcheckpoint => true
             | _ => false end
  | SClosed => match a with
               | AStart | AOpen | AResize | ARemovedisk | AReplacedisk | ARevert | AUpdatecloneinfo
               | APrepareremovedisk => true
               | _ => false end
  | SDirty => match a with
              | AStart | AResize | ASetrebuilding | ASetlogging | AClose | ASnapshot | AReload
              | ARemovedisk | AReplacedisk | ARevert | ASetreplicamode | APrepareremovedisk
              | AUpdatecloneinfo | ASetcheckpoint => true
              | _ => false end
  | SRebuilding => match a with
                   | ASetrebuilding | ASetlogging | AClose | AReload | ASetreplicamode
                   | ASetrevisioncounter | AUpdatecloneinfo | ASetcheckpoint => true
                   | _ => false end
  | SError => false
  end.

(** the engine operation a routed action performs (valid body); [None]: not modelled beyond the gate *)
Definition engine_of (a : action) (m : mode) (v : Z) (b : bool) : option op :=
  match a with
  | ACreate => Some OCreate | AOpen => Some OOpen | AClose => Some OClose
  | ASnapshot => Some OSnapshot | AReload => Some OReload | ARemovedisk => Some ORemove
  | ARevert => Some ORevert | APrepareremovedisk => Some OPrepRemove
  | ASetreplicamode => Some (OSetMode m) | ASetrevisioncounter => Some (OSetRev v)
  | ASetrebuilding => Some (OSetRebuilding b) | ASetcheckpoint => Some OSetCheckpoint
  | AStart | AResize | AReplacedisk | ASetlogging | AUpdatecloneinfo => None
  end.

Inductive top :=
| Eng (o : op)                                   (* direct call of a replica.Server method *)
| Rest (a : action) (m : mode) (v : Z) (b : bool) (* POST /v1/replicas/1?action=a through the router *)
| Attach.                                         (* remote.Factory.Create *)

Definition tstep (s : st) (t : top) : st * res :=
  match t with
  | Eng o => step s o
  | Rest a m v b =>
      if allowed (state s) a
      then match engine_of a m v b with
           | Some o => step s o
           | None => (s, ROk)       (* never generated by the harness in an allowed state *)
           end
      else (s, R404)
  | Attach =>
      if rstate_eqb (state s) SClosed then step s OOpen else (s, RErr)
  end.

Fixpoint run (s : st) (ts : list top) : st * list res :=
  match ts with
  | [] => (s, [])
  | t :: ts' => let '(s1, x) := tstep s t in
                let '(s2, xs) := run s1 ts' in (s2, x :: xs)
  end.

Fixpoint states (s : st) (ts : list top) : list st :=
  match ts with
  | [] => []
  | t :: ts' => let s1 := fst (tstep s t) in s1 :: states s1 ts'
  end.

(** number of writes acknowledged while RW in a run *)
Definition is_rw (s : st) : bool :=
  match r s with Some x => mode_eqb (rmode x) RW | None => false end.

Definition counted (s : st) (t : top) : Z :=
  match t with
  | Eng (OWrite _) => if is_rw s then 1 else 0
  | _ => 0
  end.

Fixpoint rw_acks (s : st) (ts : list top) : Z :=
  match ts with
  | [] => 0
  | t :: ts' => counted s t + rw_acks (fst (tstep s t)) ts'
  end.

Definition sets_rev (t : top) : bool :=
  match t with
  | Eng (OSetRev _) | Eng OCreate | Rest ASetrevisioncounter _ _ _ | Rest ACreate _ _ _ => true
  | _ => false
  end.
