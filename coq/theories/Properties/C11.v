(** C11 -- deleting a snapshot (merge into the parent, unlink) never changes what the live volume reads
    nor any other retained user-created snapshot; head, latest and base are never accepted; the cleaner
    never selects the checkpoint or anything newer, a retained user-created snapshot, or a snapshot whose
    merge target is one.  Model: Block.  Only statements here.
    (The controller's gate for user requests is the Ctl model's half.) *)
From Coq Require Import List Arith Bool NArith.
From Jiva Require Import Block.Model Block.Corr Block.Lemmas Block.ProofsWrite Block.ProofsUnit Block.ProofsRead
     Block.ProofsOps Block.ProofsPreload Block.Refine Block.Proofs Block.OracleProofs.
Import ListNotations.

Theorem C11_delete_preserves : forall K d name, inv K d ->
  let i := find_name d name (nf d) in
  2 <= i -> S i < nf d -> (usr d (i - 1) = true -> rmd d (i - 1) = true) ->
  exists d1, delete d name = (d1, ROk) /\ inv K d1 /\ nf d1 = nf d - 1 /\ nblk d1 = nblk d /\
    image K d1 (nf d1) = image K d (nf d) /\
    (forall k, 1 <= k < i - 1 -> image K d1 k = image K d k /\ nm d1 k = nm d k) /\
    (forall k, i <= k -> image K d1 k = image K d (S k) /\ nm d1 k = nm d (S k)) /\
    nm d1 (i - 1) = nm d (i - 1).
Proof. exact delete_preserves. Qed.

(** In terms of the specification: a deletion keeps the live image and drops exactly one entry of the
    snapshot table; every other retained entry keeps its recorded image (this is the Delete case of the
    refinement step, so it composes with every other operation). *)
Theorem C11_delete_refines : forall K d s name ch d1 x s1 r data,
  0 < K -> inv K d -> Rel K d s ->
  step true K d (Delete name) ch = (d1, x) ->
  spec_step K s (Delete name) (ores x, image K d1 (nf d1)) = Some (s1, r, data) ->
  inv K d1 /\ Rel K d1 s1 /\ ores x = r /\ live s1 = live s.
Proof. exact delete_refines. Qed.

Theorem C11_protected_refused : forall d name,
  let i := find_name d name (nf d) in
  i <> 0 -> (i = nf d \/ S i = nf d \/ i = 1) ->
  prep_remove d name = (d, RErr) /\ delete d name = (d, RErr).
Proof. exact protected_refused. Qed.

Theorem C11_raw_remove_refuses_head_and_latest : forall d name,
  let i := find_name d name (nf d) in
  i <> 0 -> (i = nf d \/ S i = nf d) -> remove d name = (d, RErr).
Proof. exact raw_remove_refuses_head_and_latest. Qed.

Theorem C11_cleaner_filter : forall d cp name, In name (candidates d cp) ->
  exists c k, cp = Some c /\ find_name d c (nf d) <> 0 /\
    2 <= k < find_name d c (nf d) /\ nm d k = name /\
    retained_user d k = false /\ retained_user d (k - 1) = false /\
    (find_name d c (nf d) < nf d -> S k < nf d).
Proof. exact cleaner_filter. Qed.

Theorem C11_cleaner_needs_checkpoint : forall d, candidates d None = [].
Proof. exact cleaner_no_checkpoint. Qed.

Theorem C11_cleaner_low_checkpoint : forall d c, find_name d c (nf d) <= 2 -> candidates d (Some c) = [].
Proof. exact cleaner_low_checkpoint. Qed.

(** S7 decided: the raw RemoveDiffDisk (REST action removedisk) accepts the base snapshot and the live
    image changes -- "the base snapshot is never accepted" holds only behind PrepareRemoveDisk. *)
Theorem C11_raw_remove_accepts_base_refuted :
  let d := fst (run true 1 (init 8 false) s7_history) in
  find_name d 1%N (nf d) = 1 /\ snd (remove_g false d 1%N) = ROk /\
  image 1 (fst (remove_g false d 1%N)) (nf (fst (remove_g false d 1%N))) <> image 1 d (nf d).
Proof. exact S7_raw_remove_accepts_base. Qed.

(** ... and with the guard of the proposed patch ([Model.s7_guard] = true) it is refused. *)
Theorem C11_raw_remove_guarded_refuses_base : forall d name,
  find_name d name (nf d) = 1 -> remove_g true d name = (d, RErr).
Proof. exact raw_remove_guarded_refuses_base. Qed.

(** One pass of the background cleaner's loop body (sync.InternalSnapshotCleaner: candidate list, first
    candidate, PrepareRemoveDisk, merge by the sync agent, RemoveDiffDisk), whatever the sync agent answers to
    the merge request: the live image is unchanged; every retained user-created snapshot is still a retained
    member with the same name and image; when the merge failed the chain and all files are exactly as before
    (the snapshot is still a member, only marked Removed), and a failure is only ever reported in that case. *)
Theorem C11_cleaner_pass_preserves : forall K d c victim fail, inv K d -> c <> 0%N ->
  let '(d1, r) := clean d (Some c) victim fail in
  inv K d1 /\ nblk d1 = nblk d /\ image K d1 (nf d1) = image K d (nf d) /\
  (forall k, 1 <= k < nf d -> usr d k = true -> rmd d k = false ->
     exists k', 1 <= k' < nf d1 /\ nm d1 k' = nm d k /\ usr d1 k' = true /\ rmd d1 k' = false /\
                image K d1 k' = image K d k) /\
  (fail = true -> nf d1 = nf d /\ nm d1 = nm d /\ fl d1 = fl d) /\
  (r = RErr -> fail = true /\ In victim (candidates d (Some c))).
Proof. exact clean_preserves. Qed.

(** The executable statement of C11 on observed traces (the oracle evaluated on the implementation's
    observations: around every PrepareRemoveDisk / deletion / raw remove / candidate query / pass of the
    background cleaner (merge performed or failed by the sync agent) the live image,
    the chain and every other retained user-created snapshot are as the property says) holds on every
    trace of the model whose operations stay inside the specification's domain: no raw fold, no raw
    remove of a base or middle member, no deletion that merges into a retained user-created snapshot,
    fresh snapshot names, the checkpoint is not the head. *)
Theorem C11_oracle_holds_on_model : forall K nb p rv (h : list (op * list bool)), 0 < K ->
  in_dom K (spec0 (mkcfg K nb p rv)) (map fst h) (trace true K rv (init nb p) h) = true ->
  c11_oracle (mkcfg K nb p rv) (map fst h) (trace true K rv (init nb p) h) = true.
Proof. exact c11_oracle_model. Qed.

Print Assumptions C11_oracle_holds_on_model.
Print Assumptions C11_cleaner_pass_preserves.
Print Assumptions C11_delete_preserves.
Print Assumptions C11_delete_refines.
Print Assumptions C11_protected_refused.
Print Assumptions C11_raw_remove_refuses_head_and_latest.
Print Assumptions C11_cleaner_filter.
Print Assumptions C11_cleaner_needs_checkpoint.
Print Assumptions C11_cleaner_low_checkpoint.
Print Assumptions C11_raw_remove_accepts_base_refuted.
Print Assumptions C11_raw_remove_guarded_refuses_base.
