(** C18 — controller membership bookkeeping is internally consistent.
    Model: Ctl.  Only statements here. *)
From Coq Require Import List ZArith Bool Arith.
From Jiva Require Import Ctl.Model Ctl.Proofs Ctl.Props.
Import ListNotations.

(** In every state reachable by any history of register / start / add-check / add-commit / verify /
    remove / set-mode / monitor / I/O / snapshot / resize events (duplicates and unknown addresses
    included, any fault script; start requests naming at most one replica, as jiva replicas send them):
    no address twice; the backend map the I/O goes to has exactly the entries and modes of the replica
    list; never more replicas than the replication factor; at most one rebuilding (WO) replica; the
    readers-available flag agrees with the backend map; the registration map has no duplicate. *)
Theorem C18_structure_invariant : forall (es : list event) (rf0 : nat) (w0 : world),
  (1 <= rf0)%nat -> forallb ev_wf es = true -> struct_ok (run (init rf0 w0) es).
Proof. exact struct_reachable. Qed.

Theorem C18_structure_preserved_by_every_event : forall s e, struct_ok s -> ev_wf e = true ->
  struct_ok (fst (fst (step s e))).
Proof. exact struct_step. Qed.

(** the reported RW count equals the number of RW entries, after every event *)
Theorem C18_rw_count_exact : forall (es : list event) (rf0 : nat) (w0 : world),
  (1 <= rf0)%nat -> rwc (run (init rf0 w0) es) = count_rw (replicas (run (init rf0 w0) es)).
Proof. intros es rf0 w0 H. exact (proj1 (status_reachable es rf0 w0 H)). Qed.

(** a replica enters the list only through add-commit (itself) or a start on an empty list; every
    other event can only remove entries or change modes *)
Theorem C18_enter_only_by_add_or_start : forall s e x,
  In x (keys (replicas (fst (fst (step s e))))) -> ~ In x (keys (replicas s)) ->
  match e with AddCommit a _ => x = a | Start _ _ => replicas s = [] | _ => False end.
Proof. exact enter_only_by_add_or_start. Qed.

Print Assumptions C18_structure_invariant.
Print Assumptions C18_structure_preserved_by_every_event.
Print Assumptions C18_rw_count_exact.
Print Assumptions C18_enter_only_by_add_or_start.

(** *** the trace oracle of C18 accepts every trace of the model (Ctl/OracleProofs18.v) *)
From Jiva Require Import Ctl.Corr Ctl.Oracles Ctl.OracleProofs2 Ctl.OracleProofs18.

(** only replicas in service (attached and not marked failed) receive the calls of I/O, snapshot and
    resize requests: the scripted replica of every other address is unchanged *)
Theorem C18_calls_only_in_service : forall s e x, is_call e = true -> ~ In x (writers s) ->
  wget (w (fst (fst (step s e)))) x = wget (w s) x.
Proof. exact calls_only_in_service. Qed.

Theorem C18_oracle_holds_on_model : forall es rf0 n w0 qs, (1 <= rf0)%nat -> forallb ev_wf es = true ->
  forallb (ev_addrs_lt n) es = true ->
  walk_q (fun q => lift (c18_step rf0 q) (fun prev a b cur => c18_step rf0 q prev (SetMode 0%nat WO) cur))
         0 (obs0 rf0 n w0) (map One es) (trace n (init rf0 w0) (map One es)) qs = None.
Proof. exact c18_oracle_model_init. Qed.

Print Assumptions C18_calls_only_in_service.
Print Assumptions C18_oracle_holds_on_model.

(** *** ... histories with concurrent pairs included (Ctl/OracleProofsX18.v) *)
From Jiva Require Import Ctl.OracleProofsX18.

Theorem C18_oracle_holds_on_model_with_pairs : forall xs rf0 n w0 qs, (1 <= rf0)%nat ->
  forallb (x_all ev_wf) xs = true -> forallb (x_all (ev_addrs_lt n)) xs = true ->
  walk_q (fun q => lift (c18_step rf0 q) (fun prev a b cur => c18_step rf0 q prev (SetMode 0%nat WO) cur))
         0 (obs0 rf0 n w0) xs (trace n (init rf0 w0) xs) qs = None.
Proof. exact c18_oracle_model_x_init. Qed.

Print Assumptions C18_oracle_holds_on_model_with_pairs.
