(** C18 — controller membership bookkeeping is internally consistent.
    Model: Ctl.  Only statements here. *)
From Coq Require Import List ZArith Bool Arith.
From Jiva Require Import Ctl.Model Ctl.Proofs Ctl.Props.
Import ListNotations.

(** In every state reachable by any history of register / start / add-check / add-commit / verify /
    remove / set-mode / monitor / I/O / snapshot / resize events (duplicates and unknown addresses
    included, any fault script; start requests naming at most one replica, as jiva replicas send them):
    no address twice; the backend map the I/O goes to has exactly the entries and modes of the replica
    list; never more replicas than the replication factor; at most one rebuilding (WO) replica; the
    readers-available flag agrees with the backend map; the registration map has no duplicate. *)
Theorem C18_structure_invariant : forall (es : list event) (rf0 : nat) (w0 : world),
  (1 <= rf0)%nat -> forallb ev_wf es = true -> struct_ok (run (init rf0 w0) es).
Proof. exact struct_reachable. Qed.

Theorem C18_structure_preserved_by_every_event : forall s e, struct_ok s -> ev_wf e = true ->
  struct_ok (fst (fst (step s e))).
Proof. exact struct_step. Qed.

(** the reported RW count equals the number of RW entries, after every event *)
Theorem C18_rw_count_exact : forall (es : list event) (rf0 : nat) (w0 : world),
  (1 <= rf0)%nat -> rwc (run (init rf0 w0) es) = count_rw (replicas (run (init rf0 w0) es)).
Proof. intros es rf0 w0 H. exact (proj1 (status_reachable es rf0 w0 H)). Qed.

(** a replica enters the list only through add-commit (itself) or a start on an empty list; every
    other event can only remove entries or change modes *)
Theorem C18_enter_only_by_add_or_start : forall s e x,
  In x (keys (replicas (fst (fst (step s e))))) -> ~ In x (keys (replicas s)) ->
  match e with AddCommit a _ => x = a | Start _ _ => replicas s = [] | _ => False end.
Proof. exact enter_only_by_add_or_start. Qed.

Print Assumptions C18_structure_invariant.
Print Assumptions C18_structure_preserved_by_every_event.
Print Assumptions C18_rw_count_exact.
Print Assumptions C18_enter_only_by_add_or_start.
