(** C10 — the revision counter counts applied RW writes exactly and never goes back.
    Model: Srv (replica.Server / Replica.WriteAt / revision_counter.go).  Only statements here. *)
From Coq Require Import List ZArith Bool.
From Jiva Require Import Srv.Model Srv.Corr Srv.Proofs.
Import ListNotations.
Open Scope Z_scope.

(** Over every history of server operations, REST actions, attaches, crashes (also in the middle of a
    write) and reopen events that contains no explicit set-revision-counter / create:
    persisted counter = initial + number of writes acknowledged while RW. *)
Theorem C10_counts_exactly : forall (ts : list top) (s : st), inv s -> no_setrev ts = true ->
  dcount (fst (run s ts)) = dcount s + rw_acks s ts.
Proof. exact counts_exact. Qed.

Theorem C10_never_decreases : forall (ts : list top) (s : st), inv s -> no_setrev ts = true ->
  dcount s <= dcount (fst (run s ts)).
Proof. exact never_decreases. Qed.

Theorem C10_rw_write_adds_one : forall s id, inv s -> is_rw s = true ->
  dcount (fst (step s (OWrite id))) = dcount s + 1 /\ snd (step s (OWrite id)) = ROk.
Proof. exact write_rw_adds_one. Qed.

Theorem C10_rebuilding_or_refused_write_keeps : forall s id, inv s -> is_rw s = false ->
  dcount (fst (step s (OWrite id))) = dcount s.
Proof. exact write_not_rw_keeps. Qed.

Theorem C10_close_reopen_crash_keep : forall s o, inv s ->
  match o with OCrash | OClose | OOpen | OWriteCrash _ | OReload => True | _ => False end ->
  dcount (fst (step s o)) = dcount s.
Proof. exact crash_close_open_keep. Qed.

Theorem C10_set_needs_rw : forall s v, is_rw s = false -> step s (OSetRev v) = (s, RErr).
Proof. exact setrev_needs_rw. Qed.

(** The executable statement of C10 on observed traces (the oracle the correspondence run evaluates
    on the implementation's observations) holds on every trace of the model. *)
Theorem C10_oracle_holds_on_model : forall ts, c10_oracle obs0 ts (trace init ts) = true.
Proof. intro ts. exact (c10_oracle_model ts init ROk inv_init). Qed.

Print Assumptions C10_counts_exactly.
Print Assumptions C10_never_decreases.
Print Assumptions C10_rw_write_adds_one.
Print Assumptions C10_rebuilding_or_refused_write_keeps.
Print Assumptions C10_close_reopen_crash_keep.
Print Assumptions C10_set_needs_rw.
Print Assumptions C10_oracle_holds_on_model.
