(** C03 — writes are accepted only while a quorum of replicas is RW; otherwise read-only.
    Model: Ctl (controller event machine).  Only statements here. *)
From Coq Require Import List ZArith Bool Arith.
From Jiva Require Import Ctl.Model Ctl.Corr Ctl.Oracles Ctl.Proofs Ctl.RfConst Ctl.OracleProofs.
Import ListNotations.

(** After every sequence of register / start / add / verify / remove / set-mode / monitor / I/O /
    snapshot / resize events with any fault script, for every replication factor >= 1: the read-only
    flag and the RW count are exactly what the replica list implies (re-evaluated at every change). *)
Theorem C03_status_always_reevaluated : forall (es : list event) (rf0 : nat) (w0 : world),
  (1 <= rf0)%nat -> status_ok (run (init rf0 w0) es).
Proof. exact status_reachable. Qed.

Theorem C03_status_preserved_by_every_event : forall s e, status_ok s -> status_ok (fst (fst (step s e))).
Proof. exact status_step. Qed.

(** Below floor(RF/2)+1 RW replicas a write, flush or unmap is refused and nothing at all changes
    (no replica is called: the state, which contains every replica's log, is identical). *)
Theorem C03_gate_refuses_without_quorum : forall s e, status_ok s -> is_mut_io e = true ->
  (count_rw (replicas s) < quorum (rf s))%nat -> step s e = (s, RRefused, noeff).
Proof. exact gate_refuses. Qed.

(** Once a quorum exists (after whatever changes) the gate lets mutating I/O through again. *)
Theorem C03_gate_opens_with_quorum : forall s e, status_ok s -> is_mut_io e = true ->
  (quorum (rf s) <= count_rw (replicas s))%nat -> snd (fst (step s e)) <> RRefused.
Proof. exact gate_opens. Qed.

(** the configured replication factor is never changed by any event *)
Theorem C03_rf_constant : forall s e, rf (fst (fst (step s e))) = rf s.
Proof. exact rf_step. Qed.

(** the executable statement of C03 that the correspondence run evaluates on the implementation's
    observations accepts every trace of the model (histories of single requests) *)
Theorem C03_oracle_holds_on_model : forall es rf0 n w0, (1 <= rf0)%nat ->
  walk (lift (c03_step rf0) (c03_pair rf0)) 0 (obs0 rf0 n w0) (map One es) (trace n (init rf0 w0) (map One es)) = None.
Proof. exact c03_oracle_model_init. Qed.

Print Assumptions C03_status_always_reevaluated.
Print Assumptions C03_rf_constant.
Print Assumptions C03_oracle_holds_on_model.
Print Assumptions C03_status_preserved_by_every_event.
Print Assumptions C03_gate_refuses_without_quorum.
Print Assumptions C03_gate_opens_with_quorum.

(** histories with concurrent pairs ([Two a b]: b issued while a is in flight).  The pair rule applies its
    refusal clause only when the first write lies inside the volume; "nobody holds wid2" presupposes write
    ids that are fresh when issued ([fresh_wid]; [c03_pair_needs_fresh_write_ids] shows it is needed) *)
From Jiva Require Import Ctl.Model Ctl.Corr Ctl.Oracles Ctl.Proofs Ctl.OracleProofs2 Ctl.OracleProofsX Ctl.OracleProofsX2.

Theorem C03_oracle_accepts_model_traces_with_pairs : forall xs rf0 n w0, (1 <= rf0)%nat -> forallb xev_wf xs = true ->
  hist_ok fresh_wid (init rf0 w0) (flatten xs) ->
  walk (lift (c03_step rf0) (c03_pair rf0)) 0 (obs0 rf0 n w0) xs (trace n (init rf0 w0) xs) = None.
Proof. exact c03_oracle_model_x. Qed.

Print Assumptions C03_oracle_accepts_model_traces_with_pairs.
