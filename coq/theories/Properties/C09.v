(** C09 — bootstrap elects the most up-to-date replica after a majority registered.   Model: Ctl. *)
From Coq Require Import List ZArith Bool Arith.
From Jiva Require Import Ctl.Model Ctl.Proofs Ctl.Props.
Import ListNotations.
Open Scope Z_scope.

(** a registration sends a start signal only when no replica is attached and floor(RF/2)+1 replicas
    are registered, sends at most one, and its target is a registered replica whose revision count is
    maximal among the registered replicas that are not rebuilding *)
Theorem C09_signal_rule : forall s a u r pick fs s' res ef m,
  struct_ok s ->
  do_register s a u r false pick fs = (s', res, ef) -> In (m, true) (e_signals ef) ->
  replicas s = []
  /\ exists s4, (quorum (rf s) <= length (registered s4))%nat
     /\ maxrev s4 = Some m
     /\ (forall q, In q (candidates s4) -> rg_rev (snd q) <= reg_rev s4 (Some m))
     /\ e_signals ef = [(m, true)].
Proof. exact register_signal_rule. Qed.

(** only the signalled replica can start the volume *)
Theorem C09_only_signalled_leader_starts : forall s addrs fs,
  replicas s = [] -> snd (fst (do_start s addrs fs)) = ROk -> addrs <> [] ->
  signalled s = true /\ exists a t, addrs = a :: t /\ maxrev s = Some a.
Proof. exact start_only_signalled_leader. Qed.

Theorem C09_other_start_refused_unchanged : forall s addrs fs,
  replicas s = [] -> (signalled s = false \/ match addrs with a :: _ => maxrev s <> Some a | [] => False end) ->
  addrs <> [] -> do_start s addrs fs = (s, RErr, noeff).
Proof. exact start_refused_keeps_state. Qed.

Print Assumptions C09_signal_rule.
Print Assumptions C09_only_signalled_leader_starts.
Print Assumptions C09_other_start_refused_unchanged.

(** the executable trace oracle (with its registration memory) accepts every trace of the model, for
    single-request histories in which every replica registers with one fixed (revision, rebuilding)
    pair and revision counters are not negative ([fixed_assign]), [n] observed replicas, every address
    that is added or started below [n] *)
From Jiva Require Import Ctl.Corr Ctl.Oracles Ctl.OracleProofs2.

Theorem C09_oracle_accepts_model_traces : forall es rf0 n w0, (1 <= rf0)%nat -> forallb ev_wf es = true ->
  forallb (ev_addrs_lt n) es = true -> fixed_assign [] es = true ->
  walk_g (fun g => lift (c09_step rf0 g) nopair) 0 [] (obs0 rf0 n w0) (map One es) (trace n (init rf0 w0) (map One es)) = None.
Proof. exact c09_oracle_model. Qed.

Print Assumptions C09_oracle_accepts_model_traces.

(** the same for histories with concurrent pairs; the fixed (revision, rebuilding) assignment is stated
    over the requests in the order the controller lock serialises them ([flatten]) *)
From Jiva Require Import Ctl.Model Ctl.Corr Ctl.Oracles Ctl.Proofs Ctl.OracleProofs2 Ctl.OracleProofsX Ctl.OracleProofsX2.

Theorem C09_oracle_accepts_model_traces_with_pairs : forall xs rf0 n w0, (1 <= rf0)%nat -> forallb xev_wf xs = true ->
  forallb (xev_addrs_lt n) xs = true -> fixed_assign [] (flatten xs) = true ->
  walk_g (fun g => lift (c09_step rf0 g) nopair) 0 [] (obs0 rf0 n w0) xs (trace n (init rf0 w0) xs) = None.
Proof. exact c09_oracle_model_x. Qed.

Print Assumptions C09_oracle_accepts_model_traces_with_pairs.

(** a replica that registers again under a new address (same UUID) replaces its older registration:
    the second trace oracle (with the UUID every address registered with last as its memory) accepts
    every trace of the model: after a registration with a UUID other than the empty one, no other
    registered address carries that UUID (one replica is never counted twice towards the majority) *)
From Jiva Require Import Ctl.OracleProofsU.

Theorem C09_one_registration_per_uuid : forall es rf0 n w0, (1 <= rf0)%nat -> forallb ev_wf es = true ->
  walk_u liftu 0 [] (obs0 rf0 n w0) (map One es) (trace n (init rf0 w0) (map One es)) = None.
Proof. exact c09u_oracle_model. Qed.

Print Assumptions C09_one_registration_per_uuid.

(** the same for histories with concurrent pairs (the UUID memory sees the two requests in the order
    the controller lock serialises them) *)
Theorem C09_one_registration_per_uuid_with_pairs : forall xs rf0 n w0, (1 <= rf0)%nat -> forallb xev_wf xs = true ->
  walk_u liftu 0 [] (obs0 rf0 n w0) xs (trace n (init rf0 w0) xs) = None.
Proof. exact c09u_oracle_model_x. Qed.

Print Assumptions C09_one_registration_per_uuid_with_pairs.
