(** C16 (replica half) -- growing a volume leaves every existing byte and every snapshot unchanged, makes
    the added range read as zeros and accept writes, and the new size survives reopen; a request to
    shrink is refused and changes nothing.  Model: Block (Replica.Resize, sizes in 4 KiB blocks).
    The controller's half is in the Ctl model.  Only statements here. *)
From Coq Require Import List Arith Bool NArith.
From Jiva Require Import Block.Model Block.Corr Block.Lemmas Block.ProofsWrite Block.ProofsUnit Block.ProofsRead
     Block.ProofsOps Block.ProofsPreload Block.Refine Block.Proofs Block.OracleProofs.
Import ListNotations.

(** every chain prefix (live volume and every snapshot) reads as before followed by zeros *)
Theorem C16_grow : forall K d nb, inv K d -> nblk d <= nb ->
  resize d nb = (grown_dd d nb, ROk) /\ inv K (grown_dd d nb) /\ nblk (grown_dd d nb) = nb /\
  nf (grown_dd d nb) = nf d /\
  forall j, image K (grown_dd d nb) j = image K d j ++ repeat 0%N ((nb - nblk d) * K).
Proof. exact grow. Qed.

(** the added range accepts writes: the state after growing satisfies the invariant, so [C01_write_exact]
    applies to any range inside the new size -- spelled out *)
Theorem C16_added_range_accepts_writes : forall K d nb data off ch, 0 < K -> inv K d -> nblk d <= nb ->
  off + length data <= nb * K ->
  let '(dw, hs) := write_at true K (grown_dd d nb) data off in
  let d1 := punched dw hs ch in
  inv K d1 /\ image K d1 (nf d1) = lsplice (image K (grown_dd d nb) (nf d)) off data.
Proof. exact added_range_accepts_writes. Qed.

Theorem C16_shrink_refused : forall d nb, nb < nblk d -> resize d nb = (d, RErr).
Proof. exact shrink_refused. Qed.

Theorem C16_size_survives_reopen : forall K d pre ch, inv K d ->
  let '(d1, hs) := reopen d pre in nblk (punched d1 hs ch) = nblk d /\ inv K (punched d1 hs ch).
Proof. exact size_survives_reopen. Qed.

(** Resize inside arbitrary histories: it is an operation of the refinement ([C01_step_refines]), whose
    specification step appends zeros to the live image and to every snapshot image; so the C01 oracle
    (which C16's oracle includes) holds on every model trace containing resizes. *)
Theorem C16_in_histories : forall K nb p rv (h : list (op * list bool)), 0 < K ->
  c01_oracle (mkcfg K nb p rv) (map fst h) (trace true K rv (init nb p) h) = true.
Proof. intros K nb p rv h HK. exact (proj1 (block_refines_spec K nb p rv h HK)). Qed.

(** The executable statement of C16 on observed traces holds on every trace of the model whose
    operations stay inside the specification's domain. *)
Theorem C16_oracle_holds_on_model : forall K nb p rv (h : list (op * list bool)), 0 < K ->
  in_dom K (spec0 (mkcfg K nb p rv)) (map fst h) (trace true K rv (init nb p) h) = true ->
  c16_oracle (mkcfg K nb p rv) (map fst h) (trace true K rv (init nb p) h) = true.
Proof. exact c16_oracle_model. Qed.

Print Assumptions C16_oracle_holds_on_model.
Print Assumptions C16_grow.
Print Assumptions C16_added_range_accepts_writes.
Print Assumptions C16_shrink_refused.
Print Assumptions C16_size_survives_reopen.
Print Assumptions C16_in_histories.

(** controller half (model Ctl): the executable trace oracle [c16_step] (a resize that does not grow is
    refused and touches nothing; a grow gives the new size to every replica in service that does not
    fail the call, the volume size changes exactly when the request is acknowledged, and exactly the
    replicas that failed the call leave the service) accepts every trace of the controller model,
    histories with concurrent pairs included; [n] observed replicas, every added / started address below [n] *)
From Jiva Require Import Ctl.Model Ctl.Corr Ctl.Oracles Ctl.OracleProofsX Ctl.OracleProofsX3.

Theorem C16_controller_oracle_accepts_model_traces_with_pairs : forall xs rf0 n w0, (1 <= rf0)%nat ->
  forallb xev_wf xs = true -> forallb (xev_addrs_lt n) xs = true ->
  Ctl.Oracles.walk (Ctl.Oracles.lift (c16_step rf0) nopair) 0 (Ctl.Oracles.obs0 rf0 n w0) xs
                   (Ctl.Corr.trace n (Ctl.Model.init rf0 w0) xs) = None.
Proof. exact c16_oracle_model_x. Qed.

Print Assumptions C16_controller_oracle_accepts_model_traces_with_pairs.
