(** C07 — a rebuilt replica is identical to its source before it serves reads: controller half.
    Model: Ctl.  The data half (file copy + UpdateLUNMap merge give equal images) is exercised on the
    real system by the T3 scenarios of this check and is not proved here (see DESIGN.md §3 C07). *)
From Coq Require Import List ZArith Bool Arith.
From Jiva Require Import Ctl.Model Ctl.Proofs Ctl.Props.
Import ListNotations.
Open Scope Z_scope.

(** promotion WO -> RW by VerifyRebuildReplica happens only after the snapshot chains were compared
    from the checkpoint upward (the whole chain when the rebuilt replica has no checkpoint), and it
    equalises the revision counter with the source's *)
Theorem C07_promotion_verified : forall s a fs s',
  aget (replicas s) a = Some WO -> do_verify s a fs = (s', ROk) ->
  exists r0 m0 k,
    find (fun p => is_rw (snd p)) (replicas s) = Some (r0, m0)
    /\ (k <= length (f_chain (wget (w s) a)))%nat
    /\ firstn k (f_chain (wget (w s) r0)) = firstn k (f_chain (wget (w s) a))
    /\ (match f_cp (wget (w s) a) with
        | None => k = length (f_chain (wget (w s) r0))
        | Some c => exists i, index_of (f_chain (wget (w s) r0)) c 0 = Some i /\ k = S i
        end)
    /\ f_rev (wget (w s') a) = f_rev (wget (w s) r0)
    /\ f_mode (wget (w s') a) = RRW.
Proof. exact verify_promotes_after_check. Qed.

(** at most one replica is rebuilding, in every reachable state *)
Theorem C07_one_rebuilder : forall (es : list event) (rf0 : nat) (w0 : world),
  (1 <= rf0)%nat -> forallb ev_wf es = true ->
  (count_wo (replicas (run (init rf0 w0) es)) <= 1)%nat.
Proof. intros es rf0 w0 H Hw. exact (st_wo _ (struct_reachable es rf0 w0 H Hw)). Qed.

(** a rebuilding (or interrupted) replica is never in the read path: whoever serves a read is RW *)
Theorem C07_rebuilding_not_read : forall s off len order fs s' ef,
  struct_ok s -> do_read s off len order fs = (s', ROk, ef) ->
  exists a, e_served ef = Some a /\ aget (replicas s) a = Some RW.
Proof. exact read_served_by_rw. Qed.

Print Assumptions C07_promotion_verified.
Print Assumptions C07_one_rebuilder.
Print Assumptions C07_rebuilding_not_read.

(** * data half (model: Block.Rebuild -- two replicas on top of Block.Model; proofs: Block.RebuildLemmas,
    Block.RebuildProofs).  [rb] holds the source [src], the destination [dst] (its files indexed by the
    source's member positions), the holes queued on either side, the progress of UpdateLUNMap. *)
From Jiva Require Import Block.Model Block.Lemmas Block.ProofsWrite Block.ProofsOps Block.Corr
     Block.Rebuild Block.RebuildLemmas Block.RebuildCorr Block.RebuildProofs Block.RebuildAtomic.

(** For every schedule
      (BothWrite aligned to the 4 KiB block | Copy of blocks of a closed file above the sync point | SrcHole)*
      with every block of every such file copied at least once;
      DstReload;
      (BothWrite of any alignment | SrcHole | DstHole | UlmBegin | UlmPre | UlmMerge)*
    -- reclamation holes applied or dropped at any time after they were queued, the preload of UpdateLUNMap
    advancing one block at a time between foreground writes, the merge loop literal -- starting from a state
    in which the two chains agree at the sync point [c] ([start_ok]: equal images of the prefix ending at
    member [c]; [c] = 0 for a new replica):
      the live images are equal;
      every retained user-created snapshot from the sync point upward has equal images;
      an automatic snapshot has equal content at every block at which no newer member of the source has an
      extent (CAVEAT, precise: at a block that a newer layer shadows the source may have reclaimed the
      snapshot's extent -- it punches under its head -- while the destination, which copied the file earlier
      or reclaims on its own, may still hold it or may have punched a different one; such a block is never
      visible in the live volume nor in any user-created snapshot);
      the destination's block map is well-formed and a full read through it returns the source's image. *)
Theorem C07_rebuild_converges : forall K c s0 es1 es2, (0 < K)%nat ->
  start_ok K c s0 ->
  Forall (pre_ev K c) es1 -> all_copied c s0 es1 ->
  Forall post_ev es2 ->
  let s := run true K s0 (es1 ++ DstReload :: es2) in
  let n := nf (src s) in
  nf (dst s) = n /\ nblk (dst s) = nblk (src s) /\
  image K (dst s) n = image K (src s) n /\
  (forall J, (c <= J < n)%nat -> usr (src s) J = true -> rmd (src s) J = false ->
             image K (dst s) J = image K (src s) J) /\
  (forall J b, (c <= J < n)%nat -> (forall i, (J < i <= n)%nat -> fl (src s) i b = None) ->
               img K (fl (dst s)) J b = img K (fl (src s)) J b) /\
  wf K (dst s) /\ fst (read_all K (dst s)) = image K (src s) n.
Proof. exact rebuild_converges. Qed.

(** The hypothesis on the alignment of the writes that arrive before the Reload cannot be dropped: the model
    -- and the code: replay .work/patches/README, finding wo-rmw-stale -- completes a partial block on the
    rebuilding replica from that replica's own stale chain. *)
Theorem C07_rebuild_unaligned_refuted :
  let s := fst (exec true 8 (init_case true rmw_case) (rc_ev rmw_case)) in
  reloaded s = true /\ uph s = UDone /\
  block_of 8 (image 8 (src s) (nf (src s))) 2 = [1; 3; 3; 1; 1; 1; 1; 1]%N /\
  block_of 8 (image 8 (dst s) (nf (dst s))) 2 = [0; 3; 3; 0; 0; 0; 0; 0]%N /\
  model_oracle true rmw_case = false.
Proof. exact rebuild_unaligned_refuted. Qed.

(** Nor can "the chains agree at the sync point": a destination that wrote on its own after the sync point
    has punched below it (finding diverged-hole-below-syncpoint). *)
Theorem C07_rebuild_diverged_refuted :
  let s0 := init_case true diverged_case in
  let s := fst (exec true 8 s0 (rc_ev diverged_case)) in
  block_of 8 (image 8 (src s0) 1) 1 = repeat 2%N 8 /\ block_of 8 (image 8 (dst s0) 1) 1 = repeat 0%N 8 /\
  block_of 8 (image 8 (src s) (nf (src s))) 1 = repeat 2%N 8 /\
  block_of 8 (image 8 (dst s) (nf (dst s))) 1 = repeat 0%N 8 /\
  model_oracle true diverged_case = false.
Proof. exact rebuild_diverged_refuted. Qed.

(** The three phases, run with nothing in between, are the transcription of Server.UpdateLUNMap used by the
    single-replica properties (Block.Model.update_lun_map): same table, same holes in the same order. *)
Theorem C07_ulm_phases_are_update_lun_map : forall fx K s,
  reloaded s = true -> uph s = UIdle -> (1 <= nf (dst s))%nat ->
  run fx K s (ulm_all (dst s)) =
  mkrb (src s) (spend s) (fst (update_lun_map (dst s))) (dpend s ++ snd (update_lun_map (dst s)))
       (lowc s) (wired s) (reloaded s) UDone (drev s).
Proof. exact Jiva.Block.RebuildAtomic.ulm_all_is_update_lun_map. Qed.

(** An UpdateLUNMap whose preload fails (the extent query of one chain file returns an error) reports the error,
    having run the scan up to that file: the files and the live block map are what they were (only reclamation
    holes of the scanned files are queued, and those keep every image by [C07_rebuild_converges]'s invariant);
    sync.reloadAndVerify returns the error, the replica is not promoted.  If the step is tried again: once the
    queued holes are applied or dropped the state satisfies the same invariant with UpdateLUNMap not started,
    so every schedule of [C07_rebuild_converges] -- in particular a complete UpdateLUNMap -- goes on from it. *)
Theorem C07_failed_updatelunmap_recoverable : forall K c s,
  inv2 K c s -> dpend s = [] ->
  inv2 K c (ulm_abort s) /\ src (ulm_abort s) = src s /\ dst (ulm_abort s) = dst s /\ uph (ulm_abort s) = UIdle.
Proof.
  intros K c s I Hp. split; [now apply inv2_abort|]. cbn. auto.
Qed.

Print Assumptions C07_rebuild_converges.
Print Assumptions C07_failed_updatelunmap_recoverable.
Print Assumptions C07_ulm_phases_are_update_lun_map.
Print Assumptions C07_rebuild_unaligned_refuted.
Print Assumptions C07_rebuild_diverged_refuted.

(** the executable trace oracle of the control half (the one the correspondence run evaluates on the
    real controller's observations) accepts every trace of the controller model (single-request
    histories; no condition on the number of observed replicas: outside the observed range the oracle
    gives no verdict) *)
From Jiva Require Import Ctl.Model Ctl.Corr Ctl.Oracles Ctl.Proofs Ctl.OracleProofs2 Ctl.OracleProofs07.

Theorem C07_oracle_accepts_model_traces : forall es rf0 n w0, (1 <= rf0)%nat -> forallb Ctl.Proofs.ev_wf es = true ->
  walk (lift (c07_step rf0) nopair) 0 (obs0 rf0 n w0) (map One es) (trace n (Ctl.Model.init rf0 w0) (map One es)) = None.
Proof. exact c07_oracle_model. Qed.

(** a replica listed as WO becomes RW only in VerifyRebuildReplica of that replica or by a
    SetReplicaMode(RW) request naming it; no other request of the controller promotes it *)
Theorem C07_promotion_only_by_verify : forall s e a, Ctl.Proofs.struct_ok s ->
  In (a, WO) (replicas s) -> In (a, RW) (replicas (fst (fst (Ctl.Model.step s e)))) ->
  match e with
  | Verify a' _ => a' = a
  | SetMode a' RW => a' = a
  | _ => False
  end.
Proof. exact promotion_only_by_verify. Qed.

(** the oracle extended with that clause also accepts every trace of the model *)
Theorem C07_extended_oracle_accepts_model_traces : forall es rf0 n w0, (1 <= rf0)%nat -> forallb Ctl.Proofs.ev_wf es = true ->
  walk (lift (fun prev e cur => c07_step rf0 prev e cur && c07_only_verify prev e cur) nopair) 0
       (obs0 rf0 n w0) (map One es) (trace n (Ctl.Model.init rf0 w0) (map One es)) = None.
Proof. exact c07_only_verify_oracle_model. Qed.

Print Assumptions C07_oracle_accepts_model_traces.
Print Assumptions C07_promotion_only_by_verify.
Print Assumptions C07_extended_oracle_accepts_model_traces.

(** the same for histories with concurrent pairs (the oracle that [check_case] runs: with the
    promotion-only-by-verify clause) *)
From Jiva Require Import Ctl.OracleProofsX Ctl.OracleProofsX2.

Theorem C07_oracle_accepts_model_traces_with_pairs : forall xs rf0 n w0, (1 <= rf0)%nat -> forallb xev_wf xs = true ->
  walk (lift (fun prev e cur => c07_step rf0 prev e cur && c07_only_verify prev e cur) nopair) 0
       (obs0 rf0 n w0) xs (trace n (Ctl.Model.init rf0 w0) xs) = None.
Proof. exact c07_oracle_model_x. Qed.

Print Assumptions C07_oracle_accepts_model_traces_with_pairs.
