(** C07 — a rebuilt replica is identical to its source before it serves reads: controller half.
    Model: Ctl.  The data half (file copy + UpdateLUNMap merge give equal images) is exercised on the
    real system by the T3 scenarios of this check and is not proved here (see DESIGN.md §3 C07). *)
From Coq Require Import List ZArith Bool Arith.
From Jiva Require Import Ctl.Model Ctl.Proofs Ctl.Props.
Import ListNotations.
Open Scope Z_scope.

(** promotion WO -> RW by VerifyRebuildReplica happens only after the snapshot chains were compared
    from the checkpoint upward (the whole chain when the rebuilt replica has no checkpoint), and it
    equalises the revision counter with the source's *)
Theorem C07_promotion_verified : forall s a fs s',
  aget (replicas s) a = Some WO -> do_verify s a fs = (s', ROk) ->
  exists r0 m0 k,
    find (fun p => is_rw (snd p)) (replicas s) = Some (r0, m0)
    /\ (k <= length (f_chain (wget (w s) a)))%nat
    /\ firstn k (f_chain (wget (w s) r0)) = firstn k (f_chain (wget (w s) a))
    /\ (match f_cp (wget (w s) a) with
        | None => k = length (f_chain (wget (w s) r0))
        | Some c => exists i, index_of (f_chain (wget (w s) r0)) c 0 = Some i /\ k = S i
        end)
    /\ f_rev (wget (w s') a) = f_rev (wget (w s) r0)
    /\ f_mode (wget (w s') a) = RRW.
Proof. exact verify_promotes_after_check. Qed.

(** at most one replica is rebuilding, in every reachable state *)
Theorem C07_one_rebuilder : forall (es : list event) (rf0 : nat) (w0 : world),
  (1 <= rf0)%nat -> forallb ev_wf es = true ->
  (count_wo (replicas (run (init rf0 w0) es)) <= 1)%nat.
Proof. intros es rf0 w0 H Hw. exact (st_wo _ (struct_reachable es rf0 w0 H Hw)). Qed.

(** a rebuilding (or interrupted) replica is never in the read path: whoever serves a read is RW *)
Theorem C07_rebuilding_not_read : forall s off len order fs s' ef,
  struct_ok s -> do_read s off len order fs = (s', ROk, ef) ->
  exists a, e_served ef = Some a /\ aget (replicas s) a = Some RW.
Proof. exact read_served_by_rw. Qed.

Print Assumptions C07_promotion_verified.
Print Assumptions C07_one_rebuilder.
Print Assumptions C07_rebuilding_not_read.
