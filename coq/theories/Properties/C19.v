(** C19 — a clone replica serves only when done: controller half.   Model: Ctl.
    The data half (the clone's image equals snapshot S, its counter is the one recorded for S) is
    exercised on the real system by the T3 scenario of this check (see DESIGN.md §3 C19). *)
From Coq Require Import List ZArith Bool Arith.
From Jiva Require Import Ctl.Model Ctl.Proofs Ctl.Props.
Import ListNotations.
Open Scope Z_scope.

(** the part of addReplicaDuringStartNoLock after the replica was attached as WO is [start_tail] *)
Theorem C19_start_tail_is_the_code_path : forall s fs a s1 i s3,
  create_backend s fs a = Some (s1, i) -> flt fs a KSize = false ->
  let s2 := if csize s1 =? maxint then upd_csize s1 (f_size (wget (w s1) a)) else s1 in
  negb (csize s2 =? f_size (wget (w s1) a)) = false ->
  add_replica_nolock s2 fs a i false = (s3, ROk) ->
  add_during_start s fs a = start_tail s3 fs a.
Proof. exact add_during_start_tail. Qed.

(** the replica is made RW (and with it the volume readable and writable) only if its clone status
    could be read and is not "error" *)
Theorem C19_promoted_only_when_done : forall s3 fs a, snd (start_tail s3 fs a) = ROk ->
  flt fs a KClone = false /\ f_clone (wget (w s3) a) <> CErr.
Proof. exact clone_promoted_only_when_done. Qed.

(** a failed clone (or an unreadable status) is reported as an error and the replica is removed *)
Theorem C19_failed_clone_not_served : forall s3 fs a, struct_ok s3 ->
  (flt fs a KClone = true \/ f_clone (wget (w s3) a) = CErr) ->
  snd (start_tail s3 fs a) = RErr /\ has_replica (fst (start_tail s3 fs a)) a = false.
Proof. exact clone_error_not_served. Qed.

Print Assumptions C19_start_tail_is_the_code_path.
Print Assumptions C19_promoted_only_when_done.
Print Assumptions C19_failed_clone_not_served.

(** * data half (model: Block.Rebuild; proofs: Block.RebuildLemmas, Block.RebuildProofs) *)
From Jiva Require Import Block.Model Block.Lemmas Block.ProofsWrite Block.ProofsOps Block.Corr
     Block.Rebuild Block.RebuildLemmas Block.RebuildCorr Block.RebuildProofs.

(** CloneReplica of S = member [sx] of the source, a retained user-created snapshot ([clone_start_ok]), onto a
    fresh replica.  For every schedule
      (SrcWrite | SrcHole | Copy)*  CloneInfo rev  (SrcWrite | SrcHole | Copy)*
      with every block of members 1 .. sx copied at least once;
      DstReload;
      (SrcWrite | SrcHole | DstHole | UlmBegin | UlmPre | UlmMerge)*
    -- the source volume stays in service (writes of any alignment, asynchronous reclamation) --
      the clone's live image is the image of S (as the source held it at the start, and still holds it),
      its block map is well-formed and a full read through it returns that image,
      and its revision counter is the one handed to UpdateCloneInfo (sync.CloneReplica passes the counter
      recorded for S). *)
Theorem C19_clone_image : forall K sx s0 es1 es1' es2 rev, (0 < K)%nat ->
  clone_start_ok K sx s0 ->
  Forall clone_pre_ev es1 -> Forall clone_pre_ev es1' ->
  (forall i b, (1 <= i <= sx)%nat -> (b < nblk (src s0))%nat -> copied_in (es1 ++ es1') i b) ->
  Forall clone_post_ev es2 ->
  let s := run true K s0 (es1 ++ CloneInfo rev :: es1' ++ DstReload :: es2) in
  nf (dst s) = S sx /\
  image K (dst s) (S sx) = image K (src s0) sx /\
  image K (src s) sx = image K (src s0) sx /\
  wf K (dst s) /\ fst (read_all K (dst s)) = image K (src s0) sx /\
  drev s = rev.
Proof.
  intros K sx s0 es1 es1' es2 rev HK Hs H1 H1' Hc H2.
  apply clone_image; auto. exact (Forall_impl _ clone_pre_try H1).
Qed.

(** The same with failed steps.  An UpdateCloneInfo whose write of volume.meta ([CloneInfoFail 0 _]) or of the
    head's metadata ([CloneInfoFail 1 _], the counter is already set then) fails returns its error and does not
    rewire the head; a Server.Reload that fails changes nothing (no event).  sync.CloneReplica returns the error
    (then there is no Reload, the clone is never declared completed and nothing is claimed) or the step is tried
    again: whenever the flow reaches its end -- a successful CloneInfo after any number of failed attempts, then
    the Reload -- the conclusions of [C19_clone_image] hold, in particular the counter is the one of the
    SUCCESSFUL attempt.  (What the check adds on the implementation: a step that swallows its error makes a flow
    "complete" that the model stops, and the oracle -- image of S, recorded counter -- is evaluated on it.) *)
Theorem C19_clone_image_after_failed_steps : forall K sx s0 es1 es1' es2 rev, (0 < K)%nat ->
  clone_start_ok K sx s0 ->
  Forall clone_try_ev es1 -> Forall clone_pre_ev es1' ->
  (forall i b, (1 <= i <= sx)%nat -> (b < nblk (src s0))%nat -> copied_in (es1 ++ es1') i b) ->
  Forall clone_post_ev es2 ->
  let s := run true K s0 (es1 ++ CloneInfo rev :: es1' ++ DstReload :: es2) in
  nf (dst s) = S sx /\
  image K (dst s) (S sx) = image K (src s0) sx /\
  image K (src s) sx = image K (src s0) sx /\
  wf K (dst s) /\ fst (read_all K (dst s)) = image K (src s0) sx /\
  drev s = rev.
Proof. exact clone_image. Qed.

(** a flow that stops at a failed UpdateCloneInfo leaves the clone unwired: nothing but the counter changed *)
Theorem C19_failed_cloneinfo_changes_no_data : forall K s stage rev,
  let s' := step true K s (CloneInfoFail stage rev) in
  src s' = src s /\ dst s' = dst s /\ wired s' = wired s /\ reloaded s' = reloaded s /\ uph s' = uph s.
Proof. intros K s stage rev. cbn [step]. destruct (reloaded s || (stage =? 0)%nat); cbn; auto. Qed.

Print Assumptions C19_clone_image.
Print Assumptions C19_clone_image_after_failed_steps.
Print Assumptions C19_failed_cloneinfo_changes_no_data.

(** controller half (model Ctl): the executable trace oracle [c19_step w0] (a replica that enters the list
    as RW at a start request has a scripted clone status other than "error") accepts every trace of the
    controller model, histories with concurrent pairs included.  The clone status is a constant of the
    scripted world: no request changes it ([clk_step_all]) *)
From Jiva Require Import Ctl.Model Ctl.Corr Ctl.Oracles Ctl.Proofs Ctl.OracleProofsX Ctl.OracleProofs19.

Theorem C19_controller_oracle_accepts_model_traces_with_pairs : forall xs rf0 n w0, (1 <= rf0)%nat ->
  forallb xev_wf xs = true ->
  Ctl.Oracles.walk (Ctl.Oracles.lift (c19_step w0) nopair) 0 (Ctl.Oracles.obs0 rf0 n w0) xs
                   (Ctl.Corr.trace n (Ctl.Model.init rf0 w0) xs) = None.
Proof. exact c19_oracle_model_x. Qed.

Print Assumptions C19_controller_oracle_accepts_model_traces_with_pairs.
