(** C19 — a clone replica serves only when done: controller half.   Model: Ctl.
    The data half (the clone's image equals snapshot S, its counter is the one recorded for S) is
    exercised on the real system by the T3 scenario of this check (see DESIGN.md §3 C19). *)
From Coq Require Import List ZArith Bool Arith.
From Jiva Require Import Ctl.Model Ctl.Proofs Ctl.Props.
Import ListNotations.
Open Scope Z_scope.

(** the part of addReplicaDuringStartNoLock after the replica was attached as WO is [start_tail] *)
Theorem C19_start_tail_is_the_code_path : forall s fs a s1 i s3,
  create_backend s fs a = Some (s1, i) -> flt fs a KSize = false ->
  let s2 := if csize s1 =? maxint then upd_csize s1 (f_size (wget (w s1) a)) else s1 in
  negb (csize s2 =? f_size (wget (w s1) a)) = false ->
  add_replica_nolock s2 fs a i false = (s3, ROk) ->
  add_during_start s fs a = start_tail s3 fs a.
Proof. exact add_during_start_tail. Qed.

(** the replica is made RW (and with it the volume readable and writable) only if its clone status
    could be read and is not "error" *)
Theorem C19_promoted_only_when_done : forall s3 fs a, snd (start_tail s3 fs a) = ROk ->
  flt fs a KClone = false /\ f_clone (wget (w s3) a) <> CErr.
Proof. exact clone_promoted_only_when_done. Qed.

(** a failed clone (or an unreadable status) is reported as an error and the replica is removed *)
Theorem C19_failed_clone_not_served : forall s3 fs a, struct_ok s3 ->
  (flt fs a KClone = true \/ f_clone (wget (w s3) a) = CErr) ->
  snd (start_tail s3 fs a) = RErr /\ has_replica (fst (start_tail s3 fs a)) a = false.
Proof. exact clone_error_not_served. Qed.

Print Assumptions C19_start_tail_is_the_code_path.
Print Assumptions C19_promoted_only_when_done.
Print Assumptions C19_failed_clone_not_served.
