(** C14 — no management API request can crash or wedge the controller or a replica.
    Model: Rest (lock discipline of the request handlers as structured programs; the programs are
    regenerated from /repo's Go source by harness/cmd/restgen on every run and checked in
    Generated/Handlers.v by [handlers_ok : forallb check handlers = true]); action gating: Srv.
    Only statements here.  What is proved is the lock discipline and the gating; nil dereferences,
    slice bounds and the like are runtime and are the business of the request fuzzer (checks/c14.py). *)
From Coq Require Import List Bool.
From Jiva Require Import Rest.Lang Rest.Proofs.
From Jiva Require Srv.Model Srv.Proofs.
Import ListNotations.

(** The verified checker.  For every program p the checker accepts and EVERY execution of p as a
    request handler (starting with no mutex held; every choice of branches and iteration counts;
    ending by falling off the end, by return or by panic, deferred actions included):
    no Unlock/RUnlock of a mutex that is not held in that mode (Go: fatal error, the process exits);
    no Lock/RLock of a mutex the goroutine already holds (self-deadlock);
    no blocking channel send while a mutex is held; no untranslated construct is reached;
    and no mutex is held when the handler has ended. *)
Theorem C14_check_sound : forall p, check p = true ->
  forall o H', handler_exec p o H' ->
    (forall m, o <> OFault (FUnlock m)) /\
    (forall m, o <> OFault (FRelock m)) /\
    (forall c, o <> OFault (FSend c)) /\
    o <> OFault FUnknown /\
    H' = [].
Proof. exact check_sound. Qed.

(** the same over the executable semantics: every choice sequence (oracle) and every fuel *)
Theorem C14_check_sound_every_choice_sequence : forall p, check p = true ->
  forall n orc o H', run_handler n p orc = Some (o, H') -> nofault o /\ H' = [].
Proof. exact check_sound_run. Qed.

(** the executable semantics only produces executions of the relational one *)
Theorem C14_interpreter_is_semantics : forall n s orc s0 o s1 orc',
  run n s orc s0 = Some (o, s1, orc') -> exec s s0 o s1.
Proof. exact run_exec. Qed.

(** the tie used by Generated/Handlers.v: [handlers_ok] (one vm_compute over the handlers translated
    from the current source) gives lock safety of every execution of every translated handler *)
Theorem C14_handlers_lock_safe : forall hs : list stmt, forallb check hs = true ->
  forall p, In p hs -> forall o H', handler_exec p o H' -> nofault o /\ H' = [].
Proof. exact handlers_safe. Qed.

(** the checker is not vacuous: it rejects the three defect shapes of DESIGN §7a (with an
    execution that really runs into the fault) and accepts a program using every safe idiom of the
    handlers, which has executions ending normally and by panic *)
Theorem C14_checker_discriminates :
  why ex_double_unlock = Some (RFault (FUnlock 0)) /\
  run_handler 50 ex_double_unlock [true] = Some (OFault (FUnlock 0), []) /\
  why ex_send_locked = Some (RFault (FSend 0)) /\
  why ex_leak = Some (RLeak 0) /\
  run_handler 50 ex_leak [true] = Some (ONorm, [(0, true)]) /\
  why ex_relock = Some (RFault (FRelock 0)) /\
  check ex_good = true /\
  run_handler 50 ex_good [false; true; false; false; true] = Some (OPan, []).
Proof.
  repeat split; first [ exact ex_double_unlock_rejected | exact ex_double_unlock_runs_into_it
                      | exact ex_send_locked_rejected | exact ex_leak_rejected | exact ex_leak_runs
                      | exact ex_relock_rejected | exact ex_good_accepted
                      | exact (proj1 ex_good_has_executions) ].
Qed.

(** out-of-state requests: a replica REST action outside the current state's action set is
    answered 404 and changes nothing (all 6 x 17 pairs; same statement as C17_rest_gate) *)
Theorem C14_gating : forall s a m v b,
  Srv.Model.allowed (Srv.Model.state s) a = false ->
  Srv.Model.tstep s (Srv.Model.Rest a m v b) = (s, Srv.Model.R404).
Proof. exact Srv.Proofs.rest_gate. Qed.

Print Assumptions C14_check_sound.
Print Assumptions C14_check_sound_every_choice_sequence.
Print Assumptions C14_interpreter_is_semantics.
Print Assumptions C14_handlers_lock_safe.
Print Assumptions C14_checker_discriminates.
Print Assumptions C14_gating.
