(** C02 — a write is acknowledged only after a strict majority of the attached replicas applied it;
    replicas that failed it are detached within the same operation.
    Model: Ctl.  Only statements here.  "Attached at that moment" = the replicas in service: present
    in the backend map and not marked ERR (these are exactly the ones the write is sent to). *)
From Coq Require Import List ZArith Bool Arith.
From Jiva Require Import Ctl.Model Ctl.Proofs Ctl.Props.
Import ListNotations.
Open Scope Z_scope.

Theorem C02_ack_needs_strict_majority : forall s wid off len fs s',
  struct_ok s -> do_write s wid off len fs = (s', ROk) ->
  (length (writers s) < 2 * length (appliers s fs))%nat.
Proof. exact write_ack_majority. Qed.

Theorem C02_no_majority_is_reported_failed : forall s wid off len fs,
  (2 * length (filter (fun a => negb (flt fs a KWrite || flt fs a KWriteAp)) (writers s)) <= length (writers s))%nat ->
  (0 < length (writers s))%nat -> snd (do_write s wid off len fs) <> ROk.
Proof. exact write_no_majority_fails. Qed.

Theorem C02_failed_replicas_detached : forall s wid off len fs a,
  struct_ok s -> ro s = false -> avail s = true -> 0 <= off -> off + len <= csize s ->
  In a (writers s) -> (flt fs a KWrite || flt fs a KWriteAp) = true ->
  ~ In a (keys (replicas (fst (do_write s wid off len fs)))).
Proof. exact write_failed_detached. Qed.

Print Assumptions C02_ack_needs_strict_majority.
Print Assumptions C02_no_majority_is_reported_failed.
Print Assumptions C02_failed_replicas_detached.
