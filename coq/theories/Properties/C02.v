(** C02 — a write is acknowledged only after a strict majority of the attached replicas applied it;
    replicas that failed it are detached within the same operation.
    Model: Ctl.  Only statements here.  "Attached at that moment" = the replicas in service: present
    in the backend map and not marked ERR (these are exactly the ones the write is sent to). *)
From Coq Require Import List ZArith Bool Arith.
From Jiva Require Import Ctl.Model Ctl.Proofs Ctl.Props.
Import ListNotations.
Open Scope Z_scope.

Theorem C02_ack_needs_strict_majority : forall s wid off len fs s',
  struct_ok s -> do_write s wid off len fs = (s', ROk) ->
  (length (writers s) < 2 * length (appliers s fs))%nat.
Proof. exact write_ack_majority. Qed.

Theorem C02_no_majority_is_reported_failed : forall s wid off len fs,
  (2 * length (filter (fun a => negb (flt fs a KWrite || flt fs a KWriteAp)) (writers s)) <= length (writers s))%nat ->
  (0 < length (writers s))%nat -> snd (do_write s wid off len fs) <> ROk.
Proof. exact write_no_majority_fails. Qed.

Theorem C02_failed_replicas_detached : forall s wid off len fs a,
  struct_ok s -> ro s = false -> avail s = true -> 0 <= off -> off + len <= csize s ->
  In a (writers s) -> (flt fs a KWrite || flt fs a KWriteAp) = true ->
  ~ In a (keys (replicas (fst (do_write s wid off len fs)))).
Proof. exact write_failed_detached. Qed.

(** every writer that did not fail before applying holds the write afterwards (whatever was detached
    in the same operation), and whoever is listed afterwards was listed before: together with the
    detachment of failed writers, every replica in service after an acknowledged write holds it *)
Theorem C02_survivors_hold_the_write : forall s wid off len fs x,
  struct_ok s -> ro s = false -> avail s = true -> 0 <= off -> off + len <= csize s ->
  In x (writers s) -> flt fs x KWrite = false ->
  In wid (f_applied (wget (w (fst (do_write s wid off len fs))) x)).
Proof. exact write_survivors_hold_it. Qed.

Theorem C02_nobody_joins_during_a_write : forall s wid off len fs x m,
  struct_ok s ->
  aget (replicas (fst (do_write s wid off len fs))) x = Some m -> m <> ERR ->
  In x (keys (replicas s)).
Proof. exact in_service_after_write_was_writer. Qed.

Print Assumptions C02_ack_needs_strict_majority.
Print Assumptions C02_survivors_hold_the_write.
Print Assumptions C02_nobody_joins_during_a_write.
Print Assumptions C02_no_majority_is_reported_failed.
Print Assumptions C02_failed_replicas_detached.

(** the executable trace oracle that the correspondence run evaluates on the real controller's
    observations accepts every trace of the model (single-request histories; [n] observed replicas,
    every address that is added or started is below [n]) *)
From Jiva Require Import Ctl.Corr Ctl.Oracles Ctl.OracleProofs2.

Theorem C02_oracle_accepts_model_traces : forall es rf0 n w0, (1 <= rf0)%nat -> forallb ev_wf es = true ->
  forallb (ev_addrs_lt n) es = true ->
  walk (lift (c02_step rf0) nopair) 0 (obs0 rf0 n w0) (map One es) (trace n (init rf0 w0) (map One es)) = None.
Proof. exact c02_oracle_model. Qed.

Print Assumptions C02_oracle_accepts_model_traces.

(** the same for histories with concurrent pairs ([Two e1 e2]: e2 issued while e1 is in flight) *)
From Jiva Require Import Ctl.Model Ctl.Corr Ctl.Oracles Ctl.Proofs Ctl.OracleProofs2 Ctl.OracleProofsX Ctl.OracleProofsX2.

Theorem C02_oracle_accepts_model_traces_with_pairs : forall xs rf0 n w0, (1 <= rf0)%nat -> forallb xev_wf xs = true ->
  forallb (xev_addrs_lt n) xs = true ->
  walk (lift (c02_step rf0) nopair) 0 (obs0 rf0 n w0) xs (trace n (init rf0 w0) xs) = None.
Proof. exact c02_oracle_model_x. Qed.

Print Assumptions C02_oracle_accepts_model_traces_with_pairs.
