(** C01 (replica half) -- reading any byte range returns for every byte the value of the most recent
    successful write that covered it, or zero; whatever the alignment and length of the I/Os, however
    many snapshots were taken, deleted or reverted to, and whether or not the replica was closed and
    reopened (with or without extent preload) or reloaded in between; for every setting of hole punching
    and every choice of which queued holes were applied.
    Model: Block (replica/diff_disk.go, backup.go, server.go UpdateLUNMap, replica.go chain maintenance),
    variant fx = true (fullWriteAt sends the in-loop hole to the closed run's file).
    The controller's range check is the Ctl model's half.  Only statements here. *)
From Coq Require Import List Arith Bool NArith.
From Jiva Require Import Block.Model Block.Corr Block.Lemmas Block.ProofsWrite Block.ProofsUnit Block.ProofsRead
     Block.ProofsOps Block.ProofsPreload Block.Refine Block.Proofs.
Import ListNotations.

(** The executable statement of C01 on observed traces (the oracle that the correspondence run
    evaluates on the implementation's observations: results, read data and the full-volume image after
    every operation equal the flat specification's) holds on every trace of the model: every K > 0,
    volume size, initial punching flag, history of operations and hole-application choices.
    (Together with C06_oracle_holds_on_model this is [block_refines_spec].) *)
Theorem C01_read_your_writes : forall K nb p rv (h : list (op * list bool)), 0 < K ->
  c01_oracle (mkcfg K nb p rv) (map fst h) (trace true K rv (init nb p) h) = true.
Proof. intros K nb p rv h HK. exact (proj1 (block_refines_spec K nb p rv h HK)). Qed.

(** Directly: after any history inside the specification's domain, a read of any unit range inside
    the volume returns the specification's flat image, unit by unit. *)
Theorem C01_read_after_history : forall K nb p h s d off len, 0 < K ->
  spec_run K (mkspec (repeat 0%N (nb * K)) [] nb) (init nb p) h = Some (s, d) ->
  off + len <= size s * K ->
  fst (read_at K d off len) = firstn len (skipn off (live s)).
Proof. exact read_after_history. Qed.

(** A write of any unit offset and length (the three-way split with read-modify-write of the partial
    blocks) changes exactly [off, off+len) of the live image and no retained user-created snapshot. *)
Theorem C01_write_exact : forall K d data off ch, 0 < K -> inv K d -> off + length data <= nblk d * K ->
  let '(dw, hs) := write_at true K d data off in
  let d1 := punched dw hs ch in
  inv K d1 /\
  image K d1 (nf d1) = lsplice (image K d (nf d)) off data /\
  forall i, 1 <= i < nf d -> usr d i = true -> rmd d i = false -> image K d1 i = image K d i.
Proof. exact write_exact. Qed.

(** ReadAt returns the live image, and only memoises location entries. *)
Theorem C01_read_is_image : forall K d off len, 0 < K -> wf K d -> off + len <= nblk d * K ->
  let '(x, d') := read_at K d off len in
  x = map (uimg K (fl d) (nf d)) (seq off len) /\ memo d d'.
Proof. exact read_at_spec. Qed.

(** The invariant and the simulation relation are preserved by every operation the specification
    speaks about (the induction step of the refinement). *)
Theorem C01_step_refines : forall K d s o ch d1 x s1 r data,
  0 < K -> inv K d -> Rel K d s ->
  step true K d o ch = (d1, x) ->
  spec_step K s o (image K d1 (nf d1)) = Some (s1, r, data) ->
  inv K d1 /\ Rel K d1 s1 /\ ores x = r /\ (is_read o = true -> odata x = data).
Proof. exact step_sim. Qed.

Print Assumptions C01_read_your_writes.
Print Assumptions C01_read_after_history.
Print Assumptions C01_write_exact.
Print Assumptions C01_read_is_image.
Print Assumptions C01_step_refines.
