(** C01 (replica half) -- reading any byte range returns for every byte the value of the most recent
    successful write that covered it, or zero; whatever the alignment and length of the I/Os, however
    many snapshots were taken, deleted or reverted to, and whether or not the replica was closed and
    reopened (with or without extent preload) or reloaded in between; for every setting of hole punching
    and every choice of which queued holes were applied.
    Model: Block (replica/diff_disk.go, backup.go, server.go UpdateLUNMap, replica.go chain maintenance),
    variant fx = true (fullWriteAt sends the in-loop hole to the closed run's file).
    The controller's range check is the Ctl model's half.  Only statements here. *)
From Coq Require Import List Arith Bool NArith.
From Jiva Require Import Block.Model Block.Corr Block.Lemmas Block.ProofsWrite Block.ProofsUnit Block.ProofsRead
     Block.ProofsOps Block.ProofsPreload Block.Refine Block.Proofs.
Import ListNotations.

(** The executable statement of C01 on observed traces (the oracle that the correspondence run
    evaluates on the implementation's observations: results, read data and the full-volume image after
    every operation equal the flat specification's) holds on every trace of the model: every K > 0,
    volume size, initial punching flag, history of operations and hole-application choices.  The
    operations include reads issued while one chain file cannot be read ([ReadFault off len i], every pread
    on file i fails): the oracle accepts a failed read only if the live image is what it was, and a read
    that reports success only if every unit is the specification's value.
    (Together with C06_oracle_holds_on_model this is [block_refines_spec].) *)
Theorem C01_read_your_writes : forall K nb p rv (h : list (op * list bool)), 0 < K ->
  c01_oracle (mkcfg K nb p rv) (map fst h) (trace true K rv (init nb p) h) = true.
Proof. intros K nb p rv h HK. exact (proj1 (block_refines_spec K nb p rv h HK)). Qed.

(** Directly: after any history inside the specification's domain, a read of any unit range inside
    the volume returns the specification's flat image, unit by unit. *)
Theorem C01_read_after_history : forall K nb p h s d off len, 0 < K ->
  spec_run K (mkspec (repeat 0%N (nb * K)) [] nb) (init nb p) h = Some (s, d) ->
  off + len <= size s * K ->
  fst (read_at K d off len) = firstn len (skipn off (live s)).
Proof. exact read_after_history. Qed.

(** A write of any unit offset and length (the three-way split with read-modify-write of the partial
    blocks) changes exactly [off, off+len) of the live image and no retained user-created snapshot. *)
Theorem C01_write_exact : forall K d data off ch, 0 < K -> inv K d -> off + length data <= nblk d * K ->
  let '(dw, hs) := write_at true K d data off in
  let d1 := punched dw hs ch in
  inv K d1 /\
  image K d1 (nf d1) = lsplice (image K d (nf d)) off data /\
  forall i, 1 <= i < nf d -> usr d i = true -> rmd d i = false -> image K d1 i = image K d i.
Proof. exact write_exact. Qed.

(** ReadAt returns the live image, and only memoises location entries. *)
Theorem C01_read_is_image : forall K d off len, 0 < K -> wf K d -> off + len <= nblk d * K ->
  let '(x, d') := read_at K d off len in
  x = map (uimg K (fl d) (nf d)) (seq off len) /\ memo d d'.
Proof. exact read_at_spec. Qed.

(** The invariant and the simulation relation are preserved by every operation the specification
    speaks about (the induction step of the refinement). *)
Theorem C01_step_refines : forall K d s o ch d1 x s1 r data,
  0 < K -> inv K d -> Rel K d s ->
  step true K d o ch = (d1, x) ->
  spec_step K s o (ores x, image K d1 (nf d1)) = Some (s1, r, data) ->
  inv K d1 /\ Rel K d1 s1 /\ ores x = r /\ (is_read o = true -> odata x = data).
Proof. exact step_sim. Qed.

(** A read while chain file [i] cannot be read either fails -- and then only location entries were
    memoised: files, attributes, every image and the specification's state are unchanged -- or reports
    success with, unit by unit, the specification's bytes (never zeros in place of written data). *)
Theorem C01_faulted_read_fails_or_returns_written_data : forall K d s off len i ch, 0 < K -> inv K d -> Rel K d s ->
  off + len <= nblk d * K ->
  let '(d1, x) := step true K d (ReadFault off len i) ch in
  memo d d1 /\ inv K d1 /\ Rel K d1 s /\
  ((ores x = RErr /\ odata x = []) \/ (ores x = ROk /\ odata x = firstn len (skipn off (live s)))).
Proof. exact read_fault_sound. Qed.

(** Which of the two, for one fullReadAt call (a block-aligned request of [cnt] blocks from block [b]): it
    fails exactly when one of its blocks is served from the broken file, whichever run that block is in. *)
Theorem C01_faulted_fullread_fails_iff_broken_file_serves : forall d i cnt b, 1 <= nf d -> loc_ok d ->
  fst (full_read_fault d i cnt b) = existsb (fun k => hit i (fst (lookup d (b + k)))) (seq 0 cnt).
Proof. exact full_read_fault_iff. Qed.

Print Assumptions C01_read_your_writes.
Print Assumptions C01_faulted_read_fails_or_returns_written_data.
Print Assumptions C01_faulted_fullread_fails_iff_broken_file_serves.
Print Assumptions C01_read_after_history.
Print Assumptions C01_write_exact.
Print Assumptions C01_read_is_image.
Print Assumptions C01_step_refines.

(** controller half (model Ctl): the executable trace oracle [c01_step] that the correspondence run
    evaluates on the real controller's observations (a write or read outside the volume is not
    acknowledged, touches no replica and leaves the replica list alone) accepts every trace of the
    controller model, histories with concurrent pairs included *)
From Jiva Require Import Ctl.Model Ctl.Corr Ctl.Oracles Ctl.OracleProofsX Ctl.OracleProofsX3.

Theorem C01_controller_oracle_accepts_model_traces_with_pairs : forall xs rf0 n w0,
  Ctl.Oracles.walk (Ctl.Oracles.lift (c01_step rf0) nopair) 0 (Ctl.Oracles.obs0 rf0 n w0) xs
                   (Ctl.Corr.trace n (Ctl.Model.init rf0 w0) xs) = None.
Proof. exact c01_oracle_model_x. Qed.

Print Assumptions C01_controller_oracle_accepts_model_traces_with_pairs.
