(** C04 — reads are served only by RW replicas, with fail-over.   Model: Ctl. *)
From Coq Require Import List ZArith Bool Arith.
From Jiva Require Import Ctl.Model Ctl.Proofs Ctl.Props.
Import ListNotations.

(** for every order in which the reader list may be tried (the order is an input validated by the
    model: distinct RW backends, everyone before the last failed) a successful read returns the data
    of a replica whose mode in the controller's list is RW *)
Theorem C04_reader_is_rw : forall s off len order fs s' ef,
  struct_ok s -> do_read s off len order fs = (s', ROk, ef) ->
  exists a, e_served ef = Some a /\ aget (replicas s) a = Some RW.
Proof. exact read_served_by_rw. Qed.

Theorem C04_no_rw_replica_read_fails : forall s off len order fs,
  struct_ok s -> count_rw (replicas s) = 0%nat -> snd (fst (do_read s off len order fs)) <> ROk.
Proof. exact read_without_rw_fails. Qed.

Print Assumptions C04_reader_is_rw.
Print Assumptions C04_no_rw_replica_read_fails.

(** the executable trace oracle that the correspondence run evaluates on the real controller's
    observations accepts every trace of the model (single-request histories).  [c04_step] as written
    needs the history to be a possible observation (the model validates the observed read order and
    answers RInvalid otherwise: witness [c04_false_on_invalid_order]); [c04_step'] = [c04_step] made
    vacuous on an RInvalid result holds on every history *)
From Jiva Require Import Ctl.Corr Ctl.Oracles Ctl.OracleProofs2.

Theorem C04_oracle_accepts_model_traces : forall es rf0 n w0, (1 <= rf0)%nat -> forallb ev_wf es = true ->
  no_invalid (init rf0 w0) es ->
  walk (lift (c04_step rf0) nopair) 0 (obs0 rf0 n w0) (map One es) (trace n (init rf0 w0) (map One es)) = None.
Proof. exact c04_oracle_model. Qed.

Theorem C04_corrected_oracle_accepts_model_traces : forall es rf0 n w0, (1 <= rf0)%nat -> forallb ev_wf es = true ->
  walk (lift (c04_step' rf0) nopair) 0 (obs0 rf0 n w0) (map One es) (trace n (init rf0 w0) (map One es)) = None.
Proof. exact c04'_oracle_model. Qed.

Print Assumptions C04_oracle_accepts_model_traces.
Print Assumptions C04_corrected_oracle_accepts_model_traces.

(** histories with concurrent pairs.  The pair rule [c04_pair]: the replica that serves the queued read was RW
    before the pair unless the first request promotes it (verify, set-mode RW, start), and it did not fail the
    first request when that request is an I/O that reached the replicas (gate open, inside the volume) *)
From Jiva Require Import Ctl.Model Ctl.Corr Ctl.Oracles Ctl.Proofs Ctl.OracleProofs2 Ctl.OracleProofsX Ctl.OracleProofsX2.

Theorem C04_oracle_accepts_model_traces_with_pairs : forall xs rf0 n w0, (1 <= rf0)%nat -> forallb xev_wf xs = true ->
  no_invalid (init rf0 w0) (flatten xs) ->
  walk (lift (c04_step rf0) (c04_pair rf0)) 0 (obs0 rf0 n w0) xs (trace n (init rf0 w0) xs) = None.
Proof. exact c04_oracle_model_x. Qed.

Theorem C04_corrected_oracle_accepts_model_traces_with_pairs : forall xs rf0 n w0, (1 <= rf0)%nat -> forallb xev_wf xs = true ->
  walk (lift (c04_step' rf0) (c04_pair rf0)) 0 (obs0 rf0 n w0) xs (trace n (init rf0 w0) xs) = None.
Proof. exact c04'_oracle_model_x. Qed.

Print Assumptions C04_oracle_accepts_model_traces_with_pairs.
Print Assumptions C04_corrected_oracle_accepts_model_traces_with_pairs.
