(** C04 — reads are served only by RW replicas, with fail-over.   Model: Ctl. *)
From Coq Require Import List ZArith Bool Arith.
From Jiva Require Import Ctl.Model Ctl.Proofs Ctl.Props.
Import ListNotations.

(** for every order in which the reader list may be tried (the order is an input validated by the
    model: distinct RW backends, everyone before the last failed) a successful read returns the data
    of a replica whose mode in the controller's list is RW *)
Theorem C04_reader_is_rw : forall s off len order fs s' ef,
  struct_ok s -> do_read s off len order fs = (s', ROk, ef) ->
  exists a, e_served ef = Some a /\ aget (replicas s) a = Some RW.
Proof. exact read_served_by_rw. Qed.

Theorem C04_no_rw_replica_read_fails : forall s off len order fs,
  struct_ok s -> count_rw (replicas s) = 0%nat -> snd (fst (do_read s off len order fs)) <> ROk.
Proof. exact read_without_rw_fails. Qed.

Print Assumptions C04_reader_is_rw.
Print Assumptions C04_no_rw_replica_read_fails.
