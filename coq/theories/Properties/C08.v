(** * C08 — the replica directory is crash-consistent at every instant.

    Model: Meta (coq/theories/Meta/Model.v).  An operation is a finite tree of file-system calls;
    [exec p w cnt crash_at fail_at] runs it from directory [w]; process death = the call numbered
    [crash_at] is never entered; an injected failure = the call numbered [fail_at] is not performed and
    returns the errno.  [recover g w] is what a restarted process reads from [w]; [veq] compares two
    recovered views on everything recovery itself does not rewrite: chain names, inode of every member,
    Parent / Removed / UserCreated / Created of every member, and Size / Head / Rebuilding / Parent /
    Checkpoint / RevisionCounter of volume.meta (not: Dirty, and the per-disk RevisionCounter, which
    readDiskData brings up to date on every open).  Because an image's content is a function of its
    inode, and no call of an operation writes into an inode of either chain (only the data write of
    [OWrite] does, into the head), "same inode" is "every acknowledged byte and every retained
    snapshot reads back unchanged".

    Quantifier: every state reachable by a history (C12_reachable_invariant: [InvS]), every operation
    [o] (open, close, write, snapshot, remove, mark-removed, revert, resize, set-checkpoint,
    set-rebuilding, set-mode) with every argument for which the code as it is behaves ([ok_op]: all of
    them once the argument repairs are in, see C12), every k. *)
From Coq Require Import List ZArith NArith Bool Arith.
From Jiva Require Import Meta.Model Meta.Corr Meta.Proofs.
Import ListNotations.

(** the directory left by process death after k calls is the k-th directory of the fault-free run *)
Theorem C08_crash_prefix : forall A (p : prog A) w cnt k,
  dir_of_run (exec p w cnt (Some (cnt + k)) None) = nth k (states p w) (last (states p w) w).
Proof. exact crash_prefix. Qed.
Print Assumptions C08_crash_prefix.

(** ... and it can be reopened, to the chain before or the chain after the interrupted operation *)
Theorem C08_crash_atomic : forall g s o k,
  cfg_ok g -> InvS g s -> plain o -> ok_op g s o ->
  exists vpre vpost vk,
    recover g (s_fs s) = Some vpre
    /\ recover g (s_fs (fst (fst (step g s o)))) = Some vpost
    /\ recover g (dir_of_run (exec (op_prog g (s_mem s) o) (s_fs s) 0 (Some k) None)) = Some vk
    /\ (veq vk vpre \/ veq vk vpost).
Proof. exact crash_atomic. Qed.
Print Assumptions C08_crash_atomic.

(** the kill oracle of the check, at the level of views, on the model: after process death at any
    call, open succeeds and the reopened replica (directory and memory) shows the old or the new chain *)
Theorem C08_kill_reopen : forall g s o k,
  cfg_ok g -> InvS g s -> plain o -> ok_op g s o ->
  let w' := dir_of_run (exec (op_prog g (s_mem s) o) (s_fs s) 0 (Some k) None) in
  let s2 := fst (fst (step g (mkst w' None) OOpen)) in
  exists vpre vpost v2 m2,
    recover g (s_fs s) = Some vpre
    /\ recover g (s_fs (fst (fst (step g s o)))) = Some vpost
    /\ snd (fst (step g (mkst w' None) OOpen)) = ResOk
    /\ recover g (s_fs s2) = Some v2 /\ (veq v2 vpre \/ veq v2 vpost)
    /\ s_mem s2 = Some m2 /\ mchain g m2 = Some (names_of_chain (cv_chain v2)).
Proof. exact kill_reopen_model. Qed.
Print Assumptions C08_kill_reopen.

(** the same over histories: any history (with process deaths inside operations), then one more
    operation interrupted anywhere *)
Theorem C08_crash_atomic_reachable : forall g size now os o k,
  cfg_ok g -> size <> 0%N -> ok_hist g (created g size now) os ->
  let s := run_ops g (created g size now) os in
  plain o -> ok_op g s o ->
  exists vpre vpost vk,
    recover g (s_fs s) = Some vpre
    /\ recover g (s_fs (fst (fst (step g s o)))) = Some vpost
    /\ recover g (dir_of_run (exec (op_prog g (s_mem s) o) (s_fs s) 0 (Some k) None)) = Some vk
    /\ (veq vk vpre \/ veq vk vpost).
Proof. intros g size now os o k H1 H2 H3 s H4 H5. apply crash_atomic; try assumption. apply C12_wf_thm; assumption. Qed.
Print Assumptions C08_crash_atomic_reachable.

(** once an operation (any but the initial creation) has returned success, every rename / link /
    unlink / creating open it made is followed by a sync of the directory: the lint [durable_codes]
    of Corr.v holds on the canonical system-call trace of the fault-free run.  No invariant needed. *)
Theorem C08_durable : forall g s o w' om' k,
  plain o -> (forall sz nw, o <> OCreate sz nw) ->
  ff (op_prog g (s_mem s) o) (s_fs s) = (w', Done (om', Ok, k)) ->
  durable_codes (map snd (sys_trace 0 (trace_of_run (run (op_prog g (s_mem s) o) (s_fs s))))) = true.
Proof. exact durable. Qed.
Print Assumptions C08_durable.

(** FULL STATEMENT (C08_fault_atomic): for every invariant state, every operation, every k and errno,
    with [r := exec (op_prog g (s_mem s) o) (s_fs s) 0 None (Some (k, e))]: [dir_of_run r] recovers to
    the new view when r returns success, and to the old or the new view otherwise.
    FALSE for the code as it is: *)
Theorem C08_fault_refuted :
  InvS (cfg_asis 8) wit_state /\ ok_op (cfg_asis 8) wit_state (OSnap 1 false 1)
  (* ENOSPC on write(volume.meta.tmp) in a snapshot: success is returned, nothing can be recovered *)
  /\ fault_outcome (cfg_asis 8) wit_state (OSnap 1 false 1) 23 ENOSPC = (COk, false)
  (* the same in SetCheckpoint *)
  /\ fault_outcome (cfg_asis 8) wit_state (OCheckpoint (Some (Snap 1))) 1 ENOSPC = (COk, false).
Proof. exact fault_refuted_write_ignored. Qed.
Print Assumptions C08_fault_refuted.

(** ... and still false for Snapshot when encodeToFile tests the write error: EIO on the directory
    sync that follows rename(volume.meta.tmp, volume.meta) *)
Theorem C08_fault_refuted_sync_after_commit :
  fault_outcome (cfg_asis 8) wit_state (OSnap 1 false 1) 26 EIO = (CErr, false)
  /\ fault_outcome (mkcfg 8 true true false false false)
       (run_ops (mkcfg 8 true true false false false) (created (mkcfg 8 true true false false false) 16384 7) [OOpen; OSetMode (Some RW)])
       (OSnap 1 false 1) 26 EIO = (CErr, false).
Proof. exact fault_refuted_sync_after_commit. Qed.
Print Assumptions C08_fault_refuted_sync_after_commit.

(** PROVED PART: with the write error tested ([fixed g = true]), every program of the shape "rewrite
    volume.meta, return" ([fault_atomic_vol] in Proofs.v), instantiated for SetCheckpoint: whatever
    call fails, the directory recovers to exactly the old or the new view, and to the new one when
    success is returned.  MISSING: snapshot / remove / revert / resize / mark-removed / open / close /
    set-rebuilding under a failing call are not proved in general (snapshot is false until the second
    repair, see above); they are covered by the victim runs of the check (every call of every
    operation fails once) against the model's [exec] with [fail_at]. *)
Theorem C08_fault_atomic_partial : forall g w m c k e,
  fixed g = true -> InvS g (mkst w (Some m)) ->
  let p := op_prog g (Some m) (OCheckpoint c) in
  let r := exec p w 0 None (Some (k, e)) in
  exists vpre vpost vk,
    recover g w = Some vpre /\ recover g (fst (ff p w)) = Some vpost
    /\ recover g (dir_of_run r) = Some vk /\ (vk = vpre \/ vk = vpost)
    /\ (out_class (out_of_run r) = COk -> vk = vpost).
Proof. exact fault_atomic_checkpoint. Qed.
Print Assumptions C08_fault_atomic_partial.
