(** * C08 — the replica directory is crash-consistent at every instant.

    Model: Meta (coq/theories/Meta/Model.v).  An operation is a finite tree of file-system calls;
    [exec p w cnt crash_at fail_at] runs it from directory [w]; process death = the call numbered
    [crash_at] is never entered; an injected failure = the call numbered [fail_at] is not performed and
    returns the errno.  [recover g w] is what a restarted process reads from [w]; [veq] compares two
    recovered views on everything recovery itself does not rewrite: chain names, inode of every member,
    Parent / Removed / UserCreated / Created of every member, and Size / Head / Rebuilding / Parent /
    Checkpoint / RevisionCounter of volume.meta (not: Dirty, and the per-disk RevisionCounter, which
    readDiskData brings up to date on every open).  Because an image's content is a function of its
    inode, and no call of an operation writes into an inode of either chain (only the data write of
    [OWrite] does, into the head), "same inode" is "every acknowledged byte and every retained
    snapshot reads back unchanged".

    Quantifier: every state reachable by a history (C12_reachable_invariant: [InvS]), every operation
    [o] (open, close, write, snapshot, remove, mark-removed, revert, resize, set-checkpoint,
    set-rebuilding, set-mode) with every argument for which the code as it is behaves ([ok_op]: all of
    them once the argument repairs are in, see C12), every k.  ReplaceDisk is in the model but inside
    [ok_op] only where the code refuses it (a ReplaceDisk that is carried out unlinks the target's
    image before the source is linked in its place: it is not crash-atomic and is not claimed to be). *)
From Coq Require Import List ZArith NArith Bool Arith.
From Jiva Require Import Meta.Model Meta.Corr Meta.Proofs Meta.Fault.
Import ListNotations.

(** the directory left by process death after k calls is the k-th directory of the fault-free run *)
Theorem C08_crash_prefix : forall A (p : prog A) w cnt k,
  dir_of_run (exec p w cnt (Some (cnt + k)) None) = nth k (states p w) (last (states p w) w).
Proof. exact crash_prefix. Qed.
Print Assumptions C08_crash_prefix.

(** ... and it can be reopened, to the chain before or the chain after the interrupted operation *)
Theorem C08_crash_atomic : forall g s o k,
  cfg_ok g -> InvS g s -> plain o -> ok_op g s o ->
  exists vpre vpost vk,
    recover g (s_fs s) = Some vpre
    /\ recover g (s_fs (fst (fst (step g s o)))) = Some vpost
    /\ recover g (dir_of_run (exec (op_prog g (s_mem s) o) (s_fs s) 0 (Some k) None)) = Some vk
    /\ (veq vk vpre \/ veq vk vpost).
Proof. exact crash_atomic. Qed.
Print Assumptions C08_crash_atomic.

(** the kill oracle of the check, at the level of views, on the model: after process death at any
    call, open succeeds and the reopened replica (directory and memory) shows the old or the new chain *)
Theorem C08_kill_reopen : forall g s o k,
  cfg_ok g -> InvS g s -> plain o -> ok_op g s o ->
  let w' := dir_of_run (exec (op_prog g (s_mem s) o) (s_fs s) 0 (Some k) None) in
  let s2 := fst (fst (step g (mkst w' None) OOpen)) in
  exists vpre vpost v2 m2,
    recover g (s_fs s) = Some vpre
    /\ recover g (s_fs (fst (fst (step g s o)))) = Some vpost
    /\ snd (fst (step g (mkst w' None) OOpen)) = ResOk
    /\ recover g (s_fs s2) = Some v2 /\ (veq v2 vpre \/ veq v2 vpost)
    /\ s_mem s2 = Some m2 /\ mchain g m2 = Some (names_of_chain (cv_chain v2)).
Proof. exact kill_reopen_model. Qed.
Print Assumptions C08_kill_reopen.

(** the same over histories: any history (with process deaths inside operations), then one more
    operation interrupted anywhere *)
Theorem C08_crash_atomic_reachable : forall g size now os o k,
  cfg_ok g -> size <> 0%N -> ok_hist g (created g size now) os ->
  let s := run_ops g (created g size now) os in
  plain o -> ok_op g s o ->
  exists vpre vpost vk,
    recover g (s_fs s) = Some vpre
    /\ recover g (s_fs (fst (fst (step g s o)))) = Some vpost
    /\ recover g (dir_of_run (exec (op_prog g (s_mem s) o) (s_fs s) 0 (Some k) None)) = Some vk
    /\ (veq vk vpre \/ veq vk vpost).
Proof. intros g size now os o k H1 H2 H3 s H4 H5. apply crash_atomic; try assumption. apply C12_wf_thm; assumption. Qed.
Print Assumptions C08_crash_atomic_reachable.

(** once an operation (any but the initial creation) has returned success, every rename / link /
    unlink / creating open it made is followed by a sync of the directory: the lint [durable_codes]
    of Corr.v holds on the canonical system-call trace of the fault-free run.  No invariant needed. *)
Theorem C08_durable : forall g s o w' om' k,
  plain o -> (forall sz nw, o <> OCreate sz nw) ->
  ff (op_prog g (s_mem s) o) (s_fs s) = (w', Done (om', Ok, k)) ->
  durable_codes (map snd (sys_trace 0 (trace_of_run (run (op_prog g (s_mem s) o) (s_fs s))))) = true.
Proof. exact durable. Qed.
Print Assumptions C08_durable.

(** ** one failing call

    FULL STATEMENT (C08_fault_atomic): for every invariant state, every operation, every k and errno,
    with [r := exec (op_prog g (s_mem s) o) (s_fs s) 0 None (Some (k, e))]: [dir_of_run r] recovers to
    the new view when r returns success, and to the old or the new view otherwise.

    It was FALSE for the code before /repo 2b7d891 ([cfg_asis]: encodeToFile ignored the error of
    write(2)); kept as a record of finding F5: *)
Theorem C08_fault_refuted :
  InvS (cfg_asis 8) wit_state /\ ok_op (cfg_asis 8) wit_state (OSnap 1 false 1)
  (* ENOSPC on write(volume.meta.tmp) in a snapshot: success is returned, nothing can be recovered *)
  /\ fault_outcome (cfg_asis 8) wit_state (OSnap 1 false 1) 23 ENOSPC = (COk, false)
  (* the same in SetCheckpoint *)
  /\ fault_outcome (cfg_asis 8) wit_state (OCheckpoint (Some (Snap 1))) 1 ENOSPC = (COk, false).
Proof. exact fault_refuted_write_ignored. Qed.
Print Assumptions C08_fault_refuted.

(** It is still FALSE for the code as it is ([code_cfg]), for exactly one call: in Snapshot, EIO on
    the directory sync that follows rename(volume.meta.tmp, volume.meta) — an error is returned and
    the clean-up has removed the head that volume.meta names (finding F11,
    createdisk-sync-after-commit; not repaired).  That call is what [excluded] describes. *)
Theorem C08_fault_refuted_sync_after_commit :
  fault_outcome (cfg_asis 8) wit_state (OSnap 1 false 1) 26 EIO = (CErr, false)
  /\ fault_outcome (mkcfg 8 true true false false false false)
       (run_ops (mkcfg 8 true true false false false false) (created (mkcfg 8 true true false false false false) 16384 7) [OOpen; OSetMode (Some RW)])
       (OSnap 1 false 1) 26 EIO = (CErr, false).
Proof. exact fault_refuted_sync_after_commit. Qed.
Print Assumptions C08_fault_refuted_sync_after_commit.

Theorem C08_fault_refuted_code :
  let g := code_cfg 8 in
  let s := run_ops g (created g 16384 7) [OOpen; OSetMode (Some RW)] in
  let o := OSnap 1 false 1 in
  fault_outcome g s o 26 EIO = (CErr, false)
  /\ excluded o (op_prog g (s_mem s) o) (s_fs s) 26.
Proof.
  split; [vm_compute; reflexivity |]. split; [vm_compute; reflexivity |].
  exists 25. split; [reflexivity | vm_compute; reflexivity].
Qed.
Print Assumptions C08_fault_refuted_code.

(** PROVED (Meta/Fault.v, [fault_atomic_all]): with the write error tested ([fixed g = true], the code
    since 2b7d891) and createDisk's commit as it is ([fix_commit g = false]): from every invariant
    state, for EVERY operation of the model — open, close, write, snapshot, remove, mark-removed
    (PrepareRemoveDisk), revert, resize, set-checkpoint, set-rebuilding, set-mode, create on an
    existing volume — whichever call fails with ENOSPC or EIO, the directory left recovers to the old
    or the new view (up to [veq]), and to the new one when success is returned.

    The exclusion, as a predicate on the failing call: [excluded o p w k] is [False] unless [o] is a
    Snapshot, and then it is [f11_at p w k]: call k is the directory sync and call k-1 is
    rename(volume.meta.tmp, volume.meta).

    Why "_partial": (1) that one call is excluded (the statement is false there, see above);
    (2) Create on an empty directory (the very first operation of a history) is not covered — [InvS]
    asks for a recoverable directory; (3) the errno is ENOSPC or EIO ([EE]; ENOENT / EEXIST have a
    meaning to the code and are not injected failures), and the failing call is one that reaches the
    kernel as a system call the harness can fail ([traced]: not the stat / close / pread calls).
    Revert and open under a failing call rest on: crash atomicity of the run ([Good] states) + every
    failure being reported at once or masked by a retry ([errQ]); the one place where the code goes
    on writing after a failure (revertDisk putting the old volume.meta back) is treated by hand. *)
Theorem C08_fault_atomic_partial : forall g s o k e,
  cfg_ok g -> fixed g = true -> fix_commit g = false ->
  InvS g s -> ok_op g s o -> EE e ->
  let p := op_prog g (s_mem s) o in
  let r := exec p (s_fs s) 0 None (Some (k, e)) in
  (forall c, call_at p (s_fs s) k = Some c -> traced c = true /\ ~ excluded o p (s_fs s) k) ->
  exists vpre vpost vk,
    recover g (s_fs s) = Some vpre /\ recover g (fst (ff p (s_fs s))) = Some vpost
    /\ recover g (dir_of_run r) = Some vk /\ (veq vk vpre \/ veq vk vpost)
    /\ (forall a, out_of_run r = Done a -> snd (fst a) = Ok -> veq vk vpost).
Proof.
  intros g s o k e Hcfg Hfx Hfc Hinv Hok He p r Hc.
  destruct (fault_atomic_all g s o Hcfg Hfx Hfc Hinv Hok k e He Hc) as [vpre [vpost [H1 [H2 [vk [H3 [H4 H5]]]]]]].
  exists vpre, vpost, vk. split; [exact H1 | split; [exact H2 | split; [exact H3 | split; [exact H4 | exact H5]]]].
Qed.
Print Assumptions C08_fault_atomic_partial.

(** the same for the code as it is, after any history *)
Theorem C08_fault_atomic_reachable_partial : forall n size now os o k e,
  2 <= n -> size <> 0%N ->
  let g := code_cfg n in
  ok_hist g (created g size now) os ->
  let s := run_ops g (created g size now) os in
  ok_op g s o -> EE e ->
  let p := op_prog g (s_mem s) o in
  let r := exec p (s_fs s) 0 None (Some (k, e)) in
  (forall c, call_at p (s_fs s) k = Some c -> traced c = true /\ ~ excluded o p (s_fs s) k) ->
  exists vpre vpost vk,
    recover g (s_fs s) = Some vpre /\ recover g (fst (ff p (s_fs s))) = Some vpost
    /\ recover g (dir_of_run r) = Some vk /\ (veq vk vpre \/ veq vk vpost)
    /\ (forall a, out_of_run r = Done a -> snd (fst a) = Ok -> veq vk vpost).
Proof.
  intros n size now os o k e Hn Hsz g Hh s Hok He p r Hc.
  apply C08_fault_atomic_partial; try assumption; try reflexivity.
  apply C12_wf_thm; assumption.
Qed.
Print Assumptions C08_fault_atomic_reachable_partial.

(** ** after a death inside an operation the restarted process can go on: leftovers are cleaned

    FULL STATEMENT (C08_crash_then_snapshot_succeeds): for every reachable state, every operation and
    every k, the directory left by death after k calls is opened and then accepts a Snapshot (with a
    name that is not in use) and a Revert to any retained snapshot, both returning success over a
    well-formed chain.  NOT PROVED in general: it needs, on top of [C08_kill_reopen], the invariant
    that no image above the current head holds data and that the new snapshot's two names are free,
    carried through every operation.  What is proved is the statement for every k of a Snapshot and
    of a Revert on one representative pre-state (three snapshots with data, process death), by
    evaluation of the model ([follow_all_ok]: death before every call including none; the follow-up
    is open, set mode RW, then Snapshot s8 / Revert to the base snapshot; every step returns success
    and satisfies [wf_obs]); the check evaluates the same oracle on the model and on the real replica
    for every executed case.  [create_new_head] transcribes the leftover rule of the code: an
    existing next-head file without allocated data is removed and recreated, one with data is refused. *)
Theorem C08_crash_then_follow_ex :
  let g := code_cfg 8 in
  let u := [Head 0; Head 1; Head 2; Head 3; Head 4; Head 5; Head 6; Head 7; Snap 0; Snap 1; Snap 2; Snap 3; Snap 8; Snap 9] in
  let pre := [OCreate 16384 7; OOpen; OSetMode (Some RW); OWrite; OSnap 1 true 1; OWrite; OSnap 2 false 2; OWrite;
              OSnap 3 false 3; OWrite; OCrash] in
  let fsnap := [OOpen; OSetMode (Some RW); OSnap 8 false 8] in
  let frev := [OOpen; OSetMode (Some RW); ORevert (Snap 1) 8] in
  follow_all_ok (mkvcase g u pre (OSnap 9 true 9)) fsnap = true
  /\ follow_all_ok (mkvcase g u pre (OSnap 9 true 9)) frev = true
  /\ follow_all_ok (mkvcase g u pre (ORevert (Snap 2) 9)) fsnap = true
  /\ follow_all_ok (mkvcase g u pre (ORevert (Snap 2) 9)) frev = true.
Proof. vm_compute. repeat split. Qed.
Print Assumptions C08_crash_then_follow_ex.
