(** * C08 — crash consistency of the replica directory (provisional: being extended) *)
From Coq Require Import List ZArith NArith Bool Arith.
From Jiva Require Import Meta.Model Meta.Corr Meta.Proofs.
Import ListNotations.

Theorem C08_crash_prefix : forall A (p : prog A) w cnt k,
  dir_of_run (exec p w cnt (Some (cnt + k)) None) = nth k (states p w) (last (states p w) w).
Proof. exact crash_prefix. Qed.
Print Assumptions C08_crash_prefix.
