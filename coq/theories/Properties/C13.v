(** C13 — volume snapshots only with all RF replicas RW; checkpoint recorded only when all agree,
    withdrawn as soon as a replica leaves.   Model: Ctl. *)
From Coq Require Import List ZArith Bool Arith.
From Jiva Require Import Ctl.Model Ctl.Proofs Ctl.Props.
Import ListNotations.

Theorem C13_snapshot_gate : forall s n fs, status_ok s -> count_rw (replicas s) <> rf s ->
  do_snapshot s n fs = (s, RErr).
Proof. exact snapshot_gate. Qed.

(** a checkpoint is recorded only if exactly RF replicas are RW, every attached backend is RW, all of
    them report the same latest snapshot (which becomes the checkpoint), and every one stored it *)
Theorem C13_checkpoint_recorded_only_when_agreed : forall s fs n,
  checkpoint (update_checkpoint s fs) = Some n ->
  count_rw (replicas s) = rf s
  /\ all_rw_backends s = true
  /\ (forall p, In p (backends s) -> exists t, f_chain (wget (w s) (fst p)) = n :: t)
  /\ (forall p, In p (backends s) -> flt fs (fst p) KSetCp = false /\ flt fs (fst p) KChain = false).
Proof. exact checkpoint_recorded_sound. Qed.

Theorem C13_checkpoint_withdrawn_when_a_replica_leaves : forall s fs a, struct_ok s -> has_replica s a = true ->
  checkpoint (remove_replica_nolock s fs a) = None.
Proof. exact checkpoint_withdrawn_on_removal. Qed.

Print Assumptions C13_snapshot_gate.
Print Assumptions C13_checkpoint_recorded_only_when_agreed.
Print Assumptions C13_checkpoint_withdrawn_when_a_replica_leaves.
