(** C13 — volume snapshots only with all RF replicas RW; checkpoint recorded only when all agree,
    withdrawn as soon as a replica leaves.   Model: Ctl. *)
From Coq Require Import List ZArith Bool Arith.
From Jiva Require Import Ctl.Model Ctl.Proofs Ctl.Props.
Import ListNotations.

Theorem C13_snapshot_gate : forall s n fs, status_ok s -> count_rw (replicas s) <> rf s ->
  do_snapshot s n fs = (s, RErr).
Proof. exact snapshot_gate. Qed.

(** a checkpoint is recorded only if exactly RF replicas are RW, every attached backend is RW, all of
    them report the same latest snapshot (which becomes the checkpoint), and every one stored it *)
Theorem C13_checkpoint_recorded_only_when_agreed : forall s fs n,
  checkpoint (update_checkpoint s fs) = Some n ->
  count_rw (replicas s) = rf s
  /\ all_rw_backends s = true
  /\ (forall p, In p (backends s) -> exists t, f_chain (wget (w s) (fst p)) = n :: t)
  /\ (forall p, In p (backends s) -> flt fs (fst p) KSetCp = false /\ flt fs (fst p) KChain = false).
Proof. exact checkpoint_recorded_sound. Qed.

Theorem C13_checkpoint_withdrawn_when_a_replica_leaves : forall s fs a, struct_ok s -> has_replica s a = true ->
  checkpoint (remove_replica_nolock s fs a) = None.
Proof. exact checkpoint_withdrawn_on_removal. Qed.

Print Assumptions C13_snapshot_gate.
Print Assumptions C13_checkpoint_recorded_only_when_agreed.
Print Assumptions C13_checkpoint_withdrawn_when_a_replica_leaves.

(** *** checkpoint soundness over all reachable states (Ctl/CheckpointInv.v) *)
From Jiva Require Import Ctl.CheckpointInv.

(** In every state reachable by any history (any fault scripts, duplicates, unknown addresses; start
    requests naming at most one replica), from any initial world: if the controller holds checkpoint [n]
    and no monitor notification is undelivered, then exactly RF replicas are listed and all are RW, every
    one of them has snapshot [n] in its chain, and every one whose persisted checkpoint is predicted has
    persisted exactly [n]. *)
Theorem C13_checkpoint_sound_reachable : forall (es : list event) (rf0 : nat) (w0 : world) (n : nat),
  (1 <= rf0)%nat -> forallb ev_wf es = true ->
  let s := run (init rf0 w0) es in
  checkpoint s = Some n -> pend_mon s = [] ->
  count_rw (replicas s) = rf s /\ length (replicas s) = rf s
  /\ forall a, In a (keys (replicas s)) ->
       In n (f_chain (wget (w s) a)) /\ (f_cpk (wget (w s) a) = true -> f_cp (wget (w s) a) = Some n).
Proof. exact checkpoint_sound_reachable. Qed.

(** the invariant behind it is preserved by every event *)
Theorem C13_checkpoint_sound_step : forall s e, ck_inv s -> ev_wf e = true ->
  ck_inv (fst (fst (step s e))) /\ checkpoint_sound (fst (fst (step s e))).
Proof. exact checkpoint_sound_step. Qed.

(** without the quiescence condition: while a checkpoint is held exactly RF replicas are listed, none is
    rebuilding, every one has the snapshot and has persisted the checkpoint; a listed replica that is not
    RW is marked ERR and its removal (which withdraws the checkpoint) is queued *)
Theorem C13_checkpoint_holders_reachable : forall (es : list event) (rf0 : nat) (w0 : world) (n : nat),
  (1 <= rf0)%nat -> forallb ev_wf es = true ->
  let s := run (init rf0 w0) es in
  checkpoint s = Some n ->
  length (replicas s) = rf s
  /\ (forall a m, In (a, m) (replicas s) -> m = RW \/ (m = ERR /\ exists i, In (i, a) (pend_mon s)))
  /\ forall a, In a (keys (replicas s)) ->
       In n (f_chain (wget (w s) a)) /\ f_cp (wget (w s) a) = Some n /\ f_cpk (wget (w s) a) = true.
Proof. exact checkpoint_holders_reachable. Qed.

(** the quiescence condition is necessary: after a mode change to ERR the checkpoint is held, with no RW
    replica, until the monitor delivers the removal *)
Theorem C13_checkpoint_held_until_monitor_fires :
  let s := run (init 1 ex_world) (ex_boot ++ [SetMode 0%nat ERR]) in
  checkpoint s = Some 5%nat /\ count_rw (replicas s) = 0%nat /\ rf s = 1%nat /\ pend_mon s = [(0%nat, 0%nat)]
  /\ checkpoint (run s [MonFire 0%nat []]) = None.
Proof. exact checkpoint_held_until_monitor_fires. Qed.

Print Assumptions C13_checkpoint_sound_reachable.
Print Assumptions C13_checkpoint_sound_step.
Print Assumptions C13_checkpoint_holders_reachable.
Print Assumptions C13_checkpoint_held_until_monitor_fires.

(** *** the trace oracle of C13 accepts every trace of the model (Ctl/OracleProofs18.v): for histories
    whose add / start requests name observed replicas and quiescence flags that are true only where no
    monitor notification is undelivered *)
From Jiva Require Import Ctl.Corr Ctl.Oracles Ctl.OracleProofs2 Ctl.OracleProofs18.

Theorem C13_oracle_holds_on_model : forall es rf0 n w0 qs, (1 <= rf0)%nat ->
  forallb ev_wf es = true -> forallb (ev_addrs_lt n) es = true -> qs_sound (init rf0 w0) es qs ->
  walk_q (fun q => lift (c13_step rf0 q) (c13_pair rf0))
         0 (obs0 rf0 n w0) (map One es) (trace n (init rf0 w0) (map One es)) qs = None.
Proof. exact c13_oracle_model_init. Qed.

(** a checkpoint that an event newly records is the latest snapshot of every listed replica *)
Theorem C13_recorded_checkpoint_is_latest_snapshot : forall s e c, struct_ok s -> ev_wf e = true ->
  checkpoint (fst (fst (step s e))) = Some c ->
  checkpoint s = Some c
  \/ forall a, In a (keys (replicas (fst (fst (step s e))))) ->
       exists tl, f_chain (wget (w (fst (fst (step s e)))) a) = c :: tl.
Proof.
  intros s e c H Hwf Hc. destruct (checkpoint_fresh_step s e H Hwf c Hc) as [P|[_ P]]; [left; exact P|right; exact P].
Qed.

(** ... and at that moment exactly RF replicas are listed, all RW (no request records a checkpoint and
    marks a replica failed afterwards), and every one has persisted it *)
Theorem C13_recorded_checkpoint_all_rw : forall s e c, ck_inv s -> ev_wf e = true ->
  checkpoint (fst (fst (step s e))) = Some c -> checkpoint s <> Some c ->
  count_rw (replicas (fst (fst (step s e)))) = rf (fst (fst (step s e)))
  /\ length (replicas (fst (fst (step s e)))) = rf (fst (fst (step s e)))
  /\ forall a, In a (keys (replicas (fst (fst (step s e))))) ->
       (exists tl, f_chain (wget (w (fst (fst (step s e)))) a) = c :: tl)
       /\ f_cp (wget (w (fst (fst (step s e)))) a) = Some c /\ f_cpk (wget (w (fst (fst (step s e)))) a) = true.
Proof. exact recorded_checkpoint_all_rw. Qed.

Print Assumptions C13_oracle_holds_on_model.
Print Assumptions C13_recorded_checkpoint_is_latest_snapshot.
Print Assumptions C13_recorded_checkpoint_all_rw.

(** *** ... histories with concurrent pairs included (Ctl/OracleProofsX18.v): both requests of a pair are
    well-formed and name observed replicas; a quiescence flag is true only where no monitor notification
    is undelivered after the whole request (pair) *)
From Jiva Require Import Ctl.OracleProofsX18.

Theorem C13_oracle_holds_on_model_with_pairs : forall xs rf0 n w0 qs, (1 <= rf0)%nat ->
  forallb (x_all ev_wf) xs = true -> forallb (x_all (ev_addrs_lt n)) xs = true ->
  xqs_sound (init rf0 w0) xs qs ->
  walk_q (fun q => lift (c13_step rf0 q) (c13_pair rf0))
         0 (obs0 rf0 n w0) xs (trace n (init rf0 w0) xs) qs = None.
Proof. exact c13_oracle_model_x_init. Qed.

(** a snapshot accepted while all RF replicas were listed RW is on every one of them that did not fail it,
    also after the request that was waiting behind it *)
Theorem C13_snapshot_survives_queued_request : forall s nm fs b x,
  struct_ok s -> count_rw (replicas s) = length (replicas s) ->
  snd (do_snapshot s nm fs) = ROk -> In x (keys (replicas s)) -> flt fs x KSnap = false ->
  In nm (f_chain (wget (w (fst (fst (step (fst (do_snapshot s nm fs)) b)))) x)).
Proof. exact snapshot_survives_second. Qed.

Print Assumptions C13_oracle_holds_on_model_with_pairs.
Print Assumptions C13_snapshot_survives_queued_request.

(** *** the snapshot fan-out: with the gate open and the request fanned out (the name lookup on the last RW
    replica succeeds and the name is new: the oracle's guard [snap_called]), every listed replica whose call
    fails is marked ERR.  When the lookup refuses the request nobody is called and nobody is marked
    ([c13_accepts_refused_existing_name], [c13_accepts_refused_failed_lookup] in Ctl/OracleProofs18.v) *)
Theorem C13_failed_snapshot_call_leaves_service : forall s n fs r0 a,
  struct_ok s -> status_ok s -> count_rw (replicas s) = rf s -> length (replicas s) = rf s ->
  last_rw s = Some r0 -> flt fs r0 KHttp = false -> existsb (Nat.eqb n) (f_chain (wget (w s) r0)) = false ->
  In a (keys (replicas s)) -> flt fs a KSnap = true ->
  ~ In a (in_service (replicas (fst (do_snapshot s n fs)))).
Proof. exact snapshot_failed_not_in_service. Qed.

Print Assumptions C13_failed_snapshot_call_leaves_service.
