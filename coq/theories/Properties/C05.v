(** C05 — a failing minority of replicas is isolated.   Model: Ctl. *)
From Coq Require Import List ZArith Bool Arith.
From Jiva Require Import Ctl.Model Ctl.Proofs Ctl.Props.
Import ListNotations.
Open Scope Z_scope.

(** every replica that errors or times out on a write is out of the replica list when the operation
    returns (same lock, before any further I/O) *)
Theorem C05_failed_replicas_isolated : forall s wid off len fs a,
  struct_ok s -> ro s = false -> avail s = true -> 0 <= off -> off + len <= csize s ->
  In a (writers s) -> (flt fs a KWrite || flt fs a KWriteAp) = true ->
  ~ In a (keys (replicas (fst (do_write s wid off len fs)))).
Proof. exact write_failed_detached. Qed.

(** removal through any of the detectors really removes, whatever else is pending *)
Theorem C05_removed_is_gone : forall s fs a, struct_ok s ->
  ~ In a (keys (replicas (remove_replica_nolock s fs a))).
Proof. exact remove_replica_gone. Qed.

(** a detached replica comes back only through add-commit (or a start on an empty list) *)
Theorem C05_comes_back_only_by_add : forall s e x,
  In x (keys (replicas (fst (fst (step s e))))) -> ~ In x (keys (replicas s)) ->
  match e with AddCommit a _ => x = a | Start _ _ => replicas s = [] | _ => False end.
Proof. exact enter_only_by_add_or_start. Qed.

(** the failure of a minority does not surface: if the writers that do not fail are a strict majority
    and one RW replica is among them, the write in flight is acknowledged *)
Theorem C05_minority_failure_not_surfaced : forall s wid off len fs x,
  struct_ok s -> ro s = false -> avail s = true -> 0 <= off -> off + len <= csize s ->
  majority_ok (length (writers s)) (length (io_errs (writers s) fs KWrite KWriteAp)) = true ->
  aget (replicas s) x = Some RW -> ~ In x (io_errs (writers s) fs KWrite KWriteAp) ->
  snd (do_write s wid off len fs) = ROk.
Proof. exact write_minority_failure_acked. Qed.

Print Assumptions C05_failed_replicas_isolated.
Print Assumptions C05_minority_failure_not_surfaced.
Print Assumptions C05_removed_is_gone.
Print Assumptions C05_comes_back_only_by_add.

(** the executable trace oracle that the check evaluates on the real controller's observations accepts
    every trace of the model (single-request histories, any fault scripts, any n observed replicas) *)
From Jiva Require Import Ctl.Corr Ctl.Oracles Ctl.OracleProofs2.

Theorem C05_oracle_accepts_model_traces : forall es rf0 n w0, (1 <= rf0)%nat -> forallb ev_wf es = true ->
  walk (lift (c05_step rf0) nopair) 0 (obs0 rf0 n w0) (map One es) (trace n (init rf0 w0) (map One es)) = None.
Proof. exact c05_oracle_model. Qed.

Print Assumptions C05_oracle_accepts_model_traces.

(** the same for histories with concurrent pairs *)
From Jiva Require Import Ctl.Model Ctl.Corr Ctl.Oracles Ctl.Proofs Ctl.OracleProofs2 Ctl.OracleProofsX Ctl.OracleProofsX2.

Theorem C05_oracle_accepts_model_traces_with_pairs : forall xs rf0 n w0, (1 <= rf0)%nat -> forallb xev_wf xs = true ->
  walk (lift (c05_step rf0) nopair) 0 (obs0 rf0 n w0) xs (trace n (init rf0 w0) xs) = None.
Proof. exact c05_oracle_model_x. Qed.

Print Assumptions C05_oracle_accepts_model_traces_with_pairs.
