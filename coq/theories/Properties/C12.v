(** * C12 — the snapshot chain stays a well-formed path and survives reopen unchanged.

    Model: Meta (coq/theories/Meta/Model.v — replica/replica.go as a sequence of file-system calls plus
    the in-memory triple diskData / activeDiskData / diskChildrenMap).  Definitions used below:
    - [created g size now]: the state after Server.Create on an empty directory;
    - [run_ops g s os]: the history [os] from [s]; operations: create / open / close / process death
      between operations / set-mode / write / snapshot / remove / mark-removed / revert / resize /
      set-checkpoint / set-rebuilding / replace-disk, and [OCrashIn k o]: process death inside [o]
      after k calls; arguments are arbitrary (unknown names, head, latest, base, wrong mode, duplicate
      names);
    - [recover g w]: what a restarted process reads from directory [w] (None: cannot be opened);
    - [linked f l]: every member of [l] has its image and its metadata file in [f], the metadata holds
      the member's record, and Parent is the next member (the last has none).

    FULL STATEMENT (C12_wf): for every g with 2 <= maxlen, every size <> 0 and EVERY history os,
    the conclusion of [C12_wf_partial] holds.  It was false for the code before /repo 67e4d78 and
    a2c8764 ([cfg_asis]; [C12_wf_refuted_revert], [C12_wf_refuted_children], kept as records of the
    findings F10 and F12).  It is proved
    - for every g, for every history that satisfies [ok_hist]: the arguments avoid the shapes of those
      findings (which no longer exist once the cfg flags fix_dup, fix_rev, fix_children are set, as they
      are in [code_cfg]) and every ReplaceDisk in it is one the code refuses (wrong mode, the head as
      target, a source that is no file) — [C12_wf_partial];
    - for the code with the three argument repairs (the code as it is), for every history without
      ReplaceDisk ([norepl]) — [C12_wf_repaired].
    MISSING: a ReplaceDisk that is carried out (source = the target's child, the coalesce path) is
    modelled ([replace_disk]) and compared with the code by the correspondence runs of the check,
    but not covered by the invariant theorem.

    Under injected failures: [C12_failed_unchanged] — a snapshot / resize / set-checkpoint that does
    not return success, whichever of its calls failed, leaves the memory as it was (the code since
    /repo 0472ed5, 0c1a1af, a3198e0; refuted for the code before by [C12_failed_unchanged_refuted]).

    The oracle of the check ([Corr.c12_oracle_b]): its structural clause [wf_obs] — Chain() is a
    duplicate-free path, every member is listed with its record, its only child and its parent, has
    its image and a metadata file holding that record, the members are pairwise different inodes,
    volume.meta names the head — is PROVED true on every observation of every model trace
    ([C12_oracle_wf_model], Meta/Oracle.v).  Its two relational clauses (a refused operation leaves
    chain, records, data tokens and Info() as they were; close / process death then open gives the
    same) are proved at the level of recovered views ([C12_refused_unchanged],
    [C12_reopen_roundtrip]); in the oracle's own boolean form they additionally compare the
    per-image data-write count, whose invariance is not proved in general — there the oracle is
    evaluated on the model's own trace of every executed history ([model_oracle]) and on two
    representative histories by [vm_compute] (Proofs.c12_oracle_model_ex1/2). *)
From Coq Require Import List ZArith NArith Bool Arith.
From Jiva Require Import Meta.Model Meta.Corr Meta.Proofs Meta.Oracle.
Import ListNotations.

(** the conclusion: a single acyclic path from the head to the base in which every member has its
    data and metadata file, and a memory that agrees with the directory *)
Definition chain_wf (g : cfg) (s : st) : Prop :=
  exists v, recover g (s_fs s) = Some v
    /\ NoDup (names_of_chain (cv_chain v))
    /\ first_name (cv_chain v) = i_head (cv_info v)
    /\ linked (files (s_fs s)) (cv_chain v)
    /\ length (cv_chain v) <= maxlen g
    /\ match s_mem s with
       | Some m => mchain g m = Some (names_of_chain (cv_chain v))
                   /\ (forall d, m_disks m d = option_map mb_disk (find_mb d (cv_chain v)))
                   /\ (forall d, In d (names_of_chain (cv_chain v)) -> m_children m (Some d) = child_in d (cv_chain v))
                   /\ m_active m = rev (names_of_chain (cv_chain v))
                   /\ info_sim (m_info m) (cv_info v)
       | None => True
       end.

Theorem C12_wf_partial : forall g size now os,
  cfg_ok g -> size <> 0%N -> ok_hist g (created g size now) os ->
  chain_wf g (run_ops g (created g size now) os).
Proof. intros g size now os H1 H2 H3. apply InvS_facts. apply C12_wf_thm; assumption. Qed.
Print Assumptions C12_wf_partial.

Theorem C12_wf_repaired : forall g size now os,
  cfg_ok g -> size <> 0%N ->
  fix_dup g = true -> fix_rev g = true -> fix_children g = true ->
  Forall shape_ok os -> Forall norepl os ->
  chain_wf g (run_ops g (created g size now) os).
Proof.
  intros g size now os H1 H2 F1 F2 F3 Hs Hn. apply InvS_facts. apply C12_wf_thm; try assumption.
  apply ok_hist_repaired; try assumption. apply created_inv; assumption.
Qed.
Print Assumptions C12_wf_repaired.

Theorem C12_wf_refuted_revert :
  let g := cfg_asis 8 in
  let s := run_ops g wit_state [OSnap 1 false 1] in
  InvS g s /\ snd (fst (step g s (ORevert (Head 1) 5))) = ResFailed
  /\ recover g (s_fs (fst (fst (step g s (ORevert (Head 1) 5))))) = None.
Proof. exact wf_refuted_revert_target. Qed.
Print Assumptions C12_wf_refuted_revert.

Theorem C12_wf_refuted_children :
  let g := cfg_asis 8 in
  let s := run_ops g wit_state [OSnap 1 false 1; OSnap 2 false 2; OSnap 3 false 3; ORemove (Snap 2); OSnap 2 false 4] in
  match s_mem s with
  | Some m => mchain g m = Some [Head 4; Snap 2; Snap 3; Snap 1] /\ m_children m (Some (Snap 2)) = [Snap 3; Head 4]
  | None => False
  end.
Proof. exact wf_refuted_children_stale. Qed.
Print Assumptions C12_wf_refuted_children.

(** close (how = true) or process death between operations (how = false), then open: the same chain
    (names, inodes, Parent / Removed / UserCreated / Created per member — [veq]), the open succeeds
    and the new memory shows that chain.  From every invariant state, hence (C12_wf_partial) from
    every reachable one. *)
Theorem C12_reopen_roundtrip : forall g w m (how : bool),
  cfg_ok g -> InvS g (mkst w (Some m)) ->
  let s1 := fst (fst (step g (mkst w (Some m)) (if how then OClose else OCrash))) in
  let s2 := fst (fst (step g s1 OOpen)) in
  exists v v2 m2,
    recover g w = Some v /\ recover g (s_fs s2) = Some v2 /\ veq v v2
    /\ snd (fst (step g s1 OOpen)) = ResOk
    /\ s_mem s2 = Some m2 /\ mchain g m2 = Some (names_of_chain (cv_chain v))
    /\ (forall d, m_disks m2 d = option_map mb_disk (find_mb d (cv_chain v2))).
Proof. exact reopen_roundtrip. Qed.
Print Assumptions C12_reopen_roundtrip.

(** an operation that does not return success leaves the recovered view and the memory as they were *)
Theorem C12_refused_unchanged : forall g s o,
  cfg_ok g -> InvS g s -> plain o -> ok_op g s o ->
  snd (fst (step g s o)) <> ResOk ->
  recover g (s_fs (fst (fst (step g s o)))) = recover g (s_fs s) /\ s_mem (fst (fst (step g s o))) = s_mem s.
Proof. exact refused_unchanged. Qed.
Print Assumptions C12_refused_unchanged.

(** the same under injected failures, for the three operations repaired in /repo 0472ed5 (Resize),
    0c1a1af (SetCheckpoint), a3198e0 (createDisk): a snapshot / resize / set-checkpoint that does not
    return success — because it is refused, or because ANY of its calls fails with any errno
    ([fa]), from any directory and memory, also when the process dies later ([ca]) — leaves the memory
    as it was.  [fix_mem g = true] is what the code has ([code_cfg]). *)
Theorem C12_failed_unchanged : forall g w m o cnt ca fa om r n,
  fix_mem g = true -> mem_guarded o ->
  out_of_run (exec (op_prog g (Some m) o) w cnt ca fa) = Done (om, r, n) -> r <> Ok -> om = Some m.
Proof. exact failed_unchanged. Qed.
Print Assumptions C12_failed_unchanged.

Theorem C12_failed_unchanged_code : forall n w m o k e om r a,
  mem_guarded o ->
  out_of_run (exec (op_prog (code_cfg n) (Some m) o) w 0 None (Some (k, e))) = Done (om, r, a) -> r <> Ok -> om = Some m.
Proof. intros n w m o k e om r a Hg. apply failed_unchanged; [reflexivity | exact Hg]. Qed.
Print Assumptions C12_failed_unchanged_code.

(** it was false for the code before those commits (findings createdisk-memory-on-failure,
    resize-size-on-failure, checkpoint-set-on-failure; kept as a record): with ENOSPC on the open of
    volume.meta.tmp a SetCheckpoint leaves the new checkpoint, a Resize the new size, and a Snapshot
    a memory whose Chain() fails *)
Theorem C12_failed_unchanged_refuted :
  let g := mkcfg 8 true true true false true false in
  let s := run_ops g (created g 16384 7) [OOpen; OSetMode (Some RW); OSnap 1 false 1] in
  let mem_after o k := match s_mem s with
                       | Some m => match out_of_run (exec (op_prog g (Some m) o) (s_fs s) 0 None (Some (k, ENOSPC))) with
                                   | Done (Some m', r, _) => Some (r, i_checkpoint (m_info m'), i_size (m_info m'), mchain g m')
                                   | _ => None end
                       | None => None end in
  mem_after (OCheckpoint (Some (Snap 1))) 0 = Some (Failed, Some (Snap 1), 16384%N, Some [Head 1; Snap 1])
  /\ mem_after (OResize 32768) 2 = Some (Failed, None, 32768%N, Some [Head 1; Snap 1])
  /\ mem_after (OSnap 2 false 2) 22 = Some (Failed, None, 16384%N, None).
Proof. exact failed_unchanged_refuted. Qed.
Print Assumptions C12_failed_unchanged_refuted.

(** the invariant used above is the one every reachable state has *)
Theorem C12_reachable_invariant : forall g size now os,
  cfg_ok g -> size <> 0%N -> ok_hist g (created g size now) os -> InvS g (run_ops g (created g size now) os).
Proof. exact C12_wf_thm. Qed.
Print Assumptions C12_reachable_invariant.

(** the structural clause of the check's oracle on every observation of every model trace: for every
    history from the creation of the volume (as the check runs it: [OCreate size now :: os] from the
    empty directory) and every duplicate-free universe [u] of disk names that names the members of
    every chain of the run ([covered]) *)
Theorem C12_oracle_wf_model : forall g u size now os,
  cfg_ok g -> size <> 0%N -> NoDup u ->
  ok_hist g (created g size now) os -> covered g u (created g size now) os ->
  (forall v, recover g (s_fs (created g size now)) = Some v -> forall d, In d (names_of_chain (cv_chain v)) -> In d u) ->
  Forall (fun o => wf_obs o = true) (trace_ops g u init (OCreate size now :: os)).
Proof. exact wf_obs_history. Qed.
Print Assumptions C12_oracle_wf_model.

(** ... and of every state of the invariant *)
Theorem C12_oracle_wf_state : forall g u s r n,
  InvS g s -> NoDup u ->
  (forall v, recover g (s_fs s) = Some v -> forall d, In d (names_of_chain (cv_chain v)) -> In d u) ->
  wf_obs (observe g u s r n) = true.
Proof. exact wf_obs_observe. Qed.
Print Assumptions C12_oracle_wf_state.
