(** * C12 — the chain stays a well-formed path and survives reopen (provisional: being extended) *)
From Coq Require Import List ZArith NArith Bool Arith.
From Jiva Require Import Meta.Model Meta.Corr Meta.Proofs.
Import ListNotations.

Theorem C12_crash_prefix : forall A (p : prog A) w cnt k,
  dir_of_run (exec p w cnt (Some (cnt + k)) None) = nth k (states p w) (last (states p w) w).
Proof. exact crash_prefix. Qed.
Print Assumptions C12_crash_prefix.
