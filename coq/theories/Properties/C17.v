(** C17 — replica operations are gated by its mode and open/closed state.
    Model: Srv.  Only statements here. *)
From Coq Require Import List ZArith Bool.
From Jiva Require Import Srv.Model Srv.Corr Srv.Proofs.
Import ListNotations.
Open Scope Z_scope.

(** a write changes the data only if the replica is open and RW or WO; otherwise it is refused and
    nothing at all changes *)
Theorem C17_write_gate : forall s id, serving_st s = false -> step s (OWrite id) = (s, RErr).
Proof. exact write_gate. Qed.

Theorem C17_write_applies_only_when_serving : forall s id,
  applied (fst (step s (OWrite id))) <> applied s ->
  serving_st s = true /\ snd (step s (OWrite id)) = ROk.
Proof. exact write_applies_only_when_serving. Qed.

(** a closed replica serves no I/O and no management operation that needs the volume *)
Theorem C17_closed_no_io : forall s o, r s = None ->
  match o with OWrite _ | ORead | OSnapshot | ORemove | OPrepRemove | OSetMode _ | OSetRev _
             | OSetRebuilding _ | OReload | ORevert | OSetCheckpoint => True | _ => False end ->
  step s o = (s, RErr).
Proof. exact closed_no_io. Qed.

Theorem C17_remove_needs_rw : forall s, is_rw s = false ->
  step s ORemove = (s, RErr) /\ step s OPrepRemove = (s, RErr).
Proof. exact remove_needs_rw. Qed.

Theorem C17_setrev_needs_rw : forall s v, is_rw s = false -> step s (OSetRev v) = (s, RErr).
Proof. exact setrev_needs_rw. Qed.

(** a REST action outside the current state's set is answered 404 with no side effect: for all
    6 x 17 (state, action) pairs at once *)
Theorem C17_rest_gate : forall s a m v b, allowed (state s) a = false ->
  tstep s (Rest a m v b) = (s, R404).
Proof. exact rest_gate. Qed.

(** attach (remote.Factory.Create) succeeds only from closed and leaves the replica open, hence a
    second attach without a close in between fails *)
Theorem C17_attach_only_closed : forall s, snd (tstep s Attach) = ROk ->
  state s = SClosed /\ r (fst (tstep s Attach)) <> None.
Proof. exact attach_only_closed. Qed.

Theorem C17_attach_once : forall s, snd (tstep s Attach) = ROk ->
  snd (tstep (fst (tstep s Attach)) Attach) = RErr.
Proof. exact attach_once. Qed.

Theorem C17_oracle_holds_on_model : forall ts, c17_oracle obs0 ts (trace init ts) = true.
Proof. intro ts. exact (c17_oracle_model ts init ROk). Qed.

Print Assumptions C17_write_gate.
Print Assumptions C17_write_applies_only_when_serving.
Print Assumptions C17_closed_no_io.
Print Assumptions C17_remove_needs_rw.
Print Assumptions C17_setrev_needs_rw.
Print Assumptions C17_rest_gate.
Print Assumptions C17_attach_only_closed.
Print Assumptions C17_attach_once.
Print Assumptions C17_oracle_holds_on_model.
