(** C06 -- the content captured by a user-created snapshot is exactly the volume image at the moment it
    was taken and never changes afterwards (later writes, hole punching, reopen/preload, rebuild
    bookkeeping (UpdateLUNMap), deletion of other snapshots); reverting to it makes the volume read back
    exactly that image.  Nothing is promised for automatic snapshots (reclamation thins them).
    Model: Block.  The positive theorems are about variant fx = true (repaired fullWriteAt); the
    unrepaired variant (fx = false, the tree at the time of writing) is refuted.  Only statements here. *)
From Coq Require Import List Arith Bool NArith.
From Jiva Require Import Block.Model Block.Corr Block.Lemmas Block.ProofsWrite Block.ProofsUnit Block.ProofsRead
     Block.ProofsOps Block.ProofsPreload Block.Refine Block.Proofs Block.OracleProofs.
Import ListNotations.

(** The executable statement of C06 on observed traces (after every operation, every retained
    user-created snapshot opened read-only on a copy, and reverted to on a copy, reads exactly the image
    the specification recorded when it was taken) holds on every trace of the model. *)
Theorem C06_oracle_holds_on_model : forall K nb p rv (h : list (op * list bool)), 0 < K ->
  c06_oracle (mkcfg K nb p rv) (map fst h) (trace true K rv (init nb p) h) = true.
Proof. intros K nb p rv h HK. exact (proj2 (block_refines_spec K nb p rv h HK)). Qed.

(** Directly: after any history inside the specification's domain, the chain prefix ending at a
    retained user-created snapshot has exactly the image recorded for it. *)
Theorem C06_user_snapshot_immutable : forall K nb p h s d i e, 0 < K ->
  spec_run K (mkspec (repeat 0%N (nb * K)) [] nb) (init nb p) h = Some (s, d) ->
  nth_error (snaps s) (i - 1) = Some e -> 1 <= i < nf d -> retained e = true ->
  image K d i = s_img e /\ nm d i = s_name e.
Proof. exact user_snapshot_immutable. Qed.

Theorem C06_revert_exact : forall K d s name ch e p, 0 < K -> inv K d -> Rel K d s ->
  spos (snaps s) name 1 = p -> p <> 0 -> nth_error (snaps s) (p - 1) = Some e -> retained e = true ->
  name <> 0%N ->
  let '(d1, x) := step true K d (Revert name) ch in
  ores x = ROk /\ inv K d1 /\ fst (read_all K d1) = s_img e.
Proof. exact revert_exact. Qed.

(** Hole soundness and punch safety for the extent scan (preload, also inside UpdateLUNMap): whatever
    subset of the queued holes is applied, every prefix that must be kept reads the same. *)
Theorem C06_punch_safety : forall d hs ch J b, holes_ok d hs -> keeps d J ->
  top (fl (punched d hs ch)) J b = top (fl d) J b.
Proof. exact punched_keeps. Qed.

(** A discard (Server.Unmap -> diffDisk.Unmap: every chain file above SnapIndx is punched over the range,
    partially covered blocks are zeroed there) from any state satisfying the invariant leaves chain, names,
    attributes and size as they are, no file at or below SnapIndx is touched, and every retained user-created
    snapshot keeps its image.  (What the live volume reads after a discard is not promised: the specification
    does not speak about Unmap, so C06_oracle_holds_on_model claims nothing from an unmap onwards; around
    every unmap the correspondence run evaluates [c06u_step], next theorem.) *)
Theorem C06_unmap_keeps_user_snapshots : forall K d off len, inv K d ->
  let d1 := unmap K d off len in
  nf d1 = nf d /\ nm d1 = nm d /\ usr d1 = usr d /\ rmd d1 = rmd d /\ nblk d1 = nblk d /\ loc d1 = loc d /\
  (forall i b, i <= snapix d -> top (fl d1) i b = top (fl d) i b) /\
  (forall i, 1 <= i < nf d -> usr d i = true -> rmd d i = false -> image K d1 i = image K d i).
Proof. exact unmap_keeps_user_snapshots. Qed.

(** The oracle clause for unmaps (chain and attributes equal, every retained user-created snapshot before is one
    after with the same image, and conversely) holds for the model's unmap from every state satisfying the
    invariant, on the observations of the states before and after. *)
Theorem C06_unmap_oracle_step_holds_on_model : forall K d off len prev cur, inv K d ->
  Obs K d prev -> Obs K (unmap K d off len) cur -> c06u_step prev (Unmap off len) cur = true.
Proof. exact c06u_step_model. Qed.

(** F1: on the unrepaired variant the oracle fails (8-block volume, punching on: write blocks 0-1; user
    snapshot; write block 0; automatic snapshot; write blocks 0-1). *)
Theorem C06_refuted :
  c06_oracle (mkcfg 1 8 true true) (map fst f1_history) (trace false 1 true (init 8 true) f1_history) = false.
Proof. exact C06_refuted_unrepaired. Qed.

Print Assumptions C06_oracle_holds_on_model.
Print Assumptions C06_user_snapshot_immutable.
Print Assumptions C06_revert_exact.
Print Assumptions C06_punch_safety.
Print Assumptions C06_refuted.
Print Assumptions C06_unmap_keeps_user_snapshots.
Print Assumptions C06_unmap_oracle_step_holds_on_model.
