(** C15 — data-path RPC matches replies to requests, round-trips frames, never hangs.
    Model: Rpc (rpc/wire.go codec over byte lists; rpc/client.go loop + the caller side of
    operation as a sequential state machine).  Only statements here; [seq_mod] = 2^32.

    Proved: the codec half and the state-machine half below, for every message / byte stream / event
    sequence.  Not a theorem (measured by the harness on the real client): goroutine scheduling, the
    wall-clock bound of "promptly", the window in which a request passes operation's c.err test
    before the failure and reaches c.requests after the loop returned (event [ReqRaced]: released by
    its own timer only, theorem C15_raced_request_waits_for_its_timer). *)
From Coq Require Import List ZArith NArith Bool.
From Jiva Require Import Rpc.Model Rpc.CodecProofs Rpc.LoopProofs Rpc.Corr Rpc.Proofs.
Import ListNotations.
Open Scope N_scope.

(** ** frames *)

(** every message within the Go field ranges survives Wire.Write ; Wire.Read unchanged, whatever follows it *)
Theorem C15_roundtrip : forall m rest, wf m -> decode (encode m ++ rest) = Some (m, rest).
Proof. exact roundtrip. Qed.

(** a concatenation of frames is read back as the same messages in the same order, ending cleanly *)
Theorem C15_stream : forall ms, Forall wf ms -> decode_stream (flat_map encode ms) = (ms, EndClean).
Proof. exact stream. Qed.

(** ... and whatever follows the frames is decoded from exactly where they end *)
Theorem C15_stream_then : forall ms fuel tail, Forall wf ms ->
  decode_many (length ms + fuel) (flat_map encode ms ++ tail) =
  (let '(ms', e) := decode_many fuel tail in (ms ++ ms', e)).
Proof. exact decode_many_app. Qed.

(** the generic little-endian lemma behind the header fields, any width *)
Theorem C15_little_endian : forall w n, n < 256 ^ N.of_nat w -> le_decode (le_encode w n) = n.
Proof. exact le_roundtrip. Qed.

(** a stream whose first two bytes are not 03 1b is rejected, nothing is delivered *)
Theorem C15_bad_magic_rejected : forall bs mg r, get 2 bs = Some (mg, r) -> mg <> magic_version ->
  decode_r bs = DBadMagic mg /\ decode bs = None.
Proof.
  intros bs mg r H1 H2. pose proof (bad_magic_r bs mg r H1 H2) as H. split; [exact H|].
  unfold decode. now rewrite H.
Qed.

Theorem C15_bad_magic_frame_rejected : forall m rest, mmagic m < 2 ^ 16 -> mmagic m <> magic_version ->
  decode_r (encode m ++ rest) = DBadMagic (mmagic m) /\ decode (encode m ++ rest) = None.
Proof. exact bad_magic_frame. Qed.

(** a frame cut anywhere is an error, never a (shorter) message *)
Theorem C15_truncated_rejected : forall m k, wf m -> (k < length (encode m))%nat ->
  decode (firstn k (encode m)) = None.
Proof. exact truncated_rejected. Qed.

(** whatever the reader accepts is within the field ranges and re-encodes to exactly the bytes consumed *)
Theorem C15_decode_encode : forall bs m rest, bytes bs -> decode_r bs = DOk m rest ->
  wf m /\ bs = encode m ++ rest /\ bytes rest.
Proof. exact decode_r_inv. Qed.

(** ** matching *)

(** each call returns at most once, over every event sequence with distinct call ids *)
Theorem C15_at_most_once : forall es, NoDup (req_ids es) ->
  NoDup (map fst (dones (outs (exec seq_mod init es)))).
Proof. exact (at_most_once seq_mod). Qed.

(** a call that returns something other than the connection's error returns exactly what [operation]
    makes of a response frame whose sequence number is the one its own frame was sent with
    (any number of outstanding calls, any reply order, duplicates, unknown numbers) *)
Theorem C15_matching : forall es pre e o post id r,
  exec seq_mod init es = pre ++ (e, o) :: post -> In (Done id r) o -> is_local r = false ->
  exists sq ty sz d rq,
    e = Resp sq ty sz d /\ rid rq = id /\ r = op_result rq ty sz d /\
    exists e0 o0, In (e0, o0) pre /\ is_req e0 = Some rq /\ In (Sent (req_msg sq rq)) o0.
Proof.
  intros es pre e o post id r H Hin Hl.
  destruct (matching seq_mod es pre (e, o) post H id r Hin Hl) as (sq & ty & sz & d & rq & H1 & H2 & H3 & H4).
  exists sq, ty, sz, d, rq. repeat split; auto.
Qed.

(** under the guard (no number is reused while a request carrying it is pending) the number identifies the
    caller: one pending entry per number and every blocked caller owns one, so the frame a peer sends in
    answer to a caller's frame can only be delivered to that caller *)
Theorem C15_matching_unique : forall es, guard seq_mod init es = true ->
  let s := run seq_mod init es in
  failed s = None ->
  NoDup (map fst (pending s)) /\ forall rq, In rq (waiting s) -> exists sq, In (sq, rq) (pending s).
Proof. intros es H. exact (no_orphan seq_mod es H). Qed.

(** the guard holds whenever fewer than 2^32 requests are issued on the connection *)
Theorem C15_guard_of_count : forall es, N.of_nat (count_reqs es) < seq_mod -> guard seq_mod init es = true.
Proof. exact (guard_of_count seq_mod). Qed.

(** the guard is needed: with the counter wrapping (shown on a 2-bit counter, the code behaves the same
    after 2^32 requests) a response is delivered to the wrong call and the first call is never released *)
Theorem C15_matching_without_guard_refuted :
  NoDup (req_ids wrap_trace) /\
  guard 4 init wrap_trace = false /\
  assigned_from 4 0 wrap_trace 1 = Some 1 /\ assigned_from 4 0 wrap_trace 5 = Some 1 /\
  (let s := run 4 init wrap_trace in
   In rqA (waiting s) /\ existsb (fun p => rid (snd p) =? 1) (pending s) = false) /\
  dones (snd (step 4 (run 4 init wrap_trace) (Resp 1 TypeResponse 4 [10; 11; 12; 13]))) = [(5, mkres 4 ENone [10; 11])] /\
  dones (snd (step 4 (run 4 init wrap_trace) (TransportErr CTransport))) = [(5, mkres 0 (ELocal CTransport) [0; 0])].
Proof. exact wrap_orphans_refuted. Qed.

(** ** failure *)

(** when the loop takes a transport error (read / write error, SetError of a timed out caller or of
    monitorPing): every blocked caller returns the connection's error in that step, the failure is
    reported on closeChan, nothing stays pending *)
Theorem C15_fail_all : forall es c, guard seq_mod init es = true -> failed (run seq_mod init es) = None ->
  forall s1 o, step seq_mod (run seq_mod init es) (TransportErr c) = (s1, o) ->
  (forall rq, In rq (waiting (run seq_mod init es)) -> exists r, In (Done (rid rq) r) o /\ r_err r = ELocal c) /\
  (forall id r, In (Done id r) o -> r_err r = ELocal c) /\
  In Closed o /\ waiting s1 = [] /\ pending s1 = [] /\ failed s1 = Some c.
Proof.
  intros es c Hg F s1 o H. exact (fail_all_step seq_mod _ c (no_orphan seq_mod es Hg) F s1 o H).
Qed.

(** hence after the failure every call issued so far has returned *)
Theorem C15_fail_all_complete : forall es c, NoDup (req_ids es) -> guard seq_mod init es = true ->
  failed (run seq_mod init es) = None ->
  forall id, In id (req_ids es) -> In id (map fst (dones (outs (exec seq_mod init (es ++ [TransportErr c]))))).
Proof. exact (fail_all_complete seq_mod). Qed.

(** and every later call is refused immediately with the connection's error, for ever *)
Theorem C15_later_requests_fail : forall es s c rq, failed s = Some c ->
  step seq_mod (run seq_mod s es) (Req rq) = (run seq_mod s es, [Done (rid rq) (local_result rq c)]).
Proof. exact (later_requests_fail seq_mod). Qed.

(** a caller whose deadline passes returns the timeout error and has called SetError (errq + 1); the
    loop's next transport error event is C15_fail_all *)
Theorem C15_timeout : forall es rq, NoDup (req_ids es) -> In rq (waiting (run seq_mod init es)) ->
  let s := run seq_mod init es in
  step seq_mod s (Timeout (rid rq)) =
  (mkst (seq s) (pending s) (failed s) (rm_wait (rid rq) (waiting s)) (errq s + 1),
   [Done (rid rq) (local_result rq (timeout_err (rkind rq)))]).
Proof.
  intros es rq Hnd Hin s. apply timeout_step; [exact Hin|].
  apply waiting_nodup_run; [exact Hnd | constructor | intros id _ []].
Qed.

(** nobody is forgotten: every issued call has returned or is still blocked with its own timer running *)
Theorem C15_accounted : forall es, NoDup (req_ids es) -> forall id, In id (req_ids es) ->
  In id (map rid (waiting (run seq_mod init es))) \/ In id (map fst (dones (outs (exec seq_mod init es)))).
Proof.
  intros es Hnd id Hin. exact (accounted_gen seq_mod es init Hnd (fun _ _ H => H) id (or_intror Hin)).
Qed.

(** the one request the failure does not release: it passed operation's c.err test before the failure
    and reached c.requests after the loop had returned; it waits for its own timer *)
Theorem C15_raced_request_waits_for_its_timer : forall s c rq, failed s = Some c -> ~ In (rid rq) (wids (waiting s)) ->
  let s1 := fst (step seq_mod s (ReqRaced rq)) in
  snd (step seq_mod s (ReqRaced rq)) = [] /\
  step seq_mod s1 (Timeout (rid rq)) =
    (mkst (seq s) (pending s) (failed s) (rm_wait (rid rq) (waiting s)) (errq s + 1),
     [Done (rid rq) (local_result rq (timeout_err (rkind rq)))]).
Proof. exact (raced_released_by_timeout seq_mod). Qed.

(** ** the executable statements evaluated on the implementation's observations hold on every model trace *)
Theorem C15_oracle_holds_on_model : forall es, trace_wf seq_mod es = true ->
  c15_oracle seq_mod es (dones (outs (exec seq_mod init es))) (count_closed (outs (exec seq_mod init es))) = true.
Proof. exact (c15_oracle_model seq_mod). Qed.

Theorem C15_write_oracle_holds_on_model : forall m,
  wcase_same (mkw m (encode m)) = true /\ c15_write_oracle (mkw m (encode m)) = true.
Proof. exact write_oracle_model. Qed.

Theorem C15_read_oracle_holds_on_model : forall input, bytes input ->
  rcase_same (mkr input (fst (decode_stream input)) (snd (decode_stream input))) = true /\
  c15_read_oracle (mkr input (fst (decode_stream input)) (snd (decode_stream input))) = true.
Proof. exact read_oracle_model. Qed.

Print Assumptions C15_roundtrip.
Print Assumptions C15_stream.
Print Assumptions C15_stream_then.
Print Assumptions C15_little_endian.
Print Assumptions C15_bad_magic_rejected.
Print Assumptions C15_bad_magic_frame_rejected.
Print Assumptions C15_truncated_rejected.
Print Assumptions C15_decode_encode.
Print Assumptions C15_at_most_once.
Print Assumptions C15_matching.
Print Assumptions C15_matching_unique.
Print Assumptions C15_guard_of_count.
Print Assumptions C15_matching_without_guard_refuted.
Print Assumptions C15_fail_all.
Print Assumptions C15_fail_all_complete.
Print Assumptions C15_later_requests_fail.
Print Assumptions C15_timeout.
Print Assumptions C15_accounted.
Print Assumptions C15_raced_request_waits_for_its_timer.
Print Assumptions C15_oracle_holds_on_model.
Print Assumptions C15_write_oracle_holds_on_model.
Print Assumptions C15_read_oracle_holds_on_model.
