(** C15 — data-path RPC matches replies to requests, round-trips frames, never hangs.
    Model: Rpc (rpc/wire.go codec over byte lists; rpc/client.go loop + the caller side of
    operation as a sequential state machine).  Only statements here; [seq_mod] = 2^32.

    Proved: the codec half and the state-machine half below, for every message / byte stream / event
    sequence.  Not a theorem (measured by the harness on the real client): goroutine scheduling, the
    wall-clock bound of "promptly", the window in which a request passes operation's c.err test
    before the failure and reaches c.requests after the loop returned (event [ReqRaced]: released by
    its own timer only, theorem C15_raced_request_waits_for_its_timer). *)
From Coq Require Import List ZArith NArith Bool.
From Jiva Require Import Rpc.Model Rpc.CodecProofs Rpc.LoopProofs Rpc.Corr Rpc.Proofs.
Import ListNotations.
Open Scope N_scope.

(** ** frames *)

(** every message within the Go field ranges survives Wire.Write ; Wire.Read unchanged, whatever follows it *)
Theorem C15_roundtrip : forall m rest, wf m -> decode (encode m ++ rest) = Some (m, rest).
Proof. exact roundtrip. Qed.

(** a concatenation of frames is read back as the same messages in the same order, ending cleanly *)
Theorem C15_stream : forall ms, Forall wf ms -> decode_stream (flat_map encode ms) = (ms, EndClean).
Proof. exact stream. Qed.

(** ... and whatever follows the frames is decoded from exactly where they end *)
Theorem C15_stream_then : forall ms fuel tail, Forall wf ms ->
  decode_many (length ms + fuel) (flat_map encode ms ++ tail) =
  (let '(ms', e) := decode_many fuel tail in (ms ++ ms', e)).
Proof. exact decode_many_app. Qed.

(** the generic little-endian lemma behind the header fields, any width *)
Theorem C15_little_endian : forall w n, n < 256 ^ N.of_nat w -> le_decode (le_encode w n) = n.
Proof. exact le_roundtrip. Qed.

(** a stream whose first two bytes are not 03 1b is rejected, nothing is delivered *)
Theorem C15_bad_magic_rejected : forall bs mg r, get 2 bs = Some (mg, r) -> mg <> magic_version ->
  decode_r bs = DBadMagic mg /\ decode bs = None.
Proof.
  intros bs mg r H1 H2. pose proof (bad_magic_r bs mg r H1 H2) as H. split; [exact H|].
  unfold decode. now rewrite H.
Qed.

Theorem C15_bad_magic_frame_rejected : forall m rest, mmagic m < 2 ^ 16 -> mmagic m <> magic_version ->
  decode_r (encode m ++ rest) = DBadMagic (mmagic m) /\ decode (encode m ++ rest) = None.
Proof. exact bad_magic_frame. Qed.

(** a frame cut anywhere is an error, never a (shorter) message *)
Theorem C15_truncated_rejected : forall m k, wf m -> (k < length (encode m))%nat ->
  decode (firstn k (encode m)) = None.
Proof. exact truncated_rejected. Qed.

(** whatever the reader accepts is within the field ranges and re-encodes to exactly the bytes consumed *)
Theorem C15_decode_encode : forall bs m rest, bytes bs -> decode_r bs = DOk m rest ->
  wf m /\ bs = encode m ++ rest /\ bytes rest.
Proof. exact decode_r_inv. Qed.

(** ** matching *)

(** each call returns at most once, over every event sequence with distinct call ids *)
Theorem C15_at_most_once : forall es, NoDup (req_ids es) ->
  NoDup (map fst (dones (outs (exec seq_mod init es)))).
Proof. exact (at_most_once seq_mod). Qed.

(** a call that returns something other than the connection's error returns exactly what [operation]
    makes of a response frame whose sequence number is the one its own frame was sent with
    (any number of outstanding calls, any reply order, duplicates, unknown numbers) *)
Theorem C15_matching : forall es pre e o post id r,
  exec seq_mod init es = pre ++ (e, o) :: post -> In (Done id r) o -> is_local r = false ->
  exists sq ty sz d rq,
    e = Resp sq ty sz d /\ rid rq = id /\ r = op_result rq ty sz d /\
    exists e0 o0, In (e0, o0) pre /\ is_req e0 = Some rq /\ In (Sent (req_msg sq rq)) o0.
Proof.
  intros es pre e o post id r H Hin Hl.
  destruct (matching seq_mod es pre (e, o) post H id r Hin Hl) as (sq & ty & sz & d & rq & H1 & H2 & H3 & H4).
  exists sq, ty, sz, d, rq. repeat split; auto.
Qed.

(** under the guard (no number is reused while a request carrying it is pending) the number identifies the
    caller: one pending entry per number and every blocked caller owns one, so the frame a peer sends in
    answer to a caller's frame can only be delivered to that caller *)
Theorem C15_matching_unique : forall es, guard seq_mod init es = true ->
  let s := run seq_mod init es in
  failed s = None ->
  NoDup (map fst (pending s)) /\ forall rq, In rq (waiting s) -> exists sq, In (sq, rq) (pending s).
Proof. intros es H. exact (no_orphan seq_mod es H). Qed.

(** the guard holds whenever fewer than 2^32 requests are issued on the connection *)
Theorem C15_guard_of_count : forall es, N.of_nat (count_reqs es) < seq_mod -> guard seq_mod init es = true.
Proof. exact (guard_of_count seq_mod). Qed.

(** the guard is needed: with the counter wrapping (shown on a 2-bit counter, the code behaves the same
    after 2^32 requests) a response is delivered to the wrong call and the first call is never released *)
Theorem C15_matching_without_guard_refuted :
  NoDup (req_ids wrap_trace) /\
  guard 4 init wrap_trace = false /\
  assigned_from 4 0 wrap_trace 1 = Some 1 /\ assigned_from 4 0 wrap_trace 5 = Some 1 /\
  (let s := run 4 init wrap_trace in
   In rqA (waiting s) /\ existsb (fun p => rid (snd p) =? 1) (pending s) = false) /\
  dones (snd (step 4 (run 4 init wrap_trace) (Resp 1 TypeResponse 4 [10; 11; 12; 13]))) = [(5, mkres 4 ENone [10; 11])] /\
  dones (snd (step 4 (run 4 init wrap_trace) (TransportErr CTransport))) = [(5, mkres 0 (ELocal CTransport) [0; 0])].
Proof. exact wrap_orphans_refuted. Qed.

(** ** failure *)

(** when the loop takes a transport error (read / write error, SetError of a timed out caller or of
    monitorPing): every blocked caller returns the connection's error in that step, the failure is
    reported on closeChan, nothing stays pending *)
Theorem C15_fail_all : forall es c, guard seq_mod init es = true -> failed (run seq_mod init es) = None ->
  forall s1 o, step seq_mod (run seq_mod init es) (TransportErr c) = (s1, o) ->
  (forall rq, In rq (waiting (run seq_mod init es)) -> exists r, In (Done (rid rq) r) o /\ r_err r = ELocal c) /\
  (forall id r, In (Done id r) o -> r_err r = ELocal c) /\
  In Closed o /\ waiting s1 = [] /\ pending s1 = [] /\ failed s1 = Some c.
Proof.
  intros es c Hg F s1 o H. exact (fail_all_step seq_mod _ c (no_orphan seq_mod es Hg) F s1 o H).
Qed.

(** hence after the failure every call issued so far has returned *)
Theorem C15_fail_all_complete : forall es c, NoDup (req_ids es) -> guard seq_mod init es = true ->
  failed (run seq_mod init es) = None ->
  forall id, In id (req_ids es) -> In id (map fst (dones (outs (exec seq_mod init (es ++ [TransportErr c]))))).
Proof. exact (fail_all_complete seq_mod). Qed.

(** and every later call is refused immediately with the connection's error, for ever *)
Theorem C15_later_requests_fail : forall es s c rq, failed s = Some c ->
  step seq_mod (run seq_mod s es) (Req rq) = (run seq_mod s es, [Done (rid rq) (local_result rq c)]).
Proof. exact (later_requests_fail seq_mod). Qed.

(** a caller whose deadline passes returns the timeout error and has called SetError (errq + 1); the
    loop's next transport error event is C15_fail_all *)
Theorem C15_timeout : forall es rq, NoDup (req_ids es) -> In rq (waiting (run seq_mod init es)) ->
  let s := run seq_mod init es in
  step seq_mod s (Timeout (rid rq)) =
  (mkst (seq s) (pending s) (failed s) (rm_wait (rid rq) (waiting s)) (errq s + 1),
   [Done (rid rq) (local_result rq (timeout_err (rkind rq)))]).
Proof.
  intros es rq Hnd Hin s. apply timeout_step; [exact Hin|].
  apply waiting_nodup_run; [exact Hnd | constructor | intros id _ []].
Qed.

(** nobody is forgotten: every issued call has returned or is still blocked with its own timer running *)
Theorem C15_accounted : forall es, NoDup (req_ids es) -> forall id, In id (req_ids es) ->
  In id (map rid (waiting (run seq_mod init es))) \/ In id (map fst (dones (outs (exec seq_mod init es)))).
Proof.
  intros es Hnd id Hin. exact (accounted_gen seq_mod es init Hnd (fun _ _ H => H) id (or_intror Hin)).
Qed.

(** the one request the failure does not release: it passed operation's c.err test before the failure
    and reached c.requests after the loop had returned; it waits for its own timer *)
Theorem C15_raced_request_waits_for_its_timer : forall s c rq, failed s = Some c -> ~ In (rid rq) (wids (waiting s)) ->
  let s1 := fst (step seq_mod s (ReqRaced rq)) in
  snd (step seq_mod s (ReqRaced rq)) = [] /\
  step seq_mod s1 (Timeout (rid rq)) =
    (mkst (seq s) (pending s) (failed s) (rm_wait (rid rq) (waiting s)) (errq s + 1),
     [Done (rid rq) (local_result rq (timeout_err (rkind rq)))]).
Proof. exact (raced_released_by_timeout seq_mod). Qed.

(** ** the executable statements evaluated on the implementation's observations hold on every model trace *)
Theorem C15_oracle_holds_on_model : forall es, trace_wf seq_mod es = true ->
  c15_oracle seq_mod es (dones (outs (exec seq_mod init es))) (count_closed (outs (exec seq_mod init es))) = true.
Proof. exact (c15_oracle_model seq_mod). Qed.

Theorem C15_write_oracle_holds_on_model : forall m,
  wcase_same (mkw m (encode m)) = true /\ c15_write_oracle (mkw m (encode m)) = true.
Proof. exact write_oracle_model. Qed.

Theorem C15_read_oracle_holds_on_model : forall input, bytes input ->
  rcase_same (mkr input (fst (decode_stream input)) (snd (decode_stream input))) = true /\
  c15_read_oracle (mkr input (fst (decode_stream input)) (snd (decode_stream input))) = true.
Proof. exact read_oracle_model. Qed.

Print Assumptions C15_roundtrip.
Print Assumptions C15_stream.
Print Assumptions C15_stream_then.
Print Assumptions C15_little_endian.
Print Assumptions C15_bad_magic_rejected.
Print Assumptions C15_bad_magic_frame_rejected.
Print Assumptions C15_truncated_rejected.
Print Assumptions C15_decode_encode.
Print Assumptions C15_at_most_once.
Print Assumptions C15_matching.
Print Assumptions C15_matching_unique.
Print Assumptions C15_guard_of_count.
Print Assumptions C15_matching_without_guard_refuted.
Print Assumptions C15_fail_all.
Print Assumptions C15_fail_all_complete.
Print Assumptions C15_later_requests_fail.
Print Assumptions C15_timeout.
Print Assumptions C15_accounted.
Print Assumptions C15_raced_request_waits_for_its_timer.
Print Assumptions C15_oracle_holds_on_model.
Print Assumptions C15_write_oracle_holds_on_model.
Print Assumptions C15_read_oracle_holds_on_model.

(** ** the replica side: rpc/server.go readWrite / handleX / createResponse (model Rpc/Server.v)

    Proved for every request list and every behaviour of the data processor.  Not a theorem: the runtime
    panics of the code as it is (a read frame with a negative Size, an EOF count beyond the buffer) end the
    model's run ([SPanic]) and are not driven on the implementation; logrus.Fatal on EIO; the accept loop of
    replica/rpc/server.go (one connection at a time) is exercised by the harness only through Handle(). *)
From Jiva Require Import Rpc.Server Rpc.ServerProofs.

(** (a) the reply is written on the request's own message object: same Seq (whatever its value), same
    Offset, and the magic number *)
Theorem C15_server_reply_carries_request_seq : forall m o r, srv_step m o = Some r ->
  mseq r = mseq m /\ moff r = moff m /\ (mmagic m = magic_version -> mmagic r = magic_version).
Proof. exact srv_step_seq. Qed.

(** one reply per request, in request order; the i-th reply is computed from the i-th request and from what
    the processor did for the i-th request *)
Theorem C15_server_in_order : forall proc reqs k reps st, serve_from proc k reqs = (reps, st) ->
  (st = SEnd -> length reps = length reqs) /\ (length reps <= length reqs)%nat /\
  forall i r, nth_error reps i = Some r ->
    exists m, nth_error reqs i = Some m /\ srv_step m (proc (k + i)%nat m) = Some r /\
              mseq r = mseq m /\ moff r = moff m.
Proof. exact serve_in_order. Qed.

Theorem C15_server_seqs_in_request_order : forall proc reqs k reps, serve_from proc k reqs = (reps, SEnd) ->
  map mseq reps = map mseq reqs.
Proof. exact serve_seqs. Qed.

(** the loop ends early only where the Go runtime panics, and not at all otherwise *)
Theorem C15_server_stops_only_at_panic : forall proc reqs k reps, serve_from proc k reqs = (reps, SPanic) ->
  exists m, nth_error reqs (length reps) = Some m /\ panics m (proc (k + length reps)%nat m) = true.
Proof. exact serve_stops_at_panic. Qed.

Theorem C15_server_answers_every_request : forall proc reqs k,
  (forall i m, nth_error reqs i = Some m -> panics m (proc (k + i)%nat m) = false) ->
  snd (serve_from proc k reqs) = SEnd /\ length (fst (serve_from proc k reqs)) = length reqs.
Proof. exact serve_total. Qed.

(** (b) type / payload / Size of every reply, as createResponse makes them *)
Theorem C15_server_reply_mapping : forall m o r, srv_step m o = Some r ->
  mtype r = expect_type m o /\ mdata r = expect_data m o /\ size_ok m o r = true.
Proof. exact srv_step_spec. Qed.

Theorem C15_server_reply_type : forall m o r, handled (mtype m) = true -> srv_step m o = Some r ->
  mtype r = match o with OOk _ => TypeResponse | OEof _ _ => TypeEOF | OErr _ => TypeError end.
Proof. exact reply_type_mapping. Qed.

Theorem C15_server_unhandled_type_answered_unchanged : forall m o, handled (mtype m) = false -> srv_step m o = Some m.
Proof. exact unhandled_answered_unchanged. Qed.

Theorem C15_server_size_is_payload_length : forall m o r, srv_step m o = Some r -> handled (mtype m) = true ->
  (mtype m = TypeWrite -> mtype r <> TypeResponse) -> msize r = Z.of_nat (length (mdata r)).
Proof. exact size_is_payload_length. Qed.

Theorem C15_server_write_ack : forall m d r, mtype m = TypeWrite -> srv_step m (OOk d) = Some r ->
  mtype r = TypeResponse /\ mdata r = [] /\ msize r = Z.of_nat (length (mdata m)).
Proof. exact write_ack. Qed.

Theorem C15_server_read_reply : forall m d r, mtype m = TypeRead -> srv_step m (OOk d) = Some r ->
  mtype r = TypeResponse /\ mdata r = fill (Z.to_nat (msize m)) d /\ msize r = msize m.
Proof. exact read_reply. Qed.

Theorem C15_server_eof_reply_truncated : forall m c d r, mtype m = TypeRead -> srv_step m (OEof c d) = Some r ->
  mtype r = TypeEOF /\ mdata r = firstn (Z.to_nat c) (fill (Z.to_nat (msize m)) d) /\ msize r = c /\
  (0 <= c <= msize m)%Z.
Proof. exact eof_reply. Qed.

Theorem C15_server_error_reply : forall m t r, handled (mtype m) = true -> srv_step m (OErr t) = Some r ->
  mtype r = TypeError /\ mdata r = t /\ msize r = Z.of_nat (length t).
Proof. exact error_reply. Qed.

(** (c) bytes: what the server writes is read back by a Wire.Read loop as exactly the replies *)
Theorem C15_server_replies_roundtrip : forall proc reqs k reps st, Forall req_ok reqs -> (forall i m, outcome_ok (proc i m)) ->
  serve_from proc k reqs = (reps, st) -> decode_stream (flat_map encode reps) = (reps, EndClean).
Proof. exact replies_roundtrip. Qed.

(** a request stream ending in something that is not a frame (nothing, a cut frame, a wrong magic): the
    complete frames before it are answered, then the server stops *)
Theorem C15_server_stream_complete_frames : forall reqs tail script, Forall wf reqs ->
  (forall m r, decode_r tail <> DOk m r) ->
  serve_stream (flat_map encode reqs ++ tail) script =
  (flat_map encode (fst (serve reqs script)), snd (decode_stream tail), snd (serve reqs script)).
Proof. exact serve_stream_complete_frames. Qed.

Theorem C15_server_stream_truncated : forall reqs m0 k script, Forall wf reqs -> wf m0 -> (k < length (encode m0))%nat ->
  fst (fst (serve_stream (flat_map encode reqs ++ firstn k (encode m0)) script)) = flat_map encode (fst (serve reqs script)).
Proof. exact serve_stream_truncated. Qed.

Theorem C15_server_stream_bad_magic : forall reqs m0 rest script, Forall wf reqs -> mmagic m0 < 2 ^ 16 -> mmagic m0 <> magic_version ->
  fst (fst (serve_stream (flat_map encode reqs ++ encode m0 ++ rest) script)) = flat_map encode (fst (serve reqs script)).
Proof. exact serve_stream_bad_magic. Qed.

Theorem C15_server_stream_roundtrip : forall reqs tail script, Forall req_ok reqs -> Forall outcome_ok script ->
  (forall m r, decode_r tail <> DOk m r) ->
  decode_stream (fst (fst (serve_stream (flat_map encode reqs ++ tail) script))) = (fst (serve reqs script), EndClean).
Proof. exact serve_stream_roundtrip. Qed.

(** the executable statement of (a)+(b) over observations holds on the model's own output *)
Theorem C15_server_oracle_holds_on_model : forall reqs script, Forall (fun m => mmagic m = magic_version) reqs ->
  c15_server_ok reqs script (fst (serve reqs script)) = true.
Proof. exact c15_server_ok_model. Qed.

Theorem C15_server_case_holds_on_model : forall input script, bytes input ->
  let reqs := fst (decode_stream input) in
  let c := mksv input reqs script (fst (serve reqs script)) in
  server_diff c = 0%nat /\ sv_oracle (check_scase c) = true.
Proof. exact server_case_model. Qed.

(** (d) END TO END: the client machine above served by this server over two FIFO pipes, every schedule
    ([list nev]: calls, server steps, deliveries, timers, a transport error, in any interleaving), every data
    processor, fewer than 2^32 requests on the connection.  A call that returns anything but the connection's
    error returns what [operation] makes of the reply the server computed for the k-th frame of the
    connection from what the processor did for the k-th request, and that k-th frame was put on the
    connection by this call's own request event ([sent_pairs], C15_sent_pairs_are_own_frames). *)
Theorem C15_end_to_end : forall proc sched,
  N.of_nat (count_reqs (ntrace proc seq_mod net0 sched)) < seq_mod ->
  forall pre e o post id r,
    exec seq_mod init (ntrace proc seq_mod net0 sched) = pre ++ (e, o) :: post ->
    In (Done id r) o -> is_local r = false ->
    exists k sq rq rep,
      rid rq = id /\ nth_error (sent_pairs pre) k = Some (sq, rq) /\
      srv_step (req_msg sq rq) (proc k (req_msg sq rq)) = Some rep /\
      e = Resp sq (mtype rep) (msize rep) (mdata rep) /\
      r = op_result rq (mtype rep) (msize rep) (mdata rep).
Proof.
  intros proc sched Hc. apply end_to_end. now apply guard_of_count.
Qed.

(** the same for every modulus of the counter under the guard (wrapped counters included) *)
Theorem C15_end_to_end_under_guard : forall proc M sched,
  guard M init (ntrace proc M net0 sched) = true ->
  forall pre e o post id r,
    exec M init (ntrace proc M net0 sched) = pre ++ (e, o) :: post ->
    In (Done id r) o -> is_local r = false ->
    exists k sq rq rep,
      rid rq = id /\ nth_error (sent_pairs pre) k = Some (sq, rq) /\
      srv_step (req_msg sq rq) (proc k (req_msg sq rq)) = Some rep /\
      e = Resp sq (mtype rep) (msize rep) (mdata rep) /\
      r = op_result rq (mtype rep) (msize rep) (mdata rep).
Proof. exact end_to_end. Qed.

Theorem C15_sent_pairs_are_own_frames : forall M es s k sq rq, nth_error (sent_pairs (exec M s es)) k = Some (sq, rq) ->
  sent_in (exec M s es) sq rq.
Proof. exact sent_pairs_sent_in. Qed.

Theorem C15_own_frame_unique : forall M es s, NoDup (req_ids es) -> NoDup (map pid (sent_pairs (exec M s es))).
Proof. exact own_frame_unique. Qed.

(** a reader whose request the processor served with [data] finds exactly that data in its buffer *)
Theorem C15_read_result_is_own_data : forall sq rq data rep, rkind rq = KRead ->
  srv_step (req_msg sq rq) (OOk data) = Some rep ->
  op_result rq (mtype rep) (msize rep) (mdata rep) =
  mkres (Z.of_N (rlen rq)) ENone (fill (N.to_nat (rlen rq)) data).
Proof. exact read_result_is_own_data. Qed.

Print Assumptions C15_server_reply_carries_request_seq.
Print Assumptions C15_server_in_order.
Print Assumptions C15_server_seqs_in_request_order.
Print Assumptions C15_server_stops_only_at_panic.
Print Assumptions C15_server_answers_every_request.
Print Assumptions C15_server_reply_mapping.
Print Assumptions C15_server_reply_type.
Print Assumptions C15_server_unhandled_type_answered_unchanged.
Print Assumptions C15_server_size_is_payload_length.
Print Assumptions C15_server_write_ack.
Print Assumptions C15_server_read_reply.
Print Assumptions C15_server_eof_reply_truncated.
Print Assumptions C15_server_error_reply.
Print Assumptions C15_server_replies_roundtrip.
Print Assumptions C15_server_stream_complete_frames.
Print Assumptions C15_server_stream_truncated.
Print Assumptions C15_server_stream_bad_magic.
Print Assumptions C15_server_stream_roundtrip.
Print Assumptions C15_server_oracle_holds_on_model.
Print Assumptions C15_server_case_holds_on_model.
Print Assumptions C15_end_to_end.
Print Assumptions C15_end_to_end_under_guard.
Print Assumptions C15_sent_pairs_are_own_frames.
Print Assumptions C15_own_frame_unique.
Print Assumptions C15_read_result_is_own_data.
