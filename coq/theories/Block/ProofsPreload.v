(** * Block: preload (extent scan with userCreatedSnapIndx), reopen, revert, UpdateLUNMap. *)
From Coq Require Import List Arith Bool NArith Lia.
From Jiva Require Import Block.Model Block.Lemmas Block.ProofsWrite Block.ProofsUnit Block.ProofsRead Block.ProofsOps.
Import ListNotations.

(** index of the topmost extent in the prefix 1..j, 0 = none *)
Fixpoint tix (fls : nat -> file) (j b : nat) : nat :=
  match j with
  | 0 => 0
  | S j' => match fls j b with Some _ => j | None => tix fls j' b end
  end.

Lemma tix_S : forall fls j b, tix fls (S j) b = match fls (S j) b with Some _ => S j | None => tix fls j b end.
Proof. reflexivity. Qed.

Lemma tix_spec : forall fls j b,
  (tix fls j b = 0 /\ forall k, 1 <= k <= j -> fls k b = None) \/
  (1 <= tix fls j b <= j /\ fls (tix fls j b) b <> None /\ forall k, tix fls j b < k <= j -> fls k b = None).
Proof.
  induction j as [|j IH]; intros b.
  - left. split; [reflexivity|intros; lia].
  - rewrite tix_S. destruct (fls (S j) b) eqn:E.
    + right. split; [lia|]. split; [congruence|intros; lia].
    + destruct (IH b) as [(A & B)|(A & B & C)].
      * left. split; [assumption|]. intros k Hk. destruct (Nat.eq_dec k (S j)) as [->|]; [assumption|apply B; lia].
      * right. split; [lia|]. split; [assumption|].
        intros k Hk. destruct (Nat.eq_dec k (S j)) as [->|]; [assumption|apply C; lia].
Qed.

(** ** holes justified by an extent above them, below every flagged member at or below that extent *)
Definition hole_ok (d : dd) (h : hole) : Prop :=
  let '(f, s, l) := h in
  exists i c, 1 <= f /\ c < f < i /\ i <= nf d /\ (forall b, s <= b < s + l -> fl d i b <> None) /\
              (forall J, J <= i -> ucs d J = true -> J <= c).

Definition holes_ok (d : dd) (hs : list hole) : Prop := forall h, In h hs -> hole_ok d h.

(** a prefix that must be preserved: the whole chain, or a member whose user flag sits at its index
    or one above *)
Definition keeps (d : dd) (J : nat) : Prop :=
  J = nf d \/ (J < nf d /\ (ucs d J = true \/ ucs d (S J) = true)).

Lemma hole_ok_witness : forall d f s l b J, hole_ok d (f, s, l) -> s <= b < s + l -> keeps d J -> f <= J ->
  exists i, f < i <= J /\ fl d i b <> None.
Proof.
  intros d f s l b J (i & c & Hf & Hc & Hi & Hext & Hu) Hb HK HfJ.
  exists i. split; [|now apply Hext].
  destruct (Nat.le_gt_cases i J) as [|Hgt]; [lia|]. exfalso.
  destruct HK as [->|(HJ & [F|F])]; [lia| |].
  - pose proof (Hu J ltac:(lia) F). lia.
  - pose proof (Hu (S J) ltac:(lia) F). lia.
Qed.

Lemma punched_keeps : forall d hs ch J b, holes_ok d hs -> keeps d J ->
  top (fl (punched d hs ch)) J b = top (fl d) J b.
Proof.
  intros d hs ch J b Hs HK. apply punch_safe.
  - intros f. destruct (punched_cases d hs ch f b) as [H|[H _]]; auto.
  - intros f Hf Hne. destruct (punched_cases d hs ch f b) as [H|[_ ([[i s] l] & Hin & Hc)]]; [contradiction|].
    destruct Hc as [-> Hb]. eapply hole_ok_witness; eauto. lia.
Qed.

Lemma punched_wf_g : forall K d hs ch, wf K d -> holes_ok d hs -> wf K (punched d hs ch).
Proof.
  intros K d hs ch W Hs. constructor.
  - apply W.
  - intros b. cbn [loc nf punched set_fl].
    destruct (wf_loc _ _ W b) as [H0|(H1 & H2 & H3)]; [left; assumption|right].
    split; [assumption|]. split.
    + intros j Hj. destruct (punched_cases d hs ch j b) as [H|[H _]]; [rewrite H; now apply H2 | exact H].
    + intros H. destruct (punched_cases d hs ch (loc d b) b) as [H'|[_ ([[i s] l] & Hin & Hc)]].
      * rewrite H'. now apply H3.
      * exfalso. destruct Hc as [Ei Hb]. subst i.
        destruct (hole_ok_witness d (loc d b) s l b (nf d) (Hs _ Hin) Hb (or_introl eq_refl) ltac:(lia))
          as (k & Hk & Hx).
        apply Hx. apply H2. lia.
  - intros j b Hb. destruct (punched_cases d hs ch j b) as [H|[H _]]; [rewrite H; now apply W | exact H].
  - intros j b v Hv. destruct (punched_cases d hs ch j b) as [H|[H _]]; [rewrite H in Hv; eapply W; eauto | congruence].
Qed.

(** ** the extent scan *)
Record pinv (d : dd) (i ucsi b : nat) (p : pst) : Prop := {
  pi_loc : forall x, pl p x = if x <? b then tix (fl d) i x else tix (fl d) (i - 1) x;
  pi_run : match pfile p with
           | None => True
           | Some f => f = pfidx p /\ 1 <= f < i /\ forall x, poff p <= x < poff p + plen p -> fl d i x <> None
           end;
  pi_holes : holes_ok d (pholes p)
}.

Lemma holes_ok_app : forall d a b, holes_ok d a -> holes_ok d b -> holes_ok d (a ++ b).
Proof. intros d a b Ha Hb h Hin. apply in_app_or in Hin. destruct Hin; auto. Qed.

Lemma emit_ok : forall d i ucsi b p, 1 <= i <= nf d -> (forall J, J <= i -> ucs d J = true -> J <= ucsi) ->
  pinv d i ucsi b p ->
  holes_ok d (if can_punch (pfile p) (pfidx p) ucsi (punch d)
              then pholes p ++ [(match pfile p with Some f => f | None => 0 end, poff p, plen p)]
              else pholes p).
Proof.
  intros d i ucsi b p Hi Hu P.
  destruct (can_punch (pfile p) (pfidx p) ucsi (punch d)) eqn:Ec; [|apply P].
  apply holes_ok_app; [apply P|].
  apply can_punch_true in Ec. destruct Ec as (f & Ef & Hlt).
  pose proof (pi_run _ _ _ _ _ P) as R. rewrite Ef in R |- *. destruct R as (-> & Hf & Hx).
  intros h [<-|[]]. exists i, ucsi. repeat split; try lia; assumption.
Qed.

Lemma pre_block_spec : forall d i ucsi b p, 1 <= i <= nf d ->
  (forall J, J <= i -> ucs d J = true -> J <= ucsi) ->
  pinv d i ucsi b p -> pinv d i ucsi (S b) (pre_block d i ucsi p b).
Proof.
  intros d i ucsi b p Hi Hu P.
  assert (Hcur : pl p b = tix (fl d) (i - 1) b).
  { rewrite (pi_loc _ _ _ _ _ P). destruct (Nat.ltb_spec b b); [lia|reflexivity]. }
  assert (Hti : tix (fl d) i b = match fl d i b with Some _ => i | None => tix (fl d) (i - 1) b end).
  { destruct i as [|i']; [lia|]. rewrite tix_S. replace (S i' - 1) with i' by lia. reflexivity. }
  unfold pre_block. destruct (fl d i b) as [v|] eqn:Ef.
  - assert (Hloc : forall x, fupd (pl p) b i x = if x <? S b then tix (fl d) i x else tix (fl d) (i - 1) x).
    { intros x. destruct (fupd_cases _ (pl p) b i x) as [[-> H]|[Hn H]]; rewrite H.
      - destruct (Nat.ltb_spec b (S b)); [|lia]. now rewrite Hti.
      - rewrite (pi_loc _ _ _ _ _ P). destruct (Nat.ltb_spec x b); destruct (Nat.ltb_spec x (S b)); try reflexivity; lia. }
    destruct (Nat.eqb_spec (pl p b) 0) as [E0|N0].
    + constructor; cbn [pl pfile pfidx plen poff pholes]; [assumption|apply P|apply P].
    + assert (Hc : 1 <= pl p b < i).
      { rewrite Hcur in *. destruct (tix_spec (fl d) (i - 1) b) as [(A & _)|(A & _)]; lia. }
      destruct (negb (same_file (pl p b) (pfile p)) || negb (b =? poff p + plen p)) eqn:Ebr.
      * constructor; cbn [pl pfile pfidx plen poff pholes]; [assumption| |].
        -- split; [reflexivity|]. split; [assumption|]. intros x Hx. assert (x = b) by lia. subst. congruence.
        -- eapply emit_ok; eauto.
      * apply orb_false_iff in Ebr. destruct Ebr as [E1 E2].
        apply negb_false_iff in E1, E2. apply Nat.eqb_eq in E2.
        constructor; cbn [pl pfile pfidx plen poff pholes]; [assumption| |apply P].
        pose proof (pi_run _ _ _ _ _ P) as R. destruct (pfile p) as [f|]; [|exact I].
        destruct R as (R1 & R2 & R3). split; [assumption|]. split; [assumption|].
        intros x Hx. destruct (Nat.eq_dec x b) as [->|]; [congruence|apply R3; lia].
  - constructor; [|apply P|apply P].
    intros x. rewrite (pi_loc _ _ _ _ _ P).
    destruct (Nat.ltb_spec x b); destruct (Nat.ltb_spec x (S b)); try reflexivity; try lia.
    assert (x = b) by lia. subst. symmetry. exact Hti.
Qed.

Lemma pre_blocks_spec : forall d i ucsi cnt b p, 1 <= i <= nf d ->
  (forall J, J <= i -> ucs d J = true -> J <= ucsi) ->
  pinv d i ucsi b p -> pinv d i ucsi (b + cnt) (pre_blocks d i ucsi cnt b p).
Proof.
  induction cnt as [|cnt IH]; intros b p Hi Hu P.
  - cbn. now rewrite Nat.add_0_r.
  - cbn [pre_blocks]. replace (b + S cnt) with (S b + cnt) by lia. apply IH; auto. now apply pre_block_spec.
Qed.

(** state between two files *)
Record finv (d : dd) (i : nat) (st : nat * pst) : Prop := {
  fi_ucsi : forall J, J < i -> ucs d J = true -> J <= fst st;
  fi_loc : forall x, pl (snd st) x = tix (fl d) (i - 1) x;
  fi_file : pfile (snd st) = None;
  fi_holes : holes_ok d (pholes (snd st))
}.

Lemma pre_file_spec : forall K d i st, wf K d -> 1 <= i <= nf d -> finv d i st -> finv d (S i) (pre_file d i st).
Proof.
  intros K d i [ucsi0 p] W Hi F. unfold pre_file.
  set (ucsi := if ucs d i then i else ucsi0).
  assert (Hu : forall J, J <= i -> ucs d J = true -> J <= ucsi).
  { intros J HJ HF. unfold ucsi. destruct (Nat.eq_dec J i) as [->|Hne].
    - rewrite HF. lia.
    - pose proof (fi_ucsi _ _ _ F J ltac:(lia) HF) as H. cbn in H. destruct (ucs d i); lia. }
  assert (P0 : pinv d i ucsi 0 p).
  { constructor.
    - intros x. destruct (Nat.ltb_spec x 0); [lia|]. apply (fi_loc _ _ _ F).
    - pose proof (fi_file _ _ _ F) as E. cbn in E. rewrite E. exact I.
    - apply F. }
  pose proof (pre_blocks_spec d i ucsi (nblk d) 0 p Hi Hu P0) as P1. cbn [plus] in P1.
  set (p1 := pre_blocks d i ucsi (nblk d) 0 p) in *.
  constructor; cbn [fst snd pl pfile pholes].
  - intros J HJ HF. apply Hu; [lia|assumption].
  - intros x. rewrite (pi_loc _ _ _ _ _ P1). replace (S i - 1) with i by lia.
    destruct (Nat.ltb_spec x (nblk d)); [reflexivity|].
    (* no extents beyond the size *)
    destruct i as [|i']; [lia|]. rewrite tix_S. replace (S i' - 1) with i' by lia.
    rewrite (wf_ext _ _ W (S i') x) by assumption. reflexivity.
  - reflexivity.
  - eapply emit_ok; eauto.
Qed.

Lemma pre_files_spec : forall K d cnt i st, wf K d -> 1 <= i -> i + cnt <= S (nf d) -> finv d i st ->
  finv d (i + cnt) (pre_files d cnt i st).
Proof.
  induction cnt as [|cnt IH]; intros i st W Hi Hc F.
  - cbn. now rewrite Nat.add_0_r.
  - cbn [pre_files]. replace (i + S cnt) with (S i + cnt) by lia. apply IH; auto; [lia|].
    eapply pre_file_spec; eauto. lia.
Qed.

Lemma preload_from_zero : forall K d, wf K d ->
  let '(l, hs) := preload_from d (fun _ => 0) in
  (forall b, l b = tix (fl d) (nf d) b) /\ holes_ok d hs.
Proof.
  intros K d W. unfold preload_from.
  pose proof (pre_files_spec K d (nf d) 1 (0, mkpst (fun _ => 0) None 0 0 0 []) W (le_n _) ltac:(lia)) as F.
  destruct (pre_files d (nf d) 1 (0, mkpst (fun _ : nat => 0) None 0 0 0 [])) as [u p].
  assert (F0 : finv d 1 (0, mkpst (fun _ : nat => 0) None 0 0 0 [])).
  { constructor; cbn [fst snd pl pfile pholes].
    - intros J HJ HF. lia.
    - intros x. reflexivity.
    - reflexivity.
    - intros h []. }
  specialize (F F0). split.
  - intros b. rewrite (fi_loc _ _ _ F). cbn [snd]. replace (1 + nf d - 1) with (nf d) by lia. reflexivity.
  - apply F.
Qed.

Lemma tix_loc_ok : forall d l, (forall b, l b = tix (fl d) (nf d) b) -> loc_ok (set_loc d l).
Proof.
  intros d l H b. cbn [loc set_loc nf fl]. rewrite H.
  destruct (tix_spec (fl d) (nf d) b) as [(A & _)|(A & B & C)]; [left; assumption|right].
  split; [assumption|]. split; [assumption|intros _; assumption].
Qed.

(** ** close / open (and Reload) *)
Definition opened (d : dd) : dd :=
  mkdd (nf d) (fl d) (nm d) (usr d) (rmd d) (aligned_ucs d) (last_true (aligned_ucs d) (nf d) 0)
       (fun _ => 0) (nblk d) (punch d).

Lemma opened_inv : forall K d, inv K d -> inv K (opened d).
Proof.
  intros K d I. pose proof (inv_wf _ _ I) as W. constructor.
  - constructor.
    + apply W.
    + intros b. left. reflexivity.
    + apply W.
    + apply W.
  - intros i Hi Hu Hr. cbn [opened nf usr rmd ucs snapix] in *.
    assert (Ha : aligned_ucs d i = true).
    { unfold aligned_ucs. destruct (Nat.leb_spec 1 i); destruct (Nat.leb_spec i (nf d)); cbn [andb]; try lia. assumption. }
    split; [apply last_true_ge; [lia|assumption]|left; assumption].
  - apply I.
  - apply I.
Qed.

Lemma reopen_spec : forall K d pre ch, inv K (opened d) ->
  let '(d1, hs) := reopen d pre in
  let d2 := punched d1 hs ch in
  inv K d2 /\ nf d2 = nf d /\ nm d2 = nm d /\ usr d2 = usr d /\ rmd d2 = rmd d /\ nblk d2 = nblk d /\
  punch d2 = punch d /\
  (forall J b, keeps (opened d) J -> top (fl d2) J b = top (fl d) J b) /\
  (* before the holes are applied the files are untouched *)
  wf K d1 /\ nf d1 = nf d /\ nblk d1 = nblk d /\ fl d1 = fl d.
Proof.
  intros K d pre ch I1. unfold reopen. fold (opened d).
  destruct pre.
  - unfold preload. pose proof (preload_from_zero K (opened d) (inv_wf _ _ I1)) as P.
    change (loc (opened d)) with (fun _ : nat => 0).
    destruct (preload_from (opened d) (fun _ => 0)) as [l hs]. destruct P as (Hl & Hs).
    assert (W1 : wf K (set_loc (opened d) l)).
    { destruct (inv_wf _ _ I1) as [A B C D]. constructor; try assumption. now apply tix_loc_ok. }
    assert (Hs' : holes_ok (set_loc (opened d) l) hs) by exact Hs.
    split; [|repeat split].
    + eapply inv_same; [apply punched_wf_g; eassumption| |exact I1]. repeat split.
    + intros J b HK. rewrite (punched_keeps (set_loc (opened d) l) hs ch J b Hs' HK). reflexivity.
    + apply W1.
    + apply W1.
    + apply W1.
    + apply W1.
  - cbn [punched apply_holes set_fl]. split; [|repeat split]; try apply (inv_wf _ _ I1).
    destruct I1 as [A B C D]. constructor; assumption.
Qed.

(** ** revert: new (empty) head on top of member i, old head and everything above dropped, reload with preload *)
Definition cut (d : dd) (i : nat) : dd :=
  mkdd (S i) (fupd (fl d) (S i) fempty) (fupd (nm d) (S i) 0%N) (fupd (usr d) (S i) false)
       (fupd (rmd d) (S i) false) (ucs d) (snapix d) (loc d) (nblk d) (punch d).

Lemma cut_opened_inv : forall K d i, inv K d -> 1 <= i < nf d -> inv K (opened (cut d i)).
Proof.
  intros K d i I Hi. pose proof (inv_wf _ _ I) as W.
  destruct (inv_names _ _ I) as (Nh & Nz & Ninj).
  constructor.
  - constructor; cbn [opened cut nf fl loc nblk].
    + lia.
    + intros b. left. reflexivity.
    + intros j b Hb. destruct (fupd_cases _ (fl d) (S i) fempty j) as [[-> E]|[Hn E]]; rewrite E; [reflexivity|now apply W].
    + intros j b v. destruct (fupd_cases _ (fl d) (S i) fempty j) as [[-> E]|[Hn E]]; rewrite E; [discriminate|apply W].
  - intros k Hk Hu Hr. cbn [opened cut nf usr rmd ucs snapix] in *.
    assert (Ha : aligned_ucs (cut d i) k = true).
    { unfold aligned_ucs. cbn [cut nf usr]. destruct (Nat.leb_spec 1 k); destruct (Nat.leb_spec k (S i)); cbn [andb]; try lia. assumption. }
    split; [apply last_true_ge; [lia|assumption]|left; assumption].
  - unfold names_ok. cbn [opened cut nf nm]. split; [now rewrite fupd_eq|]. split.
    + intros k Hk. rewrite fupd_neq by lia. apply Nz. lia.
    + intros a c Ha Hc.
      destruct (fupd_cases _ (nm d) (S i) 0%N a) as [[-> E]|[Hn E]]; rewrite E;
        destruct (fupd_cases _ (nm d) (S i) 0%N c) as [[-> E']|[Hn' E']]; rewrite E'; intros H; try reflexivity.
      * exfalso. apply (Nz c); [lia|congruence].
      * exfalso. apply (Nz a); [lia|congruence].
      * apply Ninj; [lia|lia|assumption].
  - cbn [opened cut nf usr]. now rewrite fupd_eq.
Qed.

Lemma cut_top : forall d i J b, J <= i -> top (fl (cut d i)) J b = top (fl d) J b.
Proof.
  intros d i J b HJ. apply top_ext. intros k Hk. cbn [cut fl]. rewrite fupd_neq by lia. reflexivity.
Qed.

Lemma cut_top_head : forall d i b, top (fl (cut d i)) (S i) b = top (fl d) i b.
Proof.
  intros d i b. rewrite top_S. cbn [cut fl]. rewrite fupd_eq. cbn [fempty].
  apply top_ext. intros k Hk. rewrite fupd_neq by lia. reflexivity.
Qed.

Lemma revert_cases : forall d name,
  let i := find_name d name (nf d) in
  ((i = 0 \/ i = nf d) /\ revert d name = (d, [], RErr)) \/
  (1 <= i < nf d /\
   revert d name = (fst (reopen (cut d i) true), snd (reopen (cut d i) true), ROk)).
Proof.
  intros d name i. unfold revert. fold i.
  pose proof (find_name_spec d name (nf d)) as (A & _). fold i in A.
  destruct (Nat.eqb_spec i 0); [left; auto|]. destruct (Nat.eqb_spec i (nf d)); [left; auto|].
  right. split; [lia|]. cbn [orb]. fold (cut d i). destruct (reopen (cut d i) true). reflexivity.
Qed.

(** a member whose user flag is set on disk is protected by the scan of a fresh open *)
Lemma opened_keeps_user : forall d J, 1 <= J < nf d -> usr d J = true -> keeps (opened d) J.
Proof.
  intros d J HJ Hu. right. cbn [opened nf ucs]. split; [lia|]. left.
  unfold aligned_ucs. destruct (Nat.leb_spec 1 J); destruct (Nat.leb_spec J (nf d)); cbn [andb]; try lia. assumption.
Qed.

Lemma opened_keeps_head : forall d, keeps (opened d) (nf d).
Proof. intros. left. reflexivity. Qed.

(** ** UpdateLUNMap without concurrent writers: only fills unknown entries, sends the scan's holes *)
Record linv (d : dd) (pre : nat -> nat) (b : nat) (u : ust) : Prop := {
  li_prev : uprev u = 0;
  li_holes : uholes u = [];
  li_loc : forall x, ul u x = if (x <? b) && negb (pre x =? 0) then pre x else loc d x
}.

Lemma lun_step_spec : forall d pre ucsi b u, loc_ok d -> (forall x, pre x = tix (fl d) (nf d) x) ->
  linv d pre b u -> linv d pre (S b) (lun_step d pre ucsi u b).
Proof.
  intros d pre ucsi b u Hok Hpre L.
  assert (Hub : ul u b = loc d b).
  { rewrite (li_loc _ _ _ _ L). destruct (Nat.ltb_spec b b); [lia|reflexivity]. }
  unfold lun_step.
  destruct (Nat.eqb_spec (pre b) 0) as [E0|N0].
  - constructor; [apply L|apply L|]. intros x. rewrite (li_loc _ _ _ _ L).
    destruct (Nat.ltb_spec x b); destruct (Nat.ltb_spec x (S b)); try lia; try reflexivity.
    assert (x = b) by lia. subst. rewrite E0. reflexivity.
  - (* the entry in memory never points above the topmost extent *)
    assert (Hle : ul u b <= pre b).
    { rewrite Hub, Hpre. rewrite Hpre in N0.
      destruct (tix_spec (fl d) (nf d) b) as [(A & _)|(A & B & C)]; [contradiction|].
      destruct (Hok b) as [H0|(H1 & H2 & H3)]; [lia|].
      destruct (Nat.le_gt_cases (loc d b) (tix (fl d) (nf d) b)) as [|Hgt]; [assumption|].
      exfalso. apply H3; [lia|]. apply C. lia. }
    destruct (Nat.ltb_spec (pre b) (ul u b)); [lia|].
    unfold lun_emit. rewrite (li_prev _ _ _ _ L). cbn [Nat.eqb negb andb].
    rewrite andb_false_r. constructor; cbn [uprev uholes ul]; [reflexivity|apply L|].
    intros x. destruct (fupd_cases _ (ul u) b (pre b) x) as [[-> H']|[Hn H']]; rewrite H'.
    + destruct (Nat.ltb_spec b (S b)); [|lia]. destruct (Nat.eqb_spec (pre b) 0); [contradiction|reflexivity].
    + rewrite (li_loc _ _ _ _ L). destruct (Nat.ltb_spec x b); destruct (Nat.ltb_spec x (S b)); try lia; reflexivity.
Qed.

Lemma lun_loop_spec : forall d pre ucsi cnt b u, loc_ok d -> (forall x, pre x = tix (fl d) (nf d) x) ->
  linv d pre b u -> linv d pre (b + cnt) (lun_loop d pre ucsi cnt b u).
Proof.
  induction cnt as [|cnt IH]; intros b u Hok Hpre L.
  - cbn. now rewrite Nat.add_0_r.
  - cbn [lun_loop]. replace (b + S cnt) with (S b + cnt) by lia. apply IH; auto. now apply lun_step_spec.
Qed.

Lemma update_lun_map_spec : forall K d ch, inv K d ->
  let '(d1, hs) := update_lun_map d in
  let d2 := punched d1 hs ch in
  inv K d2 /\ same_meta d d2 /\ (forall J b, keeps d J -> top (fl d2) J b = top (fl d) J b).
Proof.
  intros K d ch I. pose proof (inv_wf _ _ I) as W. unfold update_lun_map.
  pose proof (preload_from_zero K d W) as P.
  destruct (preload_from d (fun _ => 0)) as [pre h1]. destruct P as (Hpre & Hs).
  set (ucsi := last_true (ucs d) (nf d) 0).
  assert (L0 : linv d pre 0 (mkust (loc d) 0 0 0 [])).
  { constructor; reflexivity. }
  pose proof (lun_loop_spec d pre ucsi (nblk d) 0 _ (wf_loc _ _ W) Hpre L0) as L. cbn [plus] in L.
  set (u := lun_loop d pre ucsi (nblk d) 0 (mkust (loc d) 0 0 0 [])) in *.
  assert (Hemit : lun_emit d ucsi u = []).
  { unfold lun_emit. rewrite (li_prev _ _ _ _ L), (li_holes _ _ _ _ L). cbn [Nat.eqb negb]. now rewrite andb_false_r. }
  rewrite Hemit, app_nil_r.
  assert (W1 : wf K (set_loc d (ul u))).
  { destruct W as [A B C D]. constructor; try assumption.
    intros b. cbn [loc set_loc nf fl]. rewrite (li_loc _ _ _ _ L).
    destruct ((b <? nblk d) && negb (pre b =? 0)) eqn:E; [|apply B].
    apply andb_true_iff in E. destruct E as [_ E]. apply negb_true_iff in E. apply Nat.eqb_neq in E.
    rewrite Hpre in *. destruct (tix_spec (fl d) (nf d) b) as [(A' & _)|(A' & B' & C')]; [contradiction|right].
    split; [assumption|]. split; [assumption|intros _; assumption]. }
  assert (Hs' : holes_ok (set_loc d (ul u)) h1) by exact Hs.
  split; [|split].
  - eapply inv_same; [apply punched_wf_g; eassumption| |exact I]. repeat split.
  - repeat split.
  - intros J b HK. apply (punched_keeps (set_loc d (ul u)) h1 ch J b Hs' HK).
Qed.
