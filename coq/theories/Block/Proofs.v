(** * Block: the theorems the property files quote, stated directly on the model, plus the
    refutations on the unrepaired variant and non-vacuity examples. *)
From Coq Require Import List Arith Bool NArith Lia.
From Jiva Require Import Block.Model Block.Corr Block.Lemmas Block.ProofsWrite Block.ProofsUnit Block.ProofsRead
     Block.ProofsOps Block.ProofsPreload Block.Refine.
Import ListNotations.

(** ** running model and specification side by side *)
(** [spec_run] follows the model through a history as long as the specification speaks about every
    operation (the hint for a revert to a snapshot whose content is not promised is what the model reads) *)
Fixpoint spec_run (K : nat) (s : spec) (d : dd) (h : list (op * list bool)) : option (spec * dd) :=
  match h with
  | [] => Some (s, d)
  | (o, ch) :: h' =>
      let '(d1, x) := step true K d o ch in
      match spec_step K s o (ores x, image K d1 (nf d1)) with
      | None => None
      | Some (s1, _, _) => spec_run K s1 d1 h'
      end
  end.

Theorem run_refines : forall K h d s d' s', 0 < K -> inv K d -> Rel K d s ->
  spec_run K s d h = Some (s', d') -> inv K d' /\ Rel K d' s'.
Proof.
  intros K h. induction h as [|[o ch] h IH]; intros d s d' s' HK I R H.
  - inversion H; subst. auto.
  - cbn [spec_run] in H. destruct (step true K d o ch) as [d1 x] eqn:Es.
    destruct (spec_step K s o (ores x, image K d1 (nf d1))) as [[[s1 r] data]|] eqn:Esp; [|discriminate].
    destruct (step_sim K d s o ch d1 x s1 r data HK I R Es Esp) as (I1 & R1 & _).
    eapply IH; eauto.
Qed.

(** ** C01 *)
(** a read after any history the specification covers returns, unit by unit, the flat image *)
Theorem read_after_history : forall K nb p h s d off len, 0 < K ->
  spec_run K (mkspec (repeat 0%N (nb * K)) [] nb) (init nb p) h = Some (s, d) ->
  off + len <= size s * K ->
  fst (read_at K d off len) = firstn len (skipn off (live s)).
Proof.
  intros K nb p h s d off len HK H Hr.
  destruct (run_refines K h _ _ _ _ HK (inv_init K nb p) (rel_init K nb p) H) as (I & R).
  rewrite (r_size _ _ _ R) in Hr.
  pose proof (read_sim K d s off len HK I R Hr) as RS.
  destruct (read_at K d off len) as [x d1]. destruct RS as (-> & _). reflexivity.
Qed.

(** a write changes exactly [off, off+len) of the live image, whatever the alignment, and no
    retained user-created snapshot *)
Theorem write_exact : forall K d data off ch, 0 < K -> inv K d -> off + length data <= nblk d * K ->
  let '(dw, hs) := write_at true K d data off in
  let d1 := punched dw hs ch in
  inv K d1 /\
  image K d1 (nf d1) = lsplice (image K d (nf d)) off data /\
  forall i, 1 <= i < nf d -> usr d i = true -> rmd d i = false -> image K d1 i = image K d i.
Proof.
  intros K d data off ch HK I Hr.
  set (s := mkspec (image K d (nf d))
                   (map (fun i => mksentry (nm d i) (usr d i) (rmd d i) (image K d i)) (seq 1 (nf d - 1)))
                   (nblk d)).
  assert (R : Rel K d s).
  { constructor; cbn [size live snaps s]; try reflexivity.
    - now rewrite map_length, seq_length.
    - intros i e Hi Hn. rewrite nth_error_map in Hn.
      destruct (nth_error (seq 1 (nf d - 1)) (i - 1)) as [j|] eqn:Ej; [|discriminate].
      assert (j = i).
      { apply nth_error_nth with (d := 0) in Ej. rewrite seq_nth in Ej by lia. lia. }
      subst j. inversion Hn; subst e. repeat split. }
  pose proof (write_sim K d s data off ch HK I R Hr) as WS.
  destruct (write_at true K d data off) as [dw hs]. destruct WS as (I1 & R1).
  split; [assumption|]. split.
  - symmetry. exact (r_live _ _ _ R1).
  - intros i Hi Hu Hrm.
    assert (Hn : nth_error (snaps s) (i - 1) = Some (mksentry (nm d i) (usr d i) (rmd d i) (image K d i))).
    { cbn [snaps s]. rewrite nth_error_map.
      assert (E : nth_error (seq 1 (nf d - 1)) (i - 1) = Some i).
      { rewrite (nth_error_nth' _ 0) by (rewrite seq_length; lia). rewrite seq_nth by lia. f_equal. lia. }
      rewrite E. reflexivity. }
    assert (Enf : nf (punched dw hs ch) = nf d).
    { pose proof (r_len _ _ _ R1) as L. cbn [snaps s] in L. rewrite map_length, seq_length in L.
      pose proof (wf_nf _ _ (inv_wf _ _ I1)). pose proof (wf_nf _ _ (inv_wf _ _ I)). lia. }
    destruct (r_snaps _ _ _ R1 i _ ltac:(rewrite Enf; exact Hi) Hn) as (_ & _ & _ & D).
    symmetry. apply D. unfold retained. cbn [s_user s_removed]. now rewrite Hu, Hrm.
Qed.

(** a read while one chain file cannot be read (every pread on it fails): it either fails, and then nothing
    but location entries changed (no file, no attribute, no image), or it reports success, and then every
    unit is the specification's value -- never zeros in place of written data *)
Theorem read_fault_sound : forall K d s off len i ch, 0 < K -> inv K d -> Rel K d s ->
  off + len <= nblk d * K ->
  let '(d1, x) := step true K d (ReadFault off len i) ch in
  memo d d1 /\ inv K d1 /\ Rel K d1 s /\
  ((ores x = RErr /\ odata x = []) \/ (ores x = ROk /\ odata x = firstn len (skipn off (live s)))).
Proof.
  intros K d s off len i ch HK I R Hin. cbn [step].
  destruct (Nat.ltb_spec (nblk d * K) (off + len)); [lia|].
  pose proof (inv_wf _ _ I) as W.
  pose proof (read_at_fault_memo K d off len i (wf_nf _ _ W) (wf_loc _ _ W)) as M.
  destruct (read_at_fault K d off len i) as [failed d']. cbn [snd] in M.
  assert (I' : inv K d') by (eapply inv_memo; eauto).
  assert (R' : Rel K d' s) by (eapply memo_rel; eauto).
  destruct failed; (split; [assumption|]; split; [assumption|]; split; [assumption|]).
  - left. split; reflexivity.
  - right. split; [reflexivity|]. cbn [odata].
    pose proof (read_sim K d s off len HK I R Hin) as RS.
    destruct (read_at K d off len) as [xx d'']. destruct RS as (Hxx & _). exact Hxx.
Qed.

(** which of the two: fullReadAt fails exactly when one of its blocks is served from the broken file
    (stated for one fullReadAt call, i.e. for block-aligned requests) *)
Lemma existsb_map_f : forall A B (f : A -> B) (p : B -> bool) l,
  existsb p (map f l) = existsb (fun x => p (f x)) l.
Proof. intros A B f p l. induction l as [|x l IH]; [reflexivity|]. cbn. now rewrite IH. Qed.

Lemma existsb_ext_f : forall A (p q : A -> bool) l, (forall x, p x = q x) -> existsb p l = existsb q l.
Proof. intros A p q l H. induction l as [|x l IH]; [reflexivity|]. cbn. now rewrite H, IH. Qed.

Lemma loc_ok_probe : forall d b, 1 <= nf d -> loc_ok d -> loc d b <> 0 -> loc d b = probe (fl d) (nf d) b.
Proof.
  intros d b Hnf Hok Hne. destruct (Hok b) as [H0|(H1 & H2 & H3)]; [contradiction|].
  destruct (probe_spec (fl d) (nf d) b Hnf) as (P1 & P2 & P3).
  destruct (Nat.lt_trichotomy (loc d b) (probe (fl d) (nf d) b)) as [Hlt|[Heq|Hgt]]; [|assumption|].
  - exfalso. apply P3; [lia|]. apply H2. lia.
  - exfalso. apply H3; [lia|]. apply P2. lia.
Qed.

Lemma lookup_target_memo : forall d d' b, 1 <= nf d -> loc_ok d -> memo d d' ->
  fst (lookup d' b) = fst (lookup d b).
Proof.
  intros d d' b Hnf Hok (E1&E2&_&_&_&_&_&E8&_&Hl&Hok'). unfold lookup. rewrite E1, E2, E8.
  destruct (nblk d <=? b); [reflexivity|]. destruct (nf d =? 1); [reflexivity|].
  destruct (Hl b) as [H|H].
  - rewrite H. destruct (loc d b); reflexivity.
  - rewrite H. destruct (loc d' b) as [|t] eqn:El; [reflexivity|]. cbn [fst].
    rewrite <- El. rewrite (loc_ok_probe d' b) by (rewrite ?E1; try assumption; rewrite El; discriminate).
    now rewrite E1, E2.
Qed.

Lemma fr_loop_iff : forall i cnt d target b, 1 <= nf d -> loc_ok d ->
  fst (fr_loop d i target cnt b) =
  hit i target || existsb (fun k => hit i (fst (lookup d (b + k)))) (seq 0 cnt).
Proof.
  intros i cnt. induction cnt as [|cnt IH]; intros d target b Hnf Hok; cbn [fr_loop seq existsb].
  - cbn [fst]. now rewrite orb_false_r.
  - pose proof (lookup_memo d b Hnf Hok) as HL. rewrite Nat.add_0_r.
    destruct (lookup d b) as [nt l] eqn:El. cbn [fst].
    destruct (memo_pre _ _ HL Hnf) as (Hnf1 & Hok1).
    assert (Hrest : existsb (fun k => hit i (fst (lookup (set_loc d l) (S b + k)))) (seq 0 cnt) =
                    existsb (fun k => hit i (fst (lookup d (b + k)))) (seq 1 cnt)).
    { rewrite <- seq_shift, existsb_map_f. apply existsb_ext_f. intros k.
      rewrite (lookup_target_memo d (set_loc d l) (S b + k) Hnf Hok HL).
      replace (b + S k) with (S b + k) by lia. reflexivity. }
    destruct (Nat.eqb_spec nt target) as [->|Hne].
    + rewrite IH by assumption. rewrite Hrest. destruct (hit i target); reflexivity.
    + destruct (hit i target) eqn:Eh; [reflexivity|]. cbn [orb].
      rewrite IH by assumption. now rewrite Hrest.
Qed.

Theorem full_read_fault_iff : forall d i cnt b, 1 <= nf d -> loc_ok d ->
  fst (full_read_fault d i cnt b) = existsb (fun k => hit i (fst (lookup d (b + k)))) (seq 0 cnt).
Proof.
  intros d i cnt b Hnf Hok. destruct cnt as [|cnt]; [reflexivity|]. cbn [full_read_fault seq existsb].
  pose proof (lookup_memo d b Hnf Hok) as HL. rewrite Nat.add_0_r.
  destruct (lookup d b) as [t l] eqn:El. cbn [fst].
  destruct (memo_pre _ _ HL Hnf) as (Hnf1 & Hok1).
  rewrite fr_loop_iff by assumption. f_equal.
  rewrite <- seq_shift, existsb_map_f. apply existsb_ext_f. intros k.
  rewrite (lookup_target_memo d (set_loc d l) (S b + k) Hnf Hok HL).
  replace (b + S k) with (S b + k) by lia. reflexivity.
Qed.

(** ** C06 *)
(** after any history the specification covers, every retained user-created snapshot reads back
    exactly the image recorded when it was taken ([s_img] is only ever written by [Snap], as a copy of
    the live image, and extended by zeros by [Resize]) *)
Theorem user_snapshot_immutable : forall K nb p h s d i e, 0 < K ->
  spec_run K (mkspec (repeat 0%N (nb * K)) [] nb) (init nb p) h = Some (s, d) ->
  nth_error (snaps s) (i - 1) = Some e -> 1 <= i < nf d -> retained e = true ->
  image K d i = s_img e /\ nm d i = s_name e.
Proof.
  intros K nb p h s d i e HK H Hn Hi Hr.
  destruct (run_refines K h _ _ _ _ HK (inv_init K nb p) (rel_init K nb p) H) as (I & R).
  destruct (r_snaps _ _ _ R i e Hi Hn) as (A & _ & _ & D). split; [symmetry; now apply D|congruence].
Qed.

(** reverting to a retained user-created snapshot makes the volume read back exactly its image *)
Theorem revert_exact : forall K d s name ch e p, 0 < K -> inv K d -> Rel K d s ->
  spos (snaps s) name 1 = p -> p <> 0 -> nth_error (snaps s) (p - 1) = Some e -> retained e = true ->
  name <> 0%N ->
  let '(d1, x) := step true K d (Revert name) ch in
  ores x = ROk /\ inv K d1 /\ fst (read_all K d1) = s_img e.
Proof.
  intros K d s name ch e p HK I R Hp Hp0 He Hret Hn0.
  destruct (step true K d (Revert name) ch) as [d1 x] eqn:Es.
  assert (Hsp : spec_step K s (Revert name) (ores x, image K d1 (nf d1)) =
                Some (mkspec (s_img e) (firstn p (snaps s)) (size s), ROk, [])).
  { cbn [spec_step]. unfold classify. destruct (N.eqb_spec name 0); [contradiction|]. rewrite Hp.
    assert (Hpl : p - 1 < length (snaps s)) by (apply nth_error_Some; congruence).
    destruct (Nat.eqb_spec p 0); [lia|].
    rewrite He, Hret.
    destruct (p =? length (snaps s)); [reflexivity|]. destruct (p =? 1); reflexivity. }
  destruct (step_sim K d s (Revert name) ch d1 x _ _ _ HK I R Es Hsp) as (I1 & R1 & Hr & _).
  split; [assumption|]. split; [assumption|].
  pose proof (read_whole K d1 HK (inv_wf _ _ I1)) as RW. unfold read_all.
  destruct (read_at K d1 0 (nblk d1 * K)) as [lv d2]. destruct RW as (-> & _). cbn [fst].
  symmetry. exact (r_live _ _ _ R1).
Qed.

(** the unrepaired fullWriteAt (hole sent to the file of the current block) violates C06:
    F1 -- write blocks 0-1; user snapshot; write block 0; automatic snapshot; write blocks 0-1 *)
Definition f1_history : list (op * list bool) :=
  [(Write 0 (repeat 1%N 2), []); (Snap 1%N true, []); (Write 0 (repeat 2%N 1), []); (Snap 2%N false, []);
   (Write 0 (repeat 3%N 2), [])].

Theorem C06_refuted_unrepaired :
  c06_oracle (mkcfg 1 8 true true) (map fst f1_history) (trace false 1 true (init 8 true) f1_history) = false.
Proof. vm_compute. reflexivity. Qed.

(** the same history is fine for the repaired variant, and reclamation does thin the automatic snapshot *)
Example f1_history_repaired :
  c06_oracle (mkcfg 1 8 true true) (map fst f1_history) (trace true 1 true (init 8 true) f1_history) = true /\
  (let d := fst (run true 1 (init 8 true) f1_history) in
   image 1 d 1 = [1; 1; 0; 0; 0; 0; 0; 0]%N /\ image 1 d 2 = [1; 1; 0; 0; 0; 0; 0; 0]%N /\ snapix d = 1).
Proof. vm_compute. auto. Qed.

(** ** C11 *)
(** deleting member i (PrepareRemoveDisk, fold into the parent, RemoveDiffDisk) whose parent is not a
    retained user-created snapshot: the live image and every other member's image are unchanged; members
    above i move down by one *)
Theorem delete_preserves : forall K d name, inv K d ->
  let i := find_name d name (nf d) in
  2 <= i -> S i < nf d -> (usr d (i - 1) = true -> rmd d (i - 1) = true) ->
  exists d1, delete d name = (d1, ROk) /\ inv K d1 /\ nf d1 = nf d - 1 /\ nblk d1 = nblk d /\
    image K d1 (nf d1) = image K d (nf d) /\
    (forall k, 1 <= k < i - 1 -> image K d1 k = image K d k /\ nm d1 k = nm d k) /\
    (forall k, i <= k -> image K d1 k = image K d (S k) /\ nm d1 k = nm d (S k)) /\
    nm d1 (i - 1) = nm d (i - 1).
Proof.
  intros K d name I i Hi Hin Hpar.
  destruct (delete_cases d name) as [(_ & E)|[(_ & E & Hc)|(_ & _ & E)]]; fold i in E; try lia.
  fold i in E. exists (merged (mark d i) i). split; [assumption|].
  assert (Im : inv K (mark d i)) by (apply mark_inv; [assumption|lia]).
  assert (Hpar' : usr (mark d i) (i - 1) = true -> rmd (mark d i) (i - 1) = true).
  { cbn [mark usr rmd]. rewrite fupd_neq by lia. assumption. }
  split; [now apply merged_inv|]. split; [reflexivity|]. split; [reflexivity|].
  assert (Hnm : forall k, nm (merged (mark d i) i) k = if k <? i then nm d k else nm d (S k)) by reflexivity.
  split; [|split; [|split]].
  - apply image_ext2; [reflexivity|]. intros b.
    change (nf (merged (mark d i) i)) with (nf d - 1).
    rewrite merged_top_high by (cbn [mark nf]; lia). replace (S (nf d - 1)) with (nf d) by lia. reflexivity.
  - intros k Hk. split.
    + apply image_ext2; [reflexivity|]. intros b. rewrite merged_top_low by lia. reflexivity.
    + rewrite Hnm. destruct (Nat.ltb_spec k i); [reflexivity|lia].
  - intros k Hk. split.
    + apply image_ext2; [reflexivity|]. intros b. rewrite merged_top_high by lia. reflexivity.
    + rewrite Hnm. destruct (Nat.ltb_spec k i); [lia|reflexivity].
  - rewrite Hnm. destruct (Nat.ltb_spec (i - 1) i); [reflexivity|lia].
Qed.

Theorem delete_refines : forall K d s name ch d1 x s1 r data,
  0 < K -> inv K d -> Rel K d s ->
  step true K d (Delete name) ch = (d1, x) ->
  spec_step K s (Delete name) (ores x, image K d1 (nf d1)) = Some (s1, r, data) ->
  inv K d1 /\ Rel K d1 s1 /\ ores x = r /\ live s1 = live s.
Proof.
  intros K d s name ch d1 x s1 r data HK I R Hs Hp.
  destruct (step_sim K d s (Delete name) ch d1 x s1 r data HK I R Hs Hp) as (A & B & C & _).
  split; [assumption|]. split; [assumption|]. split; [assumption|].
  cbn [spec_step] in Hp. destruct (classify s name) as [| | | |p]; try (inversion Hp; reflexivity).
  destruct (nth_error (snaps s) (p - 2)) as [par|]; [|discriminate]. destruct (retained par); [discriminate|].
  inversion Hp; reflexivity.
Qed.

(** one pass of the background cleaner's loop body (sync.InternalSnapshotCleaner), whatever the sync agent
    answers to the merge request: the live image is unchanged, every retained user-created snapshot is still a
    retained member with the same name and image; when the merge failed, the chain and the files are exactly
    as before -- the snapshot is still a member (only marked Removed) *)
Theorem clean_preserves : forall K d c victim fail, inv K d -> c <> 0%N ->
  let '(d1, r) := clean d (Some c) victim fail in
  inv K d1 /\ nblk d1 = nblk d /\ image K d1 (nf d1) = image K d (nf d) /\
  (forall k, 1 <= k < nf d -> usr d k = true -> rmd d k = false ->
     exists k', 1 <= k' < nf d1 /\ nm d1 k' = nm d k /\ usr d1 k' = true /\ rmd d1 k' = false /\
                image K d1 k' = image K d k) /\
  (fail = true -> nf d1 = nf d /\ nm d1 = nm d /\ fl d1 = fl d) /\
  (r = RErr -> fail = true /\ In victim (candidates d (Some c))).
Proof.
  intros K d c victim fail I Nc.
  pose proof (inv_names _ _ I) as N.
  assert (Hsame : inv K d /\ nblk d = nblk d /\ image K d (nf d) = image K d (nf d) /\
    (forall k, 1 <= k < nf d -> usr d k = true -> rmd d k = false ->
       exists k', 1 <= k' < nf d /\ nm d k' = nm d k /\ usr d k' = true /\ rmd d k' = false /\
                  image K d k' = image K d k) /\
    (fail = true -> nf d = nf d /\ nm d = nm d /\ fl d = fl d) /\
    (ROk = RErr -> fail = true /\ In victim (candidates d (Some c)))).
  { split; [assumption|]. split; [reflexivity|]. split; [reflexivity|]. split; [|split; [auto|discriminate]].
    intros k Hk Hu Hr. exists k. auto. }
  destruct (clean_cases d (Some c) victim fail) as [(Ep & E)|(Ep & HC)]; [rewrite E; exact Hsame|].
  apply existsb_exists in Ep. destruct Ep as (v' & Hin & Ev). apply N.eqb_eq in Ev. subst v'.
  destruct (picked_index d c victim N Nc Hin) as (H2 & Hlt & Hn & Hnm & Hv & R1 & R2).
  destruct HC as [(E & Hc)|(_ & _ & E)]; [exfalso; lia|]. rewrite E.
  set (i := find_name d victim (nf d)) in *.
  assert (Im : inv K (mark d i)) by (apply mark_inv; [assumption|lia]).
  destruct fail.
  - split; [assumption|]. split; [reflexivity|]. split; [reflexivity|]. split; [|split; [auto|auto]].
    intros k Hk Hu Hr. exists k. cbn [mark nf nm usr rmd].
    assert (Hki : k <> i).
    { intro Eki. subst k. unfold retained_user in R1. rewrite Hu, Hr in R1. discriminate. }
    rewrite fupd_neq by assumption. repeat split; try lia; auto.
  - assert (Hpar : usr (mark d i) (i - 1) = true -> rmd (mark d i) (i - 1) = true).
    { cbn [mark usr rmd]. rewrite fupd_neq by lia. intros Hu. unfold retained_user in R2.
      rewrite Hu in R2. cbn in R2. now apply negb_false_iff in R2. }
    set (dm := merged (mark d i) i).
    assert (Hattr : forall k, nm dm k = (if k <? i then nm d k else nm d (S k)) /\
                              usr dm k = (if k <? i then usr d k else usr d (S k)) /\
                              rmd dm k = (if k <? i then rmd (mark d i) k else rmd (mark d i) (S k))).
    { intros k. unfold dm, merged, remove_index, coalesce_ix, shift_out. cbn [nm usr rmd set_fl mark]. auto. }
    split; [now apply merged_inv|]. split; [reflexivity|]. split; [|split; [|split; [discriminate|discriminate]]].
    + apply image_ext2; [reflexivity|]. intros b. change (nf dm) with (nf d - 1). unfold dm.
      rewrite merged_top_high by (cbn [mark nf]; lia). replace (S (nf d - 1)) with (nf d) by lia. reflexivity.
    + intros k Hk Hu Hr. change (nf dm) with (nf d - 1).
      assert (Hki : k <> i).
      { intro Eki. subst k. unfold retained_user in R1. rewrite Hu, Hr in R1. discriminate. }
      assert (Hkp : k <> i - 1).
      { intro Ekp. subst k. unfold retained_user in R2. rewrite Hu, Hr in R2. discriminate. }
      destruct (Nat.ltb_spec k i) as [Hlt'|Hge].
      * exists k. destruct (Hattr k) as (F1 & F2 & F3). rewrite F1, F2, F3.
        destruct (Nat.ltb_spec k i); [|lia]. cbn [mark rmd]. rewrite fupd_neq by lia.
        repeat split; try lia; try assumption.
        apply image_ext2; [reflexivity|]. intros b. unfold dm. rewrite merged_top_low by lia. reflexivity.
      * exists (k - 1). destruct (Hattr (k - 1)) as (F1 & F2 & F3). rewrite F1, F2, F3.
        destruct (Nat.ltb_spec (k - 1) i); [lia|]. replace (S (k - 1)) with k by lia.
        cbn [mark rmd]. rewrite fupd_neq by lia.
        repeat split; try lia; try assumption.
        apply image_ext2; [reflexivity|]. intros b. unfold dm. rewrite merged_top_high by lia.
        replace (S (k - 1)) with k by lia. reflexivity.
Qed.

(** head, latest snapshot and base snapshot are refused by PrepareRemoveDisk and hence by the deletion
    flow, and nothing changes; the raw RemoveDiffDisk refuses head and latest *)
Theorem protected_refused : forall d name,
  let i := find_name d name (nf d) in
  i <> 0 -> (i = nf d \/ S i = nf d \/ i = 1) ->
  prep_remove d name = (d, RErr) /\ delete d name = (d, RErr).
Proof.
  intros d name i H0 Hc.
  destruct (prep_remove_cases d name) as [(_ & E)|[(E & _)|(H2 & Hn & _)]];
    [fold i in E; lia | | fold i in H2, Hn; lia].
  split; [assumption|].
  destruct (delete_cases d name) as [(_ & E')|[(E' & _)|(H2 & Hn & _)]];
    [fold i in E'; lia | assumption | fold i in H2, Hn; lia].
Qed.

Theorem raw_remove_refuses_head_and_latest : forall d name,
  let i := find_name d name (nf d) in
  i <> 0 -> (i = nf d \/ S i = nf d) -> remove d name = (d, RErr).
Proof.
  intros d name i H0 Hc. unfold remove, remove_g. fold i.
  destruct (Nat.eqb_spec i 0); [contradiction|].
  destruct (Nat.eqb_spec i (nf d)); [reflexivity|].
  destruct (Nat.eqb_spec (S i) (nf d)); [reflexivity|lia].
Qed.

(** with the guard the S7 patch adds, the raw RemoveDiffDisk refuses the base snapshot as well *)
Theorem raw_remove_guarded_refuses_base : forall d name,
  find_name d name (nf d) = 1 -> remove_g true d name = (d, RErr).
Proof.
  intros d name H. unfold remove_g. rewrite H.
  destruct (Nat.eqb_spec 1 0); [lia|]. destruct (1 =? nf d); [reflexivity|]. destruct (2 =? nf d); reflexivity.
Qed.

(** S7: the raw RemoveDiffDisk accepts the base snapshot, and the live volume changes *)
Definition s7_history : list (op * list bool) :=
  [(Write 0 (repeat 1%N 2), []); (Snap 1%N false, []); (Write 1 (repeat 2%N 1), []); (Snap 2%N false, []);
   (Write 2 (repeat 3%N 1), [])].

Theorem S7_raw_remove_accepts_base :
  let d := fst (run true 1 (init 8 false) s7_history) in
  find_name d 1%N (nf d) = 1 /\
  snd (remove_g false d 1%N) = ROk /\
  image 1 (fst (remove_g false d 1%N)) (nf (fst (remove_g false d 1%N))) <> image 1 d (nf d).
Proof. vm_compute. repeat split; discriminate. Qed.

(** the cleaner's filter *)
Lemma cand_range_spec : forall d cnt i name, In name (cand_range d cnt i) ->
  exists k, i <= k < i + cnt /\ nm d k = name /\ retained_user d k = false /\
            ((2 <=? k) && retained_user d (k - 1)) = false.
Proof.
  intros d cnt. induction cnt as [|cnt IH]; intros i name Hin; [destruct Hin|].
  cbn [cand_range] in Hin.
  destruct (retained_user d i || (2 <=? i) && retained_user d (i - 1)) eqn:E.
  - destruct (IH (S i) name Hin) as (k & Hk & R). exists k. split; [lia|assumption].
  - destruct Hin as [<-|Hin].
    + apply orb_false_iff in E. destruct E as [E1 E2]. exists i. repeat split; try assumption; lia.
    + destruct (IH (S i) name Hin) as (k & Hk & R). exists k. split; [lia|assumption].
Qed.

Theorem cleaner_filter : forall d cp name, In name (candidates d cp) ->
  exists c k, cp = Some c /\ find_name d c (nf d) <> 0 /\
    2 <= k < find_name d c (nf d) /\                   (* strictly between base and checkpoint *)
    nm d k = name /\
    retained_user d k = false /\ retained_user d (k - 1) = false /\
    (find_name d c (nf d) < nf d -> S k < nf d).        (* checkpoint is a snapshot: k is not the latest *)
Proof.
  intros d cp name Hin. unfold candidates in Hin.
  destruct cp as [c|]; [|destruct Hin].
  destruct (nf d <=? 3); [destruct Hin|].
  destruct (Nat.leb_spec (find_name d c (nf d)) 2) as [|Hc]; [destruct Hin|].
  destruct (cand_range_spec d _ 2 name Hin) as (k & Hk & Hn & R1 & R2).
  exists c, k. split; [reflexivity|]. split; [lia|]. split; [lia|]. split; [assumption|]. split; [assumption|].
  split.
  - destruct (Nat.leb_spec 2 k); [|lia]. exact R2.
  - intros Hlt. lia.
Qed.

Theorem cleaner_no_checkpoint : forall d, candidates d None = [].
Proof. reflexivity. Qed.

Theorem cleaner_low_checkpoint : forall d c, find_name d c (nf d) <= 2 -> candidates d (Some c) = [].
Proof.
  intros d c H. unfold candidates. destruct (nf d <=? 3); [reflexivity|].
  destruct (Nat.leb_spec (find_name d c (nf d)) 2); [reflexivity|lia].
Qed.

(** ** C16 *)
Theorem grow : forall K d nb, inv K d -> nblk d <= nb ->
  resize d nb = (grown_dd d nb, ROk) /\ inv K (grown_dd d nb) /\ nblk (grown_dd d nb) = nb /\
  nf (grown_dd d nb) = nf d /\
  forall j, image K (grown_dd d nb) j = image K d j ++ repeat 0%N ((nb - nblk d) * K).
Proof.
  intros K d nb I Hnb. destruct (resize_cases d nb) as [(Hlt & _)|(_ & E)]; [lia|].
  split; [exact E|]. split; [now apply grown_inv|]. split; [reflexivity|]. split; [reflexivity|].
  intros j. apply grown_image; [apply I|assumption].
Qed.

Theorem added_range_accepts_writes : forall K d nb data off ch, 0 < K -> inv K d -> nblk d <= nb ->
  off + length data <= nb * K ->
  let '(dw, hs) := write_at true K (grown_dd d nb) data off in
  let d1 := punched dw hs ch in
  inv K d1 /\ image K d1 (nf d1) = lsplice (image K (grown_dd d nb) (nf d)) off data.
Proof.
  intros K d nb data off ch HK I Hnb Hr.
  pose proof (write_exact K (grown_dd d nb) data off ch HK (grown_inv K d nb I Hnb) Hr) as W.
  destruct (write_at true K (grown_dd d nb) data off) as [dw hs]. destruct W as (A & B & _). split; assumption.
Qed.

Theorem shrink_refused : forall d nb, nb < nblk d -> resize d nb = (d, RErr).
Proof. intros d nb H. destruct (resize_cases d nb) as [(_ & E)|(Hge & _)]; [assumption|lia]. Qed.

(** the size survives close / open and reload *)
Theorem size_survives_reopen : forall K d pre ch, inv K d ->
  let '(d1, hs) := reopen d pre in nblk (punched d1 hs ch) = nblk d /\ inv K (punched d1 hs ch).
Proof.
  intros K d pre ch I. pose proof (reopen_spec K d pre ch (opened_inv K d I)) as RS.
  destruct (reopen d pre) as [d1 hs]. destruct RS as (I2 & _ & _ & _ & _ & E & _). auto.
Qed.

(** ** non-vacuity: a history with unaligned writes across files, both kinds of snapshot, reclamation,
    a deletion, a revert, reopen and resize is inside the specification's domain *)
Definition demo_history : list (op * list bool) :=
  [(Write 3 (repeat 1%N 10), []); (Snap 1%N true, []); (Write 5 (repeat 2%N 9), [true]); (Snap 2%N false, []);
   (Write 0 (repeat 3%N 16), [true; false]); (Snap 3%N false, []); (Write 7 (repeat 4%N 2), []);
   (Snap 4%N true, []); (Delete 3%N, []); (Reload true, [true]); (Resize 6, []); (Write 17 (repeat 5%N 6), []);
   (Reopen false, []); (Read 2 20, []); (Revert 1%N, []); (Read 0 24, [])].

Example demo_in_domain :
  match spec_run 4 (mkspec (repeat 0%N (4 * 4)) [] 4) (init 4 true) demo_history with
  | Some (s, d) => nf d = 2 /\ size s = 6 /\
                   firstn 16 (live s) = [0; 0; 0; 1; 1; 1; 1; 1; 1; 1; 1; 1; 1; 0; 0; 0]%N
  | None => False
  end.
Proof. vm_compute. auto. Qed.
