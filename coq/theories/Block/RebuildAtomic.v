(** * Rebuild: the three phases of UpdateLUNMap, run without anything in between, ARE Block.Model's
    [update_lun_map] (the transcription of Server.UpdateLUNMap that C01 / C06 / C11 use): the preload in steps
    of one block computes exactly [preload_from] and sends exactly its holes, in the same order. *)
From Coq Require Import List Arith Bool NArith Lia.
From Jiva Require Import Block.Model Block.Lemmas Block.Rebuild.
Import ListNotations.

Definition strip (p : pst) : pst := mkpst (pl p) (pfile p) (pfidx p) (plen p) (poff p) [].

(** the hole list is write-only for [pre_block] *)
Lemma pre_block_strip : forall d i u p b,
  strip (pre_block d i u p b) = strip (pre_block d i u (strip p) b) /\
  pholes (pre_block d i u p b) = pholes p ++ pholes (pre_block d i u (strip p) b).
Proof.
  intros d i u p b. unfold pre_block. destruct (fl d i b); [|split; [reflexivity|cbn; now rewrite app_nil_r]].
  cbn [strip pl pfile pfidx plen poff pholes].
  destruct (pl p b =? 0); [split; [reflexivity|cbn; now rewrite app_nil_r]|].
  destruct (negb (same_file (pl p b) (pfile p)) || negb (b =? poff p + plen p)).
  - destruct (can_punch (pfile p) (pfidx p) u (punch d)); split; cbn; try reflexivity; now rewrite ?app_nil_r.
  - split; [reflexivity|cbn; now rewrite app_nil_r].
Qed.

(** [n] steps of the scan, collecting what is sent *)
Fixpoint scan_n (d : dd) (n : nat) (c : scan) : scan * list hole :=
  match n with
  | 0 => (c, [])
  | S n' => let '(c1, h1) := scan_step d c in let '(c2, h2) := scan_n d n' c1 in (c2, h1 ++ h2)
  end.

Lemma scan_n_app : forall d n m c,
  scan_n d (n + m) c = let '(c1, h1) := scan_n d n c in let '(c2, h2) := scan_n d m c1 in (c2, h1 ++ h2).
Proof.
  intros d. induction n as [|n IH]; intros m c.
  - cbn. destruct (scan_n d m c). reflexivity.
  - cbn [plus scan_n]. destruct (scan_step d c) as [c1 h1]. rewrite IH.
    destruct (scan_n d n c1) as [c2 h2]. destruct (scan_n d m c2) as [c3 h3]. now rewrite app_assoc.
Qed.

(** the blocks of one file *)
Lemma scan_blocks : forall d i u cnt b p, i <= nf d -> b + cnt <= nblk d -> pholes p = [] ->
  scan_n d cnt (mkscan i b u p) =
  (mkscan i (b + cnt) u (strip (pre_blocks d i u cnt b p)), pholes (pre_blocks d i u cnt b p)).
Proof.
  intros d i u. induction cnt as [|cnt IH]; intros b p Hi Hb Hh.
  - cbn. rewrite Nat.add_0_r. unfold strip. rewrite Hh. destruct p; cbn in *; subst; reflexivity.
  - cbn [scan_n pre_blocks]. unfold scan_step, scan_done. cbn [si sb sucsi sp].
    destruct (Nat.ltb_spec (nf d) i); [lia|]. destruct (Nat.ltb_spec b (nblk d)); [|lia].
    set (p1 := pre_block d i u p b).
    specialize (IH (S b) (mkpst (pl p1) (pfile p1) (pfidx p1) (plen p1) (poff p1) []) Hi ltac:(lia) eq_refl).
    change (mkpst (pl p1) (pfile p1) (pfidx p1) (plen p1) (poff p1) []) with (strip p1) in *.
    rewrite IH. replace (S b + cnt) with (b + S cnt) by lia.
    (* the remaining blocks, from the stripped state and from the full one *)
    assert (G : forall n b0 q, strip (pre_blocks d i u n b0 q) = strip (pre_blocks d i u n b0 (strip q)) /\
                               pholes (pre_blocks d i u n b0 q) = pholes q ++ pholes (pre_blocks d i u n b0 (strip q))).
    { induction n as [|n IHn]; intros b0 q.
      - cbn. split; [reflexivity|now rewrite app_nil_r].
      - cbn [pre_blocks]. destruct (pre_block_strip d i u q b0) as (A & B).
        destruct (IHn (S b0) (pre_block d i u q b0)) as (C & D).
        destruct (IHn (S b0) (pre_block d i u (strip q) b0)) as (E & F).
        rewrite A in C, D. split.
        + rewrite C, E. reflexivity.
        + rewrite D, F, B. now rewrite app_assoc. }
    destruct (G cnt (S b) p1) as (A & B). rewrite <- A, B. reflexivity.
Qed.

(** one whole file: its blocks, then the flush *)
Lemma scan_file : forall d i u0 p, 1 <= i <= nf d -> pholes p = [] ->
  let u := if ucs d i then i else u0 in
  let st := pre_file d i (u0, p) in
  scan_n d (S (nblk d)) (mkscan i 0 u p) =
  (mkscan (S i) 0 (if ucs d (S i) then S i else u) (strip (snd st)), pholes (snd st)).
Proof.
  intros d i u0 p Hi Hh u st. replace (S (nblk d)) with (nblk d + 1) by lia. rewrite scan_n_app.
  rewrite (scan_blocks d i u (nblk d) 0 p) by (try lia; assumption). cbn [plus].
  cbn [scan_n]. unfold scan_step, scan_done. cbn [si sb sucsi sp].
  destruct (Nat.ltb_spec (nf d) i); [lia|]. destruct (Nat.ltb_spec (nblk d) (nblk d)); [lia|].
  subst st. unfold pre_file. fold u. set (p1 := pre_blocks d i u (nblk d) 0 p).
  cbn [strip pl pfile pfidx plen poff pholes snd].
  destruct (can_punch (pfile p1) (pfidx p1) u (punch d)); cbn [app]; rewrite ?app_nil_r; reflexivity.
Qed.

Lemma scan_files : forall d cnt i u0 p, 1 <= i -> i + cnt <= S (nf d) -> pholes p = [] ->
  let st := pre_files d cnt i (u0, p) in
  scan_n d (cnt * S (nblk d)) (mkscan i 0 (if ucs d i then i else u0) p) =
  (mkscan (i + cnt) 0 (if ucs d (i + cnt) then i + cnt else fst st) (strip (snd st)), pholes (snd st)).
Proof.
  intros d. induction cnt as [|cnt IH]; intros i u0 p Hi Hc Hh.
  - cbn. rewrite Nat.add_0_r. unfold strip. rewrite Hh. destruct p; cbn in *; subst; reflexivity.
  - cbn [pre_files mult]. rewrite scan_n_app.
    rewrite (scan_file d i u0 p ltac:(lia) Hh). cbv zeta.
    destruct (pre_file d i (u0, p)) as [u1 p1] eqn:Ef.
    assert (Eu : u1 = if ucs d i then i else u0) by (unfold pre_file in Ef; inversion Ef; reflexivity).
    cbn [snd]. rewrite <- Eu.
    specialize (IH (S i) u1 (strip p1) ltac:(lia) ltac:(lia) eq_refl). cbv zeta in IH. rewrite IH.
    replace (S i + cnt) with (i + S cnt) by lia.
    (* pre_files from the stripped state *)
    assert (G : forall n j v q, fst (pre_files d n j (v, q)) = fst (pre_files d n j (v, strip q)) /\
                strip (snd (pre_files d n j (v, q))) = strip (snd (pre_files d n j (v, strip q))) /\
                pholes (snd (pre_files d n j (v, q))) = pholes q ++ pholes (snd (pre_files d n j (v, strip q)))).
    { assert (B : forall n j w b0 q, strip (pre_blocks d j w n b0 q) = strip (pre_blocks d j w n b0 (strip q)) /\
                               pholes (pre_blocks d j w n b0 q) = pholes q ++ pholes (pre_blocks d j w n b0 (strip q))).
      { intros n j w. induction n as [|n IHn]; intros b0 q.
        - cbn. split; [reflexivity|now rewrite app_nil_r].
        - cbn [pre_blocks]. destruct (pre_block_strip d j w q b0) as (A & B0).
          destruct (IHn (S b0) (pre_block d j w q b0)) as (C & D).
          destruct (IHn (S b0) (pre_block d j w (strip q) b0)) as (E & F).
          rewrite A in C, D. split; [rewrite C, E; reflexivity|rewrite D, F, B0; now rewrite app_assoc]. }
      assert (Fl : forall j v q, fst (pre_file d j (v, q)) = fst (pre_file d j (v, strip q)) /\
                  strip (snd (pre_file d j (v, q))) = strip (snd (pre_file d j (v, strip q))) /\
                  pholes (snd (pre_file d j (v, q))) = pholes q ++ pholes (snd (pre_file d j (v, strip q)))).
      { intros j v q. unfold pre_file. set (w := if ucs d j then j else v).
        destruct (B (nblk d) j w 0 q) as (A & C).
        set (a := pre_blocks d j w (nblk d) 0 q) in *. set (a' := pre_blocks d j w (nblk d) 0 (strip q)) in *.
        assert (Ea : pfile a = pfile a' /\ pfidx a = pfidx a' /\ plen a = plen a' /\ poff a = poff a' /\ pl a = pl a').
        { unfold strip in A. inversion A. auto. }
        destruct Ea as (E1 & E2 & E3 & E4 & E5). cbn [fst snd strip pl pfile pfidx plen poff pholes].
        rewrite E1, E2, E3, E4, E5, C. split; [reflexivity|]. split; [reflexivity|].
        destruct (can_punch (pfile a') (pfidx a') w (punch d)); now rewrite ?app_assoc. }
      induction n as [|n IHn]; intros j v q.
      - cbn. split; [reflexivity|]. split; [reflexivity|now rewrite app_nil_r].
      - cbn [pre_files]. destruct (Fl j v q) as (A & C & D).
        destruct (pre_file d j (v, q)) as [v1 q1]. destruct (pre_file d j (v, strip q)) as [v2 q2].
        cbn [fst snd] in A, C, D. subst v2.
        destruct (IHn (S j) v1 q1) as (P1 & P2 & P3). destruct (IHn (S j) v1 q2) as (R1 & R2 & R3).
        rewrite C in P1, P2, P3. split; [congruence|]. split; [congruence|].
        rewrite P3, R3, D. now rewrite app_assoc. }
    destruct (G cnt (S i) u1 p1) as (G1 & G2 & G3). rewrite <- G1, <- G2, G3. reflexivity.
Qed.

(** running [n] UlmPre events is [scan_n] on the scan component *)
Lemma run_pre_n : forall fx K n s c, uph s = UScan c ->
  let '(c1, hs) := scan_n (dst s) n c in
  run fx K s (repeat UlmPre n) =
  mkrb (src s) (spend s) (dst s) (dpend s ++ hs) (lowc s) (wired s) (reloaded s) (UScan c1) (drev s).
Proof.
  intros fx K. induction n as [|n IH]; intros s c Hu.
  - cbn. rewrite app_nil_r, <- Hu. destruct s; reflexivity.
  - cbn [scan_n repeat run step]. rewrite Hu. destruct (scan_step (dst s) c) as [c1 h1].
    specialize (IH (mkrb (src s) (spend s) (dst s) (dpend s ++ h1) (lowc s) (wired s) (reloaded s) (UScan c1) (drev s)) c1 eq_refl).
    cbn [src spend dst dpend lowc wired reloaded uph drev] in IH.
    destruct (scan_n (dst s) n c1) as [c2 h2]. rewrite IH, app_assoc. reflexivity.
Qed.

Lemma run_app_ev : forall fx K es1 es2 s, run fx K s (es1 ++ es2) = run fx K (run fx K s es1) es2.
Proof. intros fx K. induction es1 as [|e es1 IH]; intros es2 s; [reflexivity|]. cbn [run app]. apply IH. Qed.

(** UlmBegin; every step of the preload; UlmMerge  =  the atomic update_lun_map of Block.Model *)
Theorem ulm_all_is_update_lun_map : forall fx K s, reloaded s = true -> uph s = UIdle -> 1 <= nf (dst s) ->
  run fx K s (ulm_all (dst s)) =
  mkrb (src s) (spend s) (fst (update_lun_map (dst s))) (dpend s ++ snd (update_lun_map (dst s)))
       (lowc s) (wired s) (reloaded s) UDone (drev s).
Proof.
  intros fx K s Hr Hu Hnf. unfold ulm_all, ulm_pre_all. cbn [run step]. rewrite Hu, Hr.
  rewrite run_app_ev.
  set (s1 := set_uph s (UScan (scan0 (dst s)))).
  pose proof (run_pre_n fx K (nf (dst s) * S (nblk (dst s))) s1 (scan0 (dst s)) eq_refl) as H.
  cbn [s1 set_uph dst] in H. unfold scan0 in H at 1.
  pose proof (scan_files (dst s) (nf (dst s)) 1 0 (mkpst (fun _ => 0) None 0 0 0 []) (le_n _) ltac:(lia) eq_refl) as F.
  cbv zeta in F. rewrite F in H. clear F. fold s1. rewrite H. clear H.
  cbn [run step uph dst]. unfold scan_done. cbn [si].
  assert (Ec : (nf (dst s) <? 1 + nf (dst s)) = true) by (apply Nat.ltb_lt; lia). rewrite Ec.
  unfold update_lun_map, ulm_merge, preload_from.
  destruct (pre_files (dst s) (nf (dst s)) 1 (0, mkpst (fun _ => 0) None 0 0 0 [])) as [u p].
  subst s1. cbn [sp strip pl fst snd src spend dst dpend lowc wired reloaded drev uph set_uph]. rewrite app_assoc, ?Hr. reflexivity.
Qed.
