(** * Rebuild: observations, the trace oracles of the data halves of C07 / C19 and the correspondence
    checker (executable only; the theorems are in RebuildProofs.v).

    The harness (harness/cmd/rebuild) runs two real replica.Server instances; it quiesces the production
    CreateHoles goroutine after every event, so the model applies every queued hole after every macro
    event ([flush]).  The proofs quantify over arbitrary later application. *)
From Coq Require Import List Arith Bool NArith.
From Jiva Require Import Block.Model Block.Corr Block.Rebuild.
Import ListNotations.

(** ** what is observed of one replica at the end of a case *)
Record side := mkside {
  sd_live  : list N;              (* full read through Server.ReadAt: goes through the block map *)
  sd_fresh : list N;              (* the head opened read-only on a copy of the directory (fresh preload) *)
  sd_chain : list N;
  sd_attr  : list (bool * bool);
  sd_snaps : list (list N);       (* NewReadOnly image of every closed member, base first *)
  sd_ext   : list (list nat);     (* per member, base .. head: the blocks that have an extent *)
  sd_nblk  : nat
}.

Definition extent_list (d : dd) (i : nat) : list nat :=
  filter (fun b => negb (opt_none (fl d i b))) (seq 0 (nblk d)).

Definition observe_side (K : nat) (d : dd) : side :=
  mkside (fst (read_all K d)) (image K d (nf d)) (map (nm d) (seq 1 (nf d)))
         (map (fun i => (usr d i, rmd d i)) (seq 1 (nf d)))
         (map (image K d) (seq 1 (nf d - 1))) (map (extent_list d) (seq 1 (nf d))) (nblk d).

(** ** macro events: what one harness event stands for *)
Inductive mev :=
| MBoth (off : nat) (data : list N)
| MSrc (off : nat) (data : list N)
| MCopy (i : nat)                              (* the whole file and its .meta *)
| MCloneInfo (rev : N)
| MCloneInfoFail (stage : nat) (rev : N)       (* obstructed: the step reports its failure *)
| MReload
| MReloadFail                                  (* Server.Reload failed (volume.meta not writable): nothing changes *)
| MUlm (mid : list (nat * list N))             (* UpdateLUNMap; [mid] lands after the preload, before the merge *)
| MUlmRace (ws : list (nat * list N))          (* UpdateLUNMap against a free writer: serialised writes-first *)
| MUlmFail (i : nat).                          (* UpdateLUNMap whose preload fails at member i: the error is returned *)

Definition flush (s : rb) : rb :=
  mkrb (set_fl (src s) (apply_holes (fl (src s)) (spend s) [])) []
       (set_fl (dst s) (apply_holes (fl (dst s)) (dpend s) [])) []
       (lowc s) (wired s) (reloaded s) (uph s) (drev s).

Definition bw (w : nat * list N) : ev := BothWrite (fst w) (snd w).

Definition expand_mev (s : rb) (m : mev) : list ev :=
  match m with
  | MBoth off data => [BothWrite off data]
  | MSrc off data => [SrcWrite off data]
  | MCopy i => [Copy i (seq 0 (nblk (src s)))]
  | MCloneInfo rev => [CloneInfo rev]
  | MCloneInfoFail stage rev => [CloneInfoFail stage rev]
  | MReload => [DstReload]
  | MReloadFail => []
  | MUlm mid => UlmBegin :: ulm_pre_all (dst s) ++ map bw mid ++ [UlmMerge]
  | MUlmRace ws => map bw ws ++ ulm_all (dst s)
  | MUlmFail i => UlmBegin :: ulm_pre_until (dst s) i
  end.

(** coverage bits gathered while a case runs (model side):
    1 the source queued a hole during the rebuild     2 the preload of UpdateLUNMap queued a hole
    4 the merge queued a hole                          8 the merge filled an unknown entry from the preload
    16 the merge kept a live entry above the preloaded one   32 writes between the two critical sections *)
Definition exists_blk (n : nat) (p : nat -> bool) : bool := existsb p (seq 0 n).

(** the state after the events of [m] (before the flush) and the coverage bits *)
Definition mev_run (fx : bool) (K : nat) (s : rb) (m : mev) : rb * list bool :=
  match m with
  | MUlm mid =>
      let sa := run fx K s (UlmBegin :: ulm_pre_all (dst s)) in
      let sb := run fx K sa (map bw mid) in
      let s1 := step fx K sb UlmMerge in
      let pre := match uph sb with UScan c => pl (sp c) | _ => fun _ => 0 end in
      let L := loc (dst sb) in
      (s1, [ false; negb (length (dpend sa) =? 0); length (dpend sb) <? length (dpend s1);
             exists_blk (nblk (dst sb)) (fun b => (L b =? 0) && negb (pre b =? 0));
             exists_blk (nblk (dst sb)) (fun b => negb (pre b =? 0) && (pre b <? L b));
             negb (length mid =? 0) ])
  | MUlmRace ws =>
      let sb := run fx K s (map bw ws) in
      let s1 := run fx K sb (ulm_all (dst s)) in
      (s1, [ false; false; length (dpend sb) <? length (dpend s1); false; false; false ])
  | MUlmFail _ => (ulm_abort (run fx K s (expand_mev s m)), [])
  | MBoth _ _ | MSrc _ _ =>
      let s1 := run fx K s (expand_mev s m) in (s1, [ negb (length (spend s1) =? 0) ])
  | _ => (run fx K s (expand_mev s m), [])
  end.

Definition exec1 (fx : bool) (K : nat) (st : rb * list bool) (m : mev) : rb * list bool :=
  let '(s, acc) := st in
  let '(s1, f) := mev_run fx K s m in
  (flush s1, orl acc f).

Definition exec (fx : bool) (K : nat) (s : rb) (ms : list mev) : rb * list bool :=
  fold_left (exec1 fx K) ms (s, []).

(** ** one correspondence case *)
Record rside := mkrside {
  r_live : nat; r_fresh : nat; r_chain : list N; r_attr : list (bool * bool); r_snaps : list nat;
  r_ext : list (list nat); r_nblk : nat
}.

Definition expand_side (tbl : list (list N)) (r : rside) : side :=
  let g := fun i => nth i tbl [] in
  mkside (g (r_live r)) (g (r_fresh r)) (r_chain r) (r_attr r) (map g (r_snaps r)) (r_ext r) (r_nblk r).

Record rcase := mkrcase {
  rc_K : nat; rc_nb : nat; rc_clone : bool;
  rc_nopunch : bool;            (* the prehistory ran with reclamation off *)
  rc_pre : list op;             (* the source's history before the rebuild / clone starts *)
  rc_fork : option nat;         (* rebuild: the destination was in sync with the source after [k] of them *)
  rc_dpre : list op;            (* ... and then wrote this on its own (writes only) *)
  rc_snap : N;                  (* clone: the name of S *)
  rc_ev : list mev;
  rc_tbl : list rle; rc_src : rside; rc_dst : rside;
  rc_completed : bool;          (* on the implementation every step reported success (a failed one was repeated
                                   successfully) and the flow ran to its end *)
  rc_rev : N;                   (* observed revision counter of the destination *)
  rc_snaprev : N                (* revision counter recorded for S on the source *)
}.

Definition addname : N := 900%N.

Definition blk_run (fx : bool) (K : nat) (d : dd) (ops : list op) : dd :=
  fst (Model.run fx K d (all_applied ops)).

(** the destination's directory, indexed by the source's member positions *)
Definition positional (own : dd) (c n : nat) : dd :=
  mkdd n (fun i => if i <=? c then fl own i else if i =? n - 1 then fl own (S c) else fempty)
       (nm own) (usr own) (rmd own) (ucs own) (snapix own) (loc own) (nblk own) false.

Definition init_case (fx : bool) (c : rcase) : rb :=
  let K := rc_K c in
  let d00 := init (rc_nb c) (negb (rc_nopunch c)) in
  let on := [SetPunch true] in                       (* reclamation is on in a replica that is in service *)
  if rc_clone c then
    let s := blk_run fx K d00 (rc_pre c ++ on) in
    clone_init s (find_name s (rc_snap c) (nf s))
  else
    match rc_fork c with
    | None =>
        let s := blk_run fx K d00 (rc_pre c ++ on ++ [Snap addname false]) in
        let own := blk_run fx K (init (rc_nb c) false) [Snap addname false] in
        rebuild_init s (positional own 0 (nf s)) 0
    | Some k =>
        let dk := blk_run fx K d00 (firstn k (rc_pre c)) in
        let s := blk_run fx K dk (skipn k (rc_pre c) ++ on ++ [Snap addname false]) in
        (* the member starts (Open preloads its block map, punching still off), then runs on its own *)
        let own := blk_run fx K dk ([SetPunch false; Reopen true; SetPunch (negb (rc_nopunch c))] ++ rc_dpre c
                                    ++ [Snap addname false]) in
        rebuild_init s (positional own (nf dk - 1) (nf s)) (nf dk - 1)
    end.

(** ** expected contents (the flat specification: writes in order) *)
Fixpoint writes_of (ops : list op) : list (nat * list N) :=
  match ops with
  | [] => []
  | Write off data :: r => (off, data) :: writes_of r
  | _ :: r => writes_of r
  end.

Fixpoint ev_writes (ms : list mev) : list (nat * list N) :=
  match ms with
  | [] => []
  | MBoth off data :: r => (off, data) :: ev_writes r
  | MSrc off data :: r => (off, data) :: ev_writes r
  | MUlm mid :: r => mid ++ ev_writes r
  | MUlmRace ws :: r => ws ++ ev_writes r
  | _ :: r => ev_writes r
  end.

Definition flat (K nb : nat) (ws : list (nat * list N)) : list N :=
  fold_left (fun l w => lsplice l (fst w) (snd w)) ws (repeat 0%N (nb * K)).

(** the operations before [Snap name _] *)
Fixpoint before_snap (ops : list op) (name : N) : list op :=
  match ops with
  | [] => []
  | Snap n u :: r => if N.eqb n name then [] else Snap n u :: before_snap r name
  | o :: r => o :: before_snap r name
  end.

(** ** the data half of C07 stated on what is observed *)
Definition block_of (K : nat) (im : list N) (b : nat) : list N := firstn K (skipn (b * K) im).

(** a block of member [j] (0-based) is shadowed when a newer member of the source has an extent there *)
Definition shadowed (exts : list (list nat)) (j b : nat) : bool :=
  existsb (fun e => existsb (Nat.eqb b) e) (skipn (S j) exts).

Fixpoint snaps_agree (K nblk : nat) (exts : list (list nat)) (j : nat) (attrs : list (bool * bool))
         (si di : list (list N)) : bool :=
  match attrs, si, di with
  | a :: attrs', x :: si', y :: di' =>
      (if retained_attr a then listN_eqb x y
       else forallb (fun b => shadowed exts j b || listN_eqb (block_of K x b) (block_of K y b)) (seq 0 nblk))
      && snaps_agree K nblk exts (S j) attrs' si' di'
  | _, [], [] => true
  | _, _, _ => false
  end.

Definition c07_oracle (K : nat) (expect : list N) (s d : side) : bool :=
  listN_eqb (sd_live s) expect                      (* every acknowledged write is in the source ... *)
  && listN_eqb (sd_live d) (sd_live s)              (* ... and the rebuilt replica serves the same *)
  && listN_eqb (sd_fresh d) (sd_live d)             (* its block map agrees with its files *)
  && list_eqb N.eqb (sd_chain d) (sd_chain s)
  && list_eqb attr_eqb (sd_attr d) (sd_attr s)
  && (sd_nblk d =? sd_nblk s)
  && snaps_agree K (sd_nblk s) (sd_ext s) 0 (sd_attr s) (sd_snaps s) (sd_snaps d).

(** the data half of C19: the clone serves exactly S (as the source holds it, and as it was written),
    through its block map and through its files, and carries the counter recorded for S *)
Definition c19_oracle (K : nat) (name : N) (expect : list N) (rev snaprev : N) (s d : side) : bool :=
  let p := pos_of (sd_chain s) name 1 in
  negb (p =? 0)
  && listN_eqb (nth (p - 1) (sd_snaps s) []) expect
  && listN_eqb (sd_live d) expect
  && listN_eqb (sd_fresh d) expect
  && N.eqb rev snaprev.

(** ** comparison model / implementation
    codes: 1 live 2 fresh 3 chain 4 attributes 5 snapshot images 6 extents 7 size; +10 for the destination;
    21 revision counter; 22 the flow stopped on one side and ran to its end on the other *)
Definition side_diff (a b : side) : nat :=
  if negb (listN_eqb (sd_live a) (sd_live b)) then 1
  else if negb (listN_eqb (sd_fresh a) (sd_fresh b)) then 2
  else if negb (list_eqb N.eqb (sd_chain a) (sd_chain b)) then 3
  else if negb (list_eqb attr_eqb (sd_attr a) (sd_attr b)) then 4
  else if negb (list_eqb listN_eqb (sd_snaps a) (sd_snaps b)) then 5
  else if negb (list_eqb (list_eqb Nat.eqb) (sd_ext a) (sd_ext b)) then 6
  else if negb (sd_nblk a =? sd_nblk b) then 7
  else 0.

Record rverdict := mkrverdict { rv_diff : nat; rv_oracle : bool; rv_flags : nat }.

Definition is_unaligned (K : nat) (w : nat * list N) : bool :=
  negb ((fst w mod K =? 0) && ((fst w + length (snd w)) mod K =? 0)).

(** further coverage bits (from the case itself):  64 forked destination   128 unaligned write before the
    Reload   256 unaligned write after it   512 an automatic snapshot reads differently on the two sides
    1024 a step failed and the flow stopped   2048 a step failed and was repeated *)
Fixpoint unaligned_split (K : nat) (ms : list mev) (after : bool) : bool * bool :=
  match ms with
  | [] => (false, false)
  | m :: r =>
      let ws := match m with MBoth o d => [(o, d)] | MUlm mid => mid | MUlmRace w => w | _ => [] end in
      let u := existsb (is_unaligned K) ws in
      let after' := match m with MReload => true | _ => after end in
      let '(a, b) := unaligned_split K r after' in
      if after then (a, b || u) else (a || u, b)
  end.

(** does the flow the model predicts run to its end?  a failed step must have been repeated successfully *)
Fixpoint flow_ok3 (ms : list mev) (ci rl ul : bool) : bool :=
  match ms with
  | [] => negb ci && negb rl && negb ul
  | MCloneInfoFail _ _ :: r => flow_ok3 r true rl ul
  | MCloneInfo _ :: r => flow_ok3 r false rl ul
  | MReloadFail :: r => flow_ok3 r ci true ul
  | MReload :: r => flow_ok3 r ci false ul
  | MUlmFail _ :: r => flow_ok3 r ci rl true
  | MUlm _ :: r | MUlmRace _ :: r => flow_ok3 r ci rl false
  | _ :: r => flow_ok3 r ci rl ul
  end.
Definition flow_ok (ms : list mev) (ci rl : bool) : bool := flow_ok3 ms ci rl false.

(** what the destination serves: after its Reload the chain the directory holds, before it its own chain *)
(** (a clone that has not reloaded yet still works on its head alone, whatever UpdateCloneInfo wrote) *)
Definition observe_dst (K : nat) (clone : bool) (s : rb) : side :=
  if reloaded s then observe_side K (dst s)
  else let v := own_view (lowc s) (wired s && negb clone) (dst s) in
       let lv := fst (read_all K v) in mkside lv lv [] [] [] [] (nblk v).

Definition lite_diff (a b : side) : nat :=
  if negb (listN_eqb (sd_live a) (sd_live b)) then 1 else if negb (sd_nblk a =? sd_nblk b) then 7 else 0.

Definition case_oracle (K : nat) (c : rcase) (completed : bool) (rev : N) (os od : side) : bool :=
  if negb completed then true            (* a step reported its failure and the flow stopped: nothing is claimed *)
  else if rc_clone c
  then c19_oracle K (rc_snap c) (flat K (rc_nb c) (writes_of (before_snap (rc_pre c) (rc_snap c))))
                  rev (rc_snaprev c) os od
  else c07_oracle K (flat K (rc_nb c) (writes_of (rc_pre c) ++ ev_writes (rc_ev c))) os od.

Definition check_rcase_v (fx : bool) (c : rcase) : rverdict :=
  let K := rc_K c in
  let tbl := map unrle (rc_tbl c) in
  let os := expand_side tbl (rc_src c) in
  let od := expand_side tbl (rc_dst c) in
  let '(s, fl0) := exec fx K (init_case fx c) (rc_ev c) in
  let mdone := flow_ok (rc_ev c) false false in
  let ms := observe_side K (src s) in
  let md := observe_dst K (rc_clone c) s in
  let ds := side_diff ms os in
  let dd_ := if mdone then side_diff md od else lite_diff md od in
  let diff := if negb (Bool.eqb mdone (rc_completed c)) then 22
              else if negb (ds =? 0) then ds else if negb (dd_ =? 0) then 10 + dd_
              else if N.eqb (drev s) (rc_rev c) || negb (rc_clone c) then 0 else 21 in
  let orc := case_oracle K c (rc_completed c) (rc_rev c) os od in
  let '(ua, ub) := unaligned_split K (rc_ev c) false in
  let autodiff := negb (list_eqb listN_eqb (sd_snaps ms) (sd_snaps md)) in
  mkrverdict diff orc
             (bits (orl fl0 [false; false; false; false; false; false;
                             match rc_fork c with Some _ => true | None => false end; ua; ub; autodiff;
                             negb mdone;
                             existsb (fun m => match m with MCloneInfoFail _ _ | MReloadFail | MUlmFail _ => true | _ => false end) (rc_ev c) && mdone]) 1).

(** (case index, difference code, oracle) of every case that differs or fails; and the coverage words *)
Fixpoint bad_rcases_v (fx : bool) (i : nat) (cs : list rcase) : list (nat * nat * nat) :=
  match cs with
  | [] => []
  | c :: cs' =>
      let v := check_rcase_v fx c in
      let rest := bad_rcases_v fx (S i) cs' in
      if (rv_diff v =? 0) && rv_oracle v then rest else (i, rv_diff v, b2n (rv_oracle v)) :: rest
  end.

Definition rcoverage_v (fx : bool) (cs : list rcase) : list nat := map (fun c => rv_flags (check_rcase_v fx c)) cs.

(** everything about every case in one pass: (difference code, oracle, coverage word) *)
Definition rverdicts_v (fx : bool) (cs : list rcase) : list (nat * nat * nat) :=
  map (fun c => let v := check_rcase_v fx c in (rv_diff v, b2n (rv_oracle v), rv_flags v)) cs.
Definition rverdicts := rverdicts_v code_variant.

Definition bad_rcases := bad_rcases_v code_variant.
Definition rcoverage := rcoverage_v code_variant.

(** the oracle on the MODEL's own final state of a case (used to attribute an oracle failure on the
    implementation to the model of the current tree) *)
Definition model_oracle (fx : bool) (c : rcase) : bool :=
  let K := rc_K c in
  let '(s, _) := exec fx K (init_case fx c) (rc_ev c) in
  case_oracle K c (flow_ok (rc_ev c) false false) (drev s) (observe_side K (src s)) (observe_dst K (rc_clone c) s).
