(** * Block: observations, the flat specification, the trace oracles of C01 / C06 / C11 / C16 and the
    correspondence checker.  Executable only; the theorems are in Proofs*.v. *)
From Coq Require Import List Arith Bool NArith.
From Jiva Require Import Block.Model.
Import ListNotations.

(** ** what the harness observes after every operation (images already expanded to one token per unit) *)
Record obs := mkobs {
  o_res   : res;
  o_data  : list N;              (* Read: the data; Candidates: the names returned *)
  o_live  : list N;              (* full-volume read through Server.ReadAt *)
  o_chain : list N;              (* Chain(), base first, head (name 0) last *)
  o_attr  : list (bool * bool);  (* per chain member: UserCreated, Removed (ListDisks) *)
  o_snaps : list (list N);       (* NewReadOnly image of every snapshot (members 1 .. nf-1) on a copy *)
  o_revs  : list (list N);       (* revert-on-a-copy + full read, per snapshot; [] when not taken *)
  o_nblk  : nat                  (* Info().Size / 4096 *)
}.

Record cfg := mkcfg {
  cK     : nat;       (* units per block *)
  cnb    : nat;       (* initial size in blocks *)
  cpunch : bool;      (* initial types.ShouldPunchHoles *)
  crev   : bool       (* reverts-on-copy observed after every step *)
}.

(** ** the model's observations *)
Definition read_all (K : nat) (d : dd) : list N * dd := read_at K d 0 (nblk d * K).

Definition rev_image (K : nat) (d : dd) (i : nat) : list N :=
  let '(d1, _, _) := revert (set_punch d false) (nm d i) in fst (read_all K d1).

Definition observe (K : nat) (rv : bool) (d : dd) (x : out) : dd * obs :=
  let '(lv, d1) := read_all K d in              (* the harness's read memoises location entries *)
  let members := seq 1 (nf d1) in
  let snapsix := seq 1 (nf d1 - 1) in
  (d1, mkobs (ores x) (odata x) lv
             (map (nm d1) members)
             (map (fun i => (usr d1 i, rmd d1 i)) members)
             (map (image K d1) snapsix)
             (if rv then map (rev_image K d1) snapsix else [])
             (nblk d1)).

Fixpoint trace (fx : bool) (K : nat) (rv : bool) (d : dd) (h : list (op * list bool)) : list obs :=
  match h with
  | [] => []
  | (o, ch) :: h' =>
      let '(d1, x) := step fx K d o ch in
      let '(d2, ob) := observe K rv d1 x in
      ob :: trace fx K rv d2 h'
  end.

Definition obs0 (c : cfg) : obs :=
  snd (observe (cK c) (crev c) (init (cnb c) (cpunch c)) (mkout ROk [])).

(** ** the flat specification *)
Record sentry := mksentry { s_name : N; s_user : bool; s_removed : bool; s_img : list N }.
Record spec := mkspec {
  live  : list N;              (* one token per unit, length size * K *)
  snaps : list sentry;         (* base first; the image a snapshot captured *)
  size  : nat                  (* blocks *)
}.

Definition spec0 (c : cfg) : spec := mkspec (repeat 0%N (cnb c * cK c)) [] (cnb c).

Definition retained (e : sentry) : bool := s_user e && negb (s_removed e).

Definition lsplice (l : list N) (off : nat) (data : list N) : list N :=
  firstn off l ++ data ++ skipn (off + length data) l.

(** 1-based position of a name among the snapshots, 0 = absent *)
Fixpoint spos (l : list sentry) (name : N) (i : nat) : nat :=
  match l with
  | [] => 0
  | e :: r => if N.eqb (s_name e) name then i else spos r name (S i)
  end.

Definition mark_removed (l : list sentry) (p : nat) : list sentry :=
  firstn (p - 1) l ++
  match skipn (p - 1) l with
  | e :: r => mksentry (s_name e) (s_user e) true (s_img e) :: r
  | [] => []
  end.

Definition drop_entry (l : list sentry) (p : nat) : list sentry := firstn (p - 1) l ++ skipn p l.

Definition grow_img (K old new : nat) (l : list N) : list N := l ++ repeat 0%N ((new - old) * K).

(** the cleaner's choice, on the snapshot table: [victim] lies strictly between the base snapshot and the
    checkpoint [c], is not a retained user-created snapshot and neither is its parent (this is membership in
    the model's [candidates], see Refine.picked_spec) *)
Definition s_retained_at (l : list sentry) (p : nat) : bool :=
  match nth_error l (p - 1) with Some e => retained e | None => false end.

Definition s_picked (s : spec) (c victim : N) : bool :=
  let n := length (snaps s) in
  let p := spos (snaps s) victim 1 in
  let pc := spos (snaps s) c 1 in
  (3 <=? n) && (2 <=? p) && (p <? pc)
  && negb (s_retained_at (snaps s) p) && negb (s_retained_at (snaps s) (p - 1)).

(** protected members: head, latest snapshot, base snapshot.  [n] = number of snapshots. *)
Inductive target := THead | TAbsent | TLatest | TBase | TMiddle (p : nat).
Definition classify (s : spec) (name : N) : target :=
  if N.eqb name 0 then THead
  else
    let p := spos (snaps s) name 1 in
    let n := length (snaps s) in
    if p =? 0 then TAbsent
    else if p =? n then TLatest
    else if p =? 1 then TBase
    else TMiddle p.

(** one step of the specification.  [None]: the operation is outside what the properties speak about
    (raw fold / raw remove of an unprotected member, a deletion that merges into a retained user-created
    snapshot, a snapshot name that is already in use).  [hint] = (observed result, observed live image):
    the image is used only when the volume is reverted to a snapshot whose content is not promised, the
    result only for a read under an injected fault, which may fail (nothing changes) or succeed (then the
    data are the specification's) -- which of the two is decided by where the blocks live, which the flat
    specification does not know. *)
Definition spec_step (K : nat) (s : spec) (o : op) (hint : res * list N) : option (spec * res * list N) :=
  match o with
  | Write off data =>
      if size s * K <? off + length data then Some (s, RErr, [])
      else Some (mkspec (lsplice (live s) off data) (snaps s) (size s), ROk, [])
  | Read off len =>
      if size s * K <? off + len then Some (s, RErr, [])
      else Some (s, ROk, firstn len (skipn off (live s)))
  | Snap name user =>
      if N.eqb name 0 || negb (spos (snaps s) name 1 =? 0) then None
      else if max_chain <? length (snaps s) + 3 then Some (s, RErr, [])
      else Some (mkspec (live s) (snaps s ++ [mksentry name user false (live s)]) (size s), ROk, [])
  | PrepRemove name =>
      match classify s name with
      | TAbsent => Some (s, ROk, [])
      | TMiddle p => Some (mkspec (live s) (mark_removed (snaps s) p) (size s), ROk, [])
      | _ => Some (s, RErr, [])
      end
  | Delete name =>
      match classify s name with
      | TAbsent => Some (s, ROk, [])
      | TMiddle p =>
          match nth_error (snaps s) (p - 2) with
          | Some par => if retained par then None
                        else Some (mkspec (live s) (drop_entry (snaps s) p) (size s), ROk, [])
          | None => None
          end
      | _ => Some (s, RErr, [])
      end
  | Remove name =>
      match classify s name with
      | THead | TLatest => Some (s, RErr, [])
      | TAbsent => Some (s, ROk, [])
      | _ => None
      end
  | Coalesce _ _ => None
  | Revert name =>
      match classify s name with
      | THead | TAbsent => Some (s, RErr, [])
      | TLatest | TBase | TMiddle _ =>
          let p := spos (snaps s) name 1 in
          match nth_error (snaps s) (p - 1) with
          | Some e =>
              Some (mkspec (if retained e then s_img e else snd hint) (firstn p (snaps s)) (size s), ROk, [])
          | None => None
          end
      end
  | Reopen _ | Reload _ | SetPunch _ | UpdateLunMap => Some (s, ROk, [])
  | Candidates None => Some (s, ROk, [])
  | Candidates (Some c) => if N.eqb c 0 then None else Some (s, ROk, [])   (* a checkpoint is a snapshot *)
  | Resize nb =>
      if nb <? size s then Some (s, RErr, [])
      else Some (mkspec (grow_img K (size s) nb (live s))
                        (map (fun e => mksentry (s_name e) (s_user e) (s_removed e)
                                                (grow_img K (size s) nb (s_img e))) (snaps s))
                        nb, ROk, [])
  | ReadFault off len _ =>
      if size s * K <? off + len then Some (s, RErr, [])
      else match fst hint with
           | RErr => Some (s, RErr, [])                               (* a failed read changes nothing *)
           | ROk => Some (s, ROk, firstn len (skipn off (live s)))    (* success: every unit is the written value *)
           end
  | Clean None _ _ => Some (s, ROk, [])
  | Clean (Some c) victim fail =>
      if N.eqb c 0 then None                                          (* a checkpoint is a snapshot *)
      else if s_picked s c victim then
        let p := spos (snaps s) victim 1 in
        if fail then Some (mkspec (live s) (mark_removed (snaps s) p) (size s), RErr, [])
        else Some (mkspec (live s) (drop_entry (snaps s) p) (size s), ROk, [])
      else Some (s, ROk, [])
  | Unmap _ _ => None     (* what the live volume reads after a discard is not promised (it depends on the
                             location table); the snapshots are: see c06u_step *)
  end.

(** ** comparisons *)
Fixpoint listN_eqb (a b : list N) : bool :=
  match a, b with
  | [], [] => true
  | x :: a', y :: b' => N.eqb x y && listN_eqb a' b'
  | _, _ => false
  end.
Fixpoint list_eqb {A} (e : A -> A -> bool) (a b : list A) : bool :=
  match a, b with
  | [], [] => true
  | x :: a', y :: b' => e x y && list_eqb e a' b'
  | _, _ => false
  end.
Definition attr_eqb (a b : bool * bool) : bool := Bool.eqb (fst a) (fst b) && Bool.eqb (snd a) (snd b).

(** ** C01 / C06: the observed trace agrees with the specification *)
(** retained user-created snapshots read back (NewReadOnly and, when taken, revert-on-copy) exactly the
    image they captured *)
Fixpoint snaps_ok (es : list sentry) (imgs revs : list (list N)) : bool :=
  match es with
  | [] => true
  | e :: es' =>
      match imgs with
      | [] => false
      | im :: imgs' =>
          (if retained e then listN_eqb im (s_img e) else true)
          && match revs with
             | [] => snaps_ok es' imgs' []
             | rv :: revs' => (if retained e then listN_eqb rv (s_img e) else true) && snaps_ok es' imgs' revs'
             end
      end
  end.

Definition is_read (o : op) : bool := match o with Read _ _ | ReadFault _ _ _ => true | _ => false end.

(** the part of the specification C01 promises: results of reads and writes, read data, the live image *)
Definition c01_step (s1 : spec) (r : res) (x : list N) (o : op) (cur : obs) : bool :=
  res_eqb (o_res cur) r
  && (if is_read o then listN_eqb (o_data cur) x else true)
  && listN_eqb (o_live cur) (live s1).

Definition c06_step (s1 : spec) (cur : obs) : bool :=
  (length (o_snaps cur) =? length (snaps s1)) && snaps_ok (snaps s1) (o_snaps cur) (o_revs cur).

(** runs the specification along the observed trace; [k] says what to check at each step *)
Fixpoint spec_oracle (K : nat) (k : spec -> res -> list N -> op -> obs -> bool)
         (s : spec) (ops : list op) (os : list obs) : bool :=
  match ops, os with
  | [], [] => true
  | o :: ops', cur :: os' =>
      match spec_step K s o (o_res cur, o_live cur) with
      | None => true                       (* outside the properties' domain: nothing more is claimed *)
      | Some (s1, r, x) => k s1 r x o cur && spec_oracle K k s1 ops' os'
      end
  | _, _ => false
  end.

Definition c01_oracle (c : cfg) (ops : list op) (os : list obs) : bool :=
  spec_oracle (cK c) c01_step (spec0 c) ops os.
Definition c06_oracle (c : cfg) (ops : list op) (os : list obs) : bool :=
  spec_oracle (cK c) (fun s1 _ _ _ cur => c06_step s1 cur) (spec0 c) ops os.

(** ** C11 on observed traces, stated on consecutive observations *)
Definition same_obs (a b : obs) : bool :=
  listN_eqb (o_live a) (o_live b) && listN_eqb (o_chain a) (o_chain b)
  && list_eqb attr_eqb (o_attr a) (o_attr b) && list_eqb listN_eqb (o_snaps a) (o_snaps b)
  && (o_nblk a =? o_nblk b).

Fixpoint pos_of (l : list N) (name : N) (i : nat) : nat :=
  match l with
  | [] => 0
  | x :: r => if N.eqb x name then i else pos_of r name (S i)
  end.

(** head, latest snapshot or base snapshot of the observed chain *)
Definition protected_name (prev : obs) (name : N) : bool :=
  let n := length (o_chain prev) in
  let p := pos_of (o_chain prev) name 1 in
  negb (p =? 0) && ((p =? n) || (S p =? n) || (p =? 1)).

Definition retained_attr (a : bool * bool) : bool := fst a && negb (snd a).

(** image of the retained user-created snapshot called [name] in [o], if any *)
Fixpoint user_img (names : list N) (attrs : list (bool * bool)) (imgs : list (list N)) (name : N)
  : option (list N) :=
  match names, attrs, imgs with
  | x :: names', a :: attrs', im :: imgs' =>
      if N.eqb x name then (if retained_attr a then Some im else None)
      else user_img names' attrs' imgs' name
  | _, _, _ => None
  end.

(** every retained user-created snapshot of [cur] other than [victim] had the same image in [prev] *)
Fixpoint users_kept (prev : obs) (victim : N) (names : list N) (attrs : list (bool * bool))
         (imgs : list (list N)) : bool :=
  match names, attrs, imgs with
  | x :: names', a :: attrs', im :: imgs' =>
      (if retained_attr a && negb (N.eqb x victim)
       then match user_img (o_chain prev) (o_attr prev) (o_snaps prev) x with
            | Some im0 => listN_eqb im im0
            | None => false
            end
       else true)
      && users_kept prev victim names' attrs' imgs'
  | _, _, _ => true
  end.

Fixpoint remove_name (l : list N) (name : N) : list N :=
  match l with
  | [] => []
  | x :: r => if N.eqb x name then r else x :: remove_name r name
  end.

(** the cleaner's filter, on the observed chain / attributes: candidates lie strictly between base and
    checkpoint, are not retained user-created, their parent is not, none of head / latest / base *)
Definition cand_ok (prev : obs) (cp : option N) (name : N) : bool :=
  match cp with
  | None => false
  | Some c =>
      let p := pos_of (o_chain prev) name 1 in
      let pc := pos_of (o_chain prev) c 1 in
      let n := length (o_chain prev) in
      (2 <=? p) && (p <? pc) && negb (pc =? 0) && (S p <? n)
      && negb (retained_attr (nth (p - 1) (o_attr prev) (false, false)))
      && negb (retained_attr (nth (p - 2) (o_attr prev) (false, false)))
  end.

(** a deletion target whose merge target (parent) is a retained user-created snapshot: the cleaner never
    selects it and C11 promises nothing for it *)
Definition parent_retained (prev : obs) (name : N) : bool :=
  let p := pos_of (o_chain prev) name 1 in
  (2 <=? p) && retained_attr (nth (p - 2) (o_attr prev) (false, false)).

Definition c11_step (prev : obs) (o : op) (cur : obs) : bool :=
  match o with
  | PrepRemove name =>
      if protected_name prev name then res_eqb (o_res cur) RErr && same_obs prev cur
      else listN_eqb (o_live cur) (o_live prev) && listN_eqb (o_chain cur) (o_chain prev)
           && users_kept prev name (o_chain cur) (o_attr cur) (o_snaps cur)
  | Delete name =>
      if protected_name prev name then res_eqb (o_res cur) RErr && same_obs prev cur
      else if parent_retained prev name then true
      else listN_eqb (o_live cur) (o_live prev)
           && listN_eqb (o_chain cur) (remove_name (o_chain prev) name)
           && users_kept prev name (o_chain cur) (o_attr cur) (o_snaps cur)
  | Remove name =>
      (* the raw removedisk action: head, latest and base must be refused too *)
      if protected_name prev name then res_eqb (o_res cur) RErr && same_obs prev cur else true
  | Candidates cp =>
      forallb (cand_ok prev cp) (o_data cur) && same_obs prev cur
  | Clean cp victim fail =>
      (* one pass of the background cleaner; [o_data cur] is the candidate list it chose [victim] from.
         Whatever failed, the live volume reads the same and every retained user-created snapshot is still
         there with the image it had; the chain loses at most the victim, and nothing when the merge failed *)
      forallb (cand_ok prev cp) (o_data cur)
      && listN_eqb (o_live cur) (o_live prev)
      && users_kept prev victim (o_chain cur) (o_attr cur) (o_snaps cur)
      && users_kept cur victim (o_chain prev) (o_attr prev) (o_snaps prev)
      && (if fail || negb (existsb (N.eqb victim) (o_data cur))
          then listN_eqb (o_chain cur) (o_chain prev)
          else listN_eqb (o_chain cur) (remove_name (o_chain prev) victim))
  | _ => true
  end.

Fixpoint step_oracle (k : obs -> op -> obs -> bool) (prev : obs) (ops : list op) (os : list obs) : bool :=
  match ops, os with
  | [], [] => true
  | o :: ops', cur :: os' => k prev o cur && step_oracle k cur ops' os'
  | _, _ => false
  end.

Definition c11_oracle (c : cfg) (ops : list op) (os : list obs) : bool := step_oracle c11_step (obs0 c) ops os.

(** ** C06 around a discard, on consecutive observations: an unmap leaves the chain, the attributes and the
    image of every retained user-created snapshot as they were *)
Definition c06u_step (prev : obs) (o : op) (cur : obs) : bool :=
  match o with
  | Unmap _ _ =>
      listN_eqb (o_chain cur) (o_chain prev) && list_eqb attr_eqb (o_attr cur) (o_attr prev)
      && users_kept prev 0%N (o_chain cur) (o_attr cur) (o_snaps cur)     (* 0 names the head: no snapshot is excluded *)
      && users_kept cur 0%N (o_chain prev) (o_attr prev) (o_snaps prev)
  | _ => true
  end.
Definition c06u_oracle (c : cfg) (ops : list op) (os : list obs) : bool := step_oracle c06u_step (obs0 c) ops os.

(** ** C16 on observed traces *)
Definition all_zero (l : list N) : bool := forallb (N.eqb 0) l.

(** [im] is [im0] followed by zeros *)
Definition grown (im0 im : list N) : bool :=
  listN_eqb (firstn (length im0) im) im0 && all_zero (skipn (length im0) im).

Fixpoint users_grown (prev : obs) (names : list N) (attrs : list (bool * bool)) (imgs : list (list N)) : bool :=
  match names, attrs, imgs with
  | x :: names', a :: attrs', im :: imgs' =>
      (if retained_attr a
       then match user_img (o_chain prev) (o_attr prev) (o_snaps prev) x with
            | Some im0 => grown im0 im
            | None => false
            end
       else true)
      && users_grown prev names' attrs' imgs'
  | _, _, _ => true
  end.

Definition c16_step (K : nat) (prev : obs) (o : op) (cur : obs) : bool :=
  match o with
  | Resize nb =>
      if nb <? o_nblk prev then res_eqb (o_res cur) RErr && same_obs prev cur
      else res_eqb (o_res cur) ROk && (o_nblk cur =? nb)
           && (length (o_live cur) =? nb * K) && grown (o_live prev) (o_live cur)
           && listN_eqb (o_chain cur) (o_chain prev)
           && users_grown prev (o_chain cur) (o_attr cur) (o_snaps cur)
  | _ => o_nblk cur =? o_nblk prev          (* in particular across close / open / reload *)
  end.

Definition c16_oracle (c : cfg) (ops : list op) (os : list obs) : bool :=
  step_oracle (c16_step (cK c)) (obs0 c) ops os
  && c01_oracle c ops os.                    (* the added range reads zeros and accepts writes *)

(** ** one correspondence case *)
(** observed images arrive run-length encoded in a per-case table; observations refer to table rows *)
Definition rle := list (nat * N).
Definition unrle (r : rle) : list N := flat_map (fun p => repeat (snd p) (fst p)) r.

Record robs := mkrobs {
  r_res : res; r_data : list N; r_live : nat; r_chain : list N; r_attr : list (bool * bool);
  r_snaps : list nat; r_revs : list nat; r_nblk : nat
}.

Definition expand (tbl : list (list N)) (r : robs) : obs :=
  let g := fun i => nth i tbl [] in
  mkobs (r_res r) (r_data r) (g (r_live r)) (r_chain r) (r_attr r) (map g (r_snaps r)) (map g (r_revs r))
        (r_nblk r).

Record case := mkcase { c_cfg : cfg; c_ops : list op; c_tbl : list rle; c_obs : list robs }.

(** field codes of the first model / implementation difference:
    1 result  2 data  3 live image  4 chain  5 attributes  6 snapshot images  7 revert images  8 size  9 length *)
Definition obs_diff (a b : obs) : nat :=
  if negb (res_eqb (o_res a) (o_res b)) then 1
  else if negb (listN_eqb (o_data a) (o_data b)) then 2
  else if negb (listN_eqb (o_live a) (o_live b)) then 3
  else if negb (listN_eqb (o_chain a) (o_chain b)) then 4
  else if negb (list_eqb attr_eqb (o_attr a) (o_attr b)) then 5
  else if negb (list_eqb listN_eqb (o_snaps a) (o_snaps b)) then 6
  else if negb (list_eqb listN_eqb (o_revs a) (o_revs b)) then 7
  else if negb (o_nblk a =? o_nblk b) then 8
  else 0.

Fixpoint first_diff (i : nat) (a b : list obs) : option (nat * nat) :=
  match a, b with
  | [], [] => None
  | x :: a', y :: b' =>
      match obs_diff x y with
      | O => first_diff (S i) a' b'
      | k => Some (i, k)
      end
  | _, _ => Some (i, 9)
  end.

(** candidates are compared as sets: the implementation orders them by allocated size *)
Fixpoint insertN (x : N) (l : list N) : list N :=
  match l with
  | [] => [x]
  | y :: r => if N.leb x y then x :: l else y :: insertN x r
  end.
Definition sortN (l : list N) : list N := fold_right insertN [] l.
Definition canon (o : op) (ob : obs) : obs :=
  match o with
  | Candidates _ | Clean _ _ _ =>
      mkobs (o_res ob) (sortN (o_data ob)) (o_live ob) (o_chain ob) (o_attr ob) (o_snaps ob)
            (o_revs ob) (o_nblk ob)
  | _ => ob
  end.
Fixpoint canon_all (ops : list op) (os : list obs) : list obs :=
  match ops, os with
  | o :: ops', ob :: os' => canon o ob :: canon_all ops' os'
  | _, _ => os
  end.

Definition all_applied (ops : list op) : list (op * list bool) := map (fun o => (o, [])) ops.

Record verdict := mkverdict {
  v_diff : option (nat * nat);
  v_c01 : bool; v_c06 : bool; v_c11 : bool; v_c16 : bool
}.

Definition check_case_v (fx : bool) (c : case) : verdict :=
  let g := c_cfg c in
  let tbl := map unrle (c_tbl c) in
  let os := map (expand tbl) (c_obs c) in
  let ms := trace fx (cK g) (crev g) (init (cnb g) (cpunch g)) (all_applied (c_ops c)) in
  mkverdict (first_diff 0 (canon_all (c_ops c) ms) (canon_all (c_ops c) os))
            (c01_oracle g (c_ops c) os) (c06_oracle g (c_ops c) os && c06u_oracle g (c_ops c) os)
            (c11_oracle g (c_ops c) os) (c16_oracle g (c_ops c) os).

Definition b2n (b : bool) : nat := if b then 1 else 0.

(** (case index, step, field, c01, c06, c11, c16) for every case that differs or fails an oracle *)
Fixpoint bad_cases_v (fx : bool) (i : nat) (cs : list case)
  : list (nat * (nat * nat) * (nat * nat * nat * nat)) :=
  match cs with
  | [] => []
  | c :: cs' =>
      let v := check_case_v fx c in
      let rest := bad_cases_v fx (S i) cs' in
      let fl4 := (b2n (v_c01 v), b2n (v_c06 v), b2n (v_c11 v), b2n (v_c16 v)) in
      match v_diff v with
      | Some d => (i, d, fl4) :: rest
      | None => if v_c01 v && v_c06 v && v_c11 v && v_c16 v then rest else (i, (0, 0), fl4) :: rest
      end
  end.

(** the implementation is compared with the variant named in Model.v *)
Definition check_case := check_case_v code_variant.
Definition bad_cases := bad_cases_v code_variant.

(** the oracles evaluated on the MODEL's own trace of a case's operations (used to attribute a failure
    on the implementation to a semantic variant) *)
Definition model_verdict (fx : bool) (c : case) : nat * nat * nat * nat :=
  let g := c_cfg c in
  let ms := trace fx (cK g) (crev g) (init (cnb g) (cpunch g)) (all_applied (c_ops c)) in
  (b2n (c01_oracle g (c_ops c) ms), b2n (c06_oracle g (c_ops c) ms && c06u_oracle g (c_ops c) ms),
   b2n (c11_oracle g (c_ops c) ms), b2n (c16_oracle g (c_ops c) ms)).

(** ** coverage predicates, evaluated on the model *)
(** bits: 1 a hole was sent  2 a hole was sent while a user-created snapshot exists (SnapIndx >= 1)
    4 an unaligned write read-modified a block owned by a file below the head
    8 the full-volume read after the step resolved a block through the FIEMAP probe  16 a snapshot was deleted (fold + remove)
    32 the volume grew  64 a revert succeeded  128 close/open or reload  256 a shrink was refused
    512 a protected member was refused  1024 the candidate list was non-empty
    2048 a read under an injected fault failed although the request spans blocks of at least two files
    4096 a read under an injected fault succeeded on a chain of at least two files (no block served from the broken file)
    8192 a cleaner pass merged and removed a snapshot  16384 a cleaner pass whose merge failed kept the snapshot
    32768 an unmap was executed while a user-created snapshot is protected (SnapIndx >= 1) *)
Fixpoint distinct_targets (d : dd) (cnt b : nat) (first : nat) : bool :=
  match cnt with
  | 0 => false
  | S c => negb (fst (lookup d b) =? first) || distinct_targets d c (S b) first
  end.
Definition spans_files (K : nat) (d : dd) (off len : nat) : bool :=
  match len with
  | 0 => false
  | _ => let b0 := off / K in let b1 := (off + len - 1) / K in
         distinct_targets d (S (b1 - b0)) b0 (fst (lookup d b0))
  end.
Definition holes_of (fx : bool) (K : nat) (d : dd) (o : op) : list hole :=
  match o with
  | Write off data => if nblk d * K <? off + length data then [] else snd (write_at fx K d data off)
  | Revert name => snd (fst (revert d name))
  | Reopen pre => snd (reopen d pre)
  | Reload pre => snd (reopen (set_punch d true) pre)
  | UpdateLunMap => snd (update_lun_map d)
  | _ => []
  end.

Definition opt_none {A} (x : option A) : bool := match x with None => true | Some _ => false end.

Definition lower_data (d : dd) (b : nat) : bool :=
  (2 <=? nf d) && opt_none (fl d (nf d) b) && negb (opt_none (top (fl d) (nf d - 1) b)).

Definition step_flags (fx : bool) (K : nat) (d : dd) (o : op) (d1 : dd) (x : out) : list bool :=
  let hs := holes_of fx K d o in
  [ negb (length hs =? 0);
    negb (length hs =? 0) && (1 <=? snapix d);
    match o with
    | Write off data =>
        negb (nblk d * K <? off + length data) &&
        ((negb (off mod K =? 0) && lower_data d (off / K))
         || (negb ((off + length data) mod K =? 0) && lower_data d ((off + length data) / K)))
    | _ => false end;
    (* the full-volume read that follows finds unknown entries and at least two files *)
    (2 <=? nf d1) && existsb (fun b => loc d1 b =? 0) (seq 0 (nblk d1));
    match o with Delete _ => nf d1 <? nf d | _ => false end;
    match o with Resize nb => nblk d <? nb | _ => false end;
    match o with Revert _ => res_eqb (ores x) ROk | _ => false end;
    match o with Reopen _ | Reload _ => true | _ => false end;
    match o with Resize nb => nb <? nblk d | _ => false end;
    match o with
    | Delete _ | PrepRemove _ | Remove _ => res_eqb (ores x) RErr
    | _ => false end;
    match o with Candidates _ => negb (length (odata x) =? 0) | _ => false end;
    match o with
    | ReadFault off len _ => negb (nblk d * K <? off + len) && res_eqb (ores x) RErr && spans_files K d off len
    | _ => false end;
    match o with
    | ReadFault off len i => negb (nblk d * K <? off + len) && res_eqb (ores x) ROk && (2 <=? nf d) && negb (i =? 0) && (i <=? nf d)
    | _ => false end;
    match o with Clean _ _ _ => nf d1 <? nf d | _ => false end;
    match o with Clean _ _ _ => res_eqb (ores x) RErr | _ => false end;
    match o with Unmap _ _ => res_eqb (ores x) ROk && (1 <=? snapix d) | _ => false end ].

Fixpoint orl (a b : list bool) : list bool :=
  match a, b with
  | x :: a', y :: b' => (x || y) :: orl a' b'
  | [], _ => b
  | _, [] => a
  end.

Fixpoint flags_run (fx : bool) (K : nat) (rv : bool) (d : dd) (ops : list op) (acc : list bool) : list bool :=
  match ops with
  | [] => acc
  | o :: ops' =>
      let '(d1, x) := step fx K d o [] in
      let f := step_flags fx K d o d1 x in
      let '(d2, _) := observe K false d1 x in
      flags_run fx K rv d2 ops' (orl acc f)
  end.

Fixpoint bits (l : list bool) (w : nat) : nat :=
  match l with
  | [] => 0
  | b :: r => (if b then w else 0) + bits r (2 * w)
  end.

(** (bits of the first 12 flags, bits of the others): unary numbers stay small *)
Definition case_flags_v (fx : bool) (c : case) : nat * nat :=
  let g := c_cfg c in
  let l := flags_run fx (cK g) (crev g) (init (cnb g) (cpunch g)) (c_ops c) [] in
  (bits (firstn 12 l) 1, bits (skipn 12 l) 1).

Definition coverage_v (fx : bool) (cs : list case) : list (nat * nat) := map (case_flags_v fx) cs.
Definition coverage := coverage_v code_variant.
