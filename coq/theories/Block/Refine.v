(** * Block: the model (repaired fullWriteAt) refines the flat specification.
    One simulation relation, one step lemma per operation, induction over histories. *)
From Coq Require Import List Arith Bool NArith Lia.
From Jiva Require Import Block.Model Block.Corr Block.Lemmas Block.ProofsWrite Block.ProofsUnit Block.ProofsRead
     Block.ProofsOps Block.ProofsPreload.
Import ListNotations.

(** ** comparisons are reflexive *)
Lemma listN_eqb_refl : forall l, listN_eqb l l = true.
Proof. induction l as [|x l IH]; [reflexivity|]. cbn. now rewrite N.eqb_refl, IH. Qed.

Lemma res_eqb_refl : forall r, res_eqb r r = true.
Proof. destruct r; reflexivity. Qed.

(** ** the simulation relation *)
Definition entry_ok (K : nat) (d : dd) (i : nat) (e : sentry) : Prop :=
  s_name e = nm d i /\ s_user e = usr d i /\ s_removed e = rmd d i /\
  (retained e = true -> s_img e = image K d i).

Record Rel (K : nat) (d : dd) (s : spec) : Prop := {
  r_size : size s = nblk d;
  r_live : live s = image K d (nf d);
  r_len : length (snaps s) = nf d - 1;
  r_snaps : forall i e, 1 <= i < nf d -> nth_error (snaps s) (i - 1) = Some e -> entry_ok K d i e
}.

Lemma rel_init : forall K nb p, Rel K (init nb p) (mkspec (repeat 0%N (nb * K)) [] nb).
Proof.
  intros K nb p. constructor; cbn [size live snaps init nblk nf].
  - reflexivity.
  - unfold image. cbn [init nblk fl nf]. symmetry. apply concat_zero_blocks. intros b _. reflexivity.
  - reflexivity.
  - intros i e Hi. lia.
Qed.

(** the relation only looks at files, names, attributes and size *)
Lemma rel_ext : forall K d d' s, Rel K d s -> nf d' = nf d -> nblk d' = nblk d -> nm d' = nm d ->
  usr d' = usr d -> rmd d' = rmd d ->
  (forall b, top (fl d') (nf d) b = top (fl d) (nf d) b) ->
  (forall i b, 1 <= i < nf d -> usr d i = true -> rmd d i = false -> top (fl d') i b = top (fl d) i b) ->
  Rel K d' s.
Proof.
  intros K d d' s R E1 E2 E3 E4 E5 Hl Hs. constructor.
  - rewrite E2. apply R.
  - rewrite E1, (r_live _ _ _ R). symmetry. now apply image_ext.
  - rewrite E1. apply R.
  - intros i e Hi Hn. rewrite E1 in Hi. destruct (r_snaps _ _ _ R i e Hi Hn) as (A & B & C & D).
    unfold entry_ok. rewrite E3, E4, E5. repeat split; try assumption.
    intros Hr. rewrite (D Hr). symmetry. apply image_ext; [assumption|].
    intros b. apply Hs; [assumption| |].
    + unfold retained in Hr. apply andb_true_iff in Hr. destruct Hr as [Hr _]. congruence.
    + unfold retained in Hr. apply andb_true_iff in Hr. destruct Hr as [_ Hr]. apply negb_true_iff in Hr. congruence.
Qed.

(** ** names: the specification's positions are the model's indices *)
Lemma spos_spec : forall l name i0,
  (spos l name i0 = 0 /\ (i0 <> 0 -> forall k e, nth_error l k = Some e -> s_name e <> name)) \/
  (i0 <= spos l name i0 < i0 + length l /\
   (exists e, nth_error l (spos l name i0 - i0) = Some e /\ s_name e = name) /\
   forall k e, k < spos l name i0 - i0 -> nth_error l k = Some e -> s_name e <> name).
Proof.
  induction l as [|e l IH]; intros name i0.
  - left. split; [reflexivity|]. intros _ k e H. destruct k; discriminate.
  - cbn [spos]. destruct (N.eqb_spec (s_name e) name) as [E|N].
    + destruct i0 as [|i0'].
      * (* only used with i0 >= 1 *)
        left. split; [reflexivity|]. intros H. contradiction.
      * right. split; [cbn [length]; lia|]. split.
        -- exists e. replace (S i0' - S i0') with 0 by lia. split; [reflexivity|assumption].
        -- intros k e' Hk. lia.
    + destruct (IH name (S i0)) as [(A & B)|(A & (e' & He' & Hn') & C)].
      * left. split; [assumption|]. intros H k e' Hk. destruct k as [|k]; [inversion Hk; subst; assumption|].
        apply (B ltac:(lia) k e' Hk).
      * right. split; [cbn [length]; lia|]. split.
        -- exists e'. replace (spos l name (S i0) - i0) with (S (spos l name (S i0) - S i0)) by lia.
           split; assumption.
        -- intros k e'' Hk Hnth. destruct k as [|k]; [inversion Hnth; subst; assumption|].
           apply (C k e''); [lia|assumption].
Qed.

Lemma spos_find : forall K d s name, names_ok d -> Rel K d s -> name <> 0%N ->
  spos (snaps s) name 1 = find_name d name (nf d).
Proof.
  intros K d s name (Nh & Nz & Ninj) R Hn0.
  destruct (find_name_spec d name (nf d)) as (A & B & C).
  set (r := find_name d name (nf d)) in *.
  assert (Hr : r <> 0 -> r < nf d).
  { intros Nr. destruct (Nat.eq_dec r (nf d)) as [E'|]; [|lia]. exfalso. apply Hn0.
    rewrite <- (B Nr). rewrite E'. exact Nh. }
  destruct (spos_spec (snaps s) name 1) as [(E & H)|(H1 & (e & He & Hne) & H3)].
  - rewrite E. destruct (Nat.eq_dec r 0) as [|Nr]; [congruence|]. exfalso. specialize (Hr Nr).
    assert (Hlt : r - 1 < length (snaps s)) by (rewrite (r_len _ _ _ R); lia).
    destruct (nth_error (snaps s) (r - 1)) as [e|] eqn:En; [|apply nth_error_None in En; lia].
    apply (H ltac:(lia) (r - 1) e En).
    destruct (r_snaps _ _ _ R r e ltac:(lia) En) as (Hname & _). rewrite Hname. now apply B.
  - set (p := spos (snaps s) name 1) in *. rewrite (r_len _ _ _ R) in H1.
    destruct (r_snaps _ _ _ R p e ltac:(lia) He) as (Hname & _).
    assert (Hp : nm d p = name) by congruence.
    destruct (Nat.lt_trichotomy r p) as [Hlt|[Heq|Hgt]]; [|congruence|].
    + exfalso. apply (C p); [lia|assumption].
    + (* a later member with the same name: impossible, names are distinct *)
      assert (r = p); [|lia]. apply Ninj; [lia|lia|]. rewrite Hp. apply B. lia.
Qed.

Lemma classify_spec : forall K d s name, names_ok d -> Rel K d s -> 1 <= nf d ->
  let i := find_name d name (nf d) in
  match classify s name with
  | THead => i = nf d
  | TAbsent => i = 0
  | TLatest => i <> 0 /\ S i = nf d
  | TBase => i = 1 /\ S i <> nf d /\ i <> nf d
  | TMiddle p => p = i /\ 2 <= i /\ S i < nf d
  end.
Proof.
  intros K d s name N R Hnf i. unfold classify.
  destruct (N.eqb_spec name 0) as [E0|N0].
  - subst name. destruct N as (Nh & Nz & Ninj). unfold i.
    destruct (find_name_spec d 0%N (nf d)) as (A & B & C).
    destruct (Nat.eq_dec (find_name d 0%N (nf d)) (nf d)) as [|Hne]; [assumption|].
    exfalso. apply (C (nf d)); [lia|assumption].
  - rewrite (spos_find K d s name N R N0). fold i. rewrite (r_len _ _ _ R).
    pose proof (find_name_spec d name (nf d)) as (A & B & C). fold i in A, B.
    assert (Hi : i <> nf d).
    { intro E. destruct N as (Nh & _). apply N0. rewrite <- (B ltac:(lia)). rewrite E. assumption. }
    destruct (Nat.eqb_spec i 0); [assumption|].
    destruct (Nat.eqb_spec i (nf d - 1)); [split; lia|].
    destruct (Nat.eqb_spec i 1); [repeat split; lia|].
    repeat split; lia.
Qed.

(** ** list plumbing for the snapshot table *)
Lemma nth_error_app_l : forall A (l l' : list A) k, k < length l -> nth_error (l ++ l') k = nth_error l k.
Proof. intros. now apply nth_error_app1. Qed.

Lemma nth_error_firstn_lt : forall A (l : list A) n k, k < n -> nth_error (firstn n l) k = nth_error l k.
Proof.
  induction l as [|x l IH]; intros n k H.
  - rewrite firstn_nil. reflexivity.
  - destruct n; [lia|]. destruct k; [reflexivity|]. cbn. apply IH. lia.
Qed.

Lemma nth_error_skipn_add : forall A (l : list A) n k, nth_error (skipn n l) k = nth_error l (n + k).
Proof.
  induction l as [|x l IH]; intros n k.
  - rewrite skipn_nil. destruct k; destruct (n + _); reflexivity.
  - destruct n; [reflexivity|]. cbn. apply IH.
Qed.

Lemma nth_error_drop : forall (l : list sentry) p k, 1 <= p ->
  nth_error (drop_entry l p) k = if k <? p - 1 then nth_error l k else nth_error l (S k).
Proof.
  intros l p k Hp. unfold drop_entry.
  destruct (Nat.ltb_spec k (p - 1)) as [Hlt|Hge].
  - destruct (Nat.le_gt_cases (length l) k) as [Hl|Hl].
    + rewrite (proj2 (nth_error_None l k) Hl). apply nth_error_None.
      rewrite app_length, firstn_length, skipn_length. lia.
    + rewrite nth_error_app1 by (rewrite firstn_length; lia). apply nth_error_firstn_lt. lia.
  - destruct (Nat.le_gt_cases (length l) (p - 1)) as [Hl|Hl].
    + rewrite firstn_all2 by lia. rewrite skipn_all2 by lia. rewrite app_nil_r.
      rewrite (proj2 (nth_error_None l k)) by lia. symmetry. apply nth_error_None. lia.
    + rewrite nth_error_app2 by (rewrite firstn_length; lia). rewrite firstn_length.
      replace (Nat.min (p - 1) (length l)) with (p - 1) by lia.
      rewrite nth_error_skipn_add. f_equal. lia.
Qed.

(** ** observations of the model *)
Lemma set_punch_inv : forall K d p, inv K d -> inv K (set_punch d p).
Proof.
  intros K d p [[A B C D] P N H]. constructor; [constructor|..]; assumption.
Qed.

Lemma memo_image : forall K d d' j, memo d d' -> image K d' j = image K d j.
Proof.
  intros K d d' j (E1&E2&_&_&_&_&_&E8&_). unfold image. now rewrite E2, E8.
Qed.

Lemma memo_rel : forall K d d' s, memo d d' -> Rel K d s -> Rel K d' s.
Proof.
  intros K d d' s M R. pose proof M as (E1&E2&E3&E4&E5&_&_&E8&_).
  apply (rel_ext K d d' s R); try assumption; intros; now rewrite E2.
Qed.

Lemma image_ext2 : forall K d d' j j', nblk d' = nblk d ->
  (forall b, top (fl d') j' b = top (fl d) j b) -> image K d' j' = image K d j.
Proof.
  intros K d d' j j' En H. unfold image. rewrite En. f_equal. apply map_ext. intros b. unfold img. now rewrite H.
Qed.

Lemma rev_image_spec : forall K d i, 0 < K -> inv K d -> 1 <= i < nf d -> rev_image K d i = image K d i.
Proof.
  intros K d i HK I Hi. unfold rev_image.
  set (d' := set_punch d false).
  pose proof (set_punch_inv K d false I) as I'. fold d' in I'.
  change (nm d i) with (nm d' i).
  destruct (revert_cases d' (nm d' i)) as [([H|H] & _)|(_ & E)];
    try (rewrite (find_name_at d' i (inv_names _ _ I')) in H by (exact Hi || (cbn; lia)); cbn in H; lia).
  rewrite E. rewrite (find_name_at d' i (inv_names _ _ I')) by (cbn; lia).
  pose proof (reopen_spec K (cut d' i) true [] (cut_opened_inv K d' i I' Hi)) as RS.
  destruct (reopen (cut d' i) true) as [d1 hs]. cbn [fst snd].
  destruct RS as (_ & _ & _ & _ & _ & _ & _ & _ & W1 & E1 & E2 & E3).
  pose proof (read_whole K d1 HK W1) as RW. unfold read_all.
  destruct (read_at K d1 0 (nblk d1 * K)) as [x d2]. destruct RW as (-> & _). cbn [fst].
  rewrite E1. cbn [cut nf]. apply image_ext2; [exact E2|].
  intros b. rewrite E3. rewrite cut_top_head. reflexivity.
Qed.

Lemma nth_map_seq : forall A (f : nat -> A) (dflt : A) a n k, k < n -> nth k (map f (seq a n)) dflt = f (a + k).
Proof.
  intros A f dflt a n k H. rewrite (nth_indep _ dflt (f 0)) by (now rewrite map_length, seq_length).
  rewrite map_nth, seq_nth by assumption. reflexivity.
Qed.

Lemma observe_spec : forall K rv d x, 0 < K -> inv K d ->
  let '(d2, ob) := observe K rv d x in
  memo d d2 /\ o_res ob = ores x /\ o_data ob = odata x /\ o_live ob = image K d (nf d) /\
  o_snaps ob = map (image K d) (seq 1 (nf d - 1)) /\
  (o_revs ob = [] \/ o_revs ob = map (image K d) (seq 1 (nf d - 1))).
Proof.
  intros K rv d x HK I. unfold observe, read_all.
  pose proof (read_whole K d HK (inv_wf _ _ I)) as RW.
  destruct (read_at K d 0 (nblk d * K)) as [lv d1]. destruct RW as (-> & M).
  pose proof M as (E1&_).
  cbn [o_res o_data o_live o_snaps o_revs].
  split; [assumption|]. split; [reflexivity|]. split; [reflexivity|]. split; [reflexivity|].
  rewrite E1. split.
  - apply map_ext. intros j. now apply memo_image.
  - destruct rv; [right|left; reflexivity].
    apply map_ext_in. intros j Hj. apply in_seq in Hj.
    rewrite rev_image_spec; [now apply memo_image|assumption|eapply inv_memo; eassumption|lia].
Qed.

Lemma snaps_ok_intro : forall es imgs revs,
  length imgs = length es -> (revs = [] \/ length revs = length es) ->
  (forall k e, nth_error es k = Some e -> retained e = true ->
               nth k imgs [] = s_img e /\ (revs <> [] -> nth k revs [] = s_img e)) ->
  snaps_ok es imgs revs = true.
Proof.
  induction es as [|e es IH]; intros imgs revs Hl Hr H; [reflexivity|].
  destruct imgs as [|im imgs]; [discriminate|]. cbn [snaps_ok].
  assert (H0 : retained e = true -> im = s_img e /\ (revs <> [] -> nth 0 revs [] = s_img e)).
  { intros Hret. apply (H 0 e); [reflexivity|assumption]. }
  assert (Hrest : forall revs', (revs' = [] \/ length revs' = length es) ->
            (forall k e0, nth_error es k = Some e0 -> retained e0 = true ->
                          nth k imgs [] = s_img e0 /\ (revs' <> [] -> nth (S k) revs [] = s_img e0 -> nth k revs' [] = s_img e0)) ->
            True) by trivial.
  destruct revs as [|rv revs'].
  - apply andb_true_iff. split.
    + destruct (retained e) eqn:Er; [|reflexivity]. destruct (H0 eq_refl) as (-> & _). apply listN_eqb_refl.
    + apply IH; [cbn in Hl; lia|left; reflexivity|].
      intros k e0 Hk Hret. destruct (H (S k) e0 Hk Hret) as (A & _). split; [exact A|intros C; contradiction].
  - apply andb_true_iff. split.
    + destruct (retained e) eqn:Er; [|reflexivity]. destruct (H0 eq_refl) as (-> & _). apply listN_eqb_refl.
    + apply andb_true_iff. split.
      * destruct (retained e) eqn:Er; [|reflexivity]. destruct (H0 eq_refl) as (_ & B).
        cbn in B. rewrite B by discriminate. apply listN_eqb_refl.
      * apply IH; [cbn in Hl; lia| |].
        -- destruct Hr as [Hr|Hr]; [discriminate|]. right. cbn in Hr. lia.
        -- intros k e0 Hk Hret. destruct (H (S k) e0 Hk Hret) as (A & B). split; [exact A|].
           intros _. apply B. discriminate.
Qed.

Lemma c06_step_ok : forall K d s ob, Rel K d s -> 1 <= nf d ->
  o_snaps ob = map (image K d) (seq 1 (nf d - 1)) ->
  (o_revs ob = [] \/ o_revs ob = map (image K d) (seq 1 (nf d - 1))) ->
  c06_step s ob = true.
Proof.
  intros K d s ob R Hnf Hs Hr. unfold c06_step.
  assert (Hlen : length (o_snaps ob) = length (snaps s)).
  { rewrite Hs, map_length, seq_length. symmetry. apply R. }
  rewrite Hlen, Nat.eqb_refl. cbn [andb].
  apply snaps_ok_intro; [assumption| |].
  - destruct Hr as [Hr|Hr]; [left; assumption|right]. rewrite Hr, map_length, seq_length. symmetry. apply R.
  - intros k e Hk Hret.
    assert (Hkl : k < nf d - 1).
    { rewrite <- (r_len _ _ _ R). apply nth_error_Some. congruence. }
    destruct (r_snaps _ _ _ R (S k) e ltac:(lia) ltac:(replace (S k - 1) with k by lia; assumption)) as (_ & _ & _ & Him).
    split.
    + rewrite Hs, nth_map_seq by assumption. symmetry. now apply Him.
    + intros Hne. destruct Hr as [Hr|Hr]; [contradiction|]. rewrite Hr, nth_map_seq by assumption.
      symmetry. now apply Him.
Qed.

(** ** one lemma per operation *)
Lemma retained_usr : forall K d i e, entry_ok K d i e -> retained e = true -> usr d i = true /\ rmd d i = false.
Proof.
  intros K d i e (_ & B & C & _) Hr. unfold retained in Hr. apply andb_true_iff in Hr. destruct Hr as [H1 H2].
  apply negb_true_iff in H2. split; congruence.
Qed.

Lemma write_sim : forall K d s data off ch, 0 < K -> inv K d -> Rel K d s ->
  off + length data <= nblk d * K ->
  let '(dw, hs) := write_at true K d data off in
  let d1 := punched dw hs ch in
  inv K d1 /\ Rel K d1 (mkspec (lsplice (live s) off data) (snaps s) (size s)).
Proof.
  intros K d s data off ch HK I R Hr.
  pose proof (inv_wf _ _ I) as W.
  pose proof (write_at_spec K d data off HK W Hr) as WS.
  destruct (write_at true K d data off) as [dw hs]. destruct WS as (S & U).
  destruct (stage_fin K d dw hs ch S) as (W2 & M & Hlive & Hprot).
  set (d1 := punched dw hs ch) in *.
  pose proof M as (E1&E2&E3&E4&E5&E6&E7&E8).
  split; [eapply inv_same; eauto|].
  constructor; cbn [size live snaps].
  - rewrite E7. apply R.
  - rewrite (r_live _ _ _ R). apply list_eq_nth.
    + unfold lsplice. change (firstn off ?l ++ data ++ skipn (off + length data) ?l) with (splice l off data).
      rewrite length_splice by (rewrite image_length by assumption; lia).
      rewrite !image_length by assumption. now rewrite E7.
    + intros u Hu. unfold lsplice in Hu |- *.
      change (firstn off ?l ++ data ++ skipn (off + length data) ?l) with (splice l off data) in Hu |- *.
      rewrite length_splice in Hu by (rewrite image_length by assumption; lia).
      rewrite image_length in Hu by assumption.
      rewrite nth_splice by (rewrite image_length by assumption; lia).
      rewrite (image_nth K d1 (nf d1) u HK W2) by (rewrite E7; assumption).
      rewrite (image_nth K d (nf d) u HK W Hu). rewrite E1.
      assert (Hd1 : uimg K (fl d1) (nf d) u = uimg K (fl dw) (nf d) u).
      { unfold uimg, img. now rewrite Hlive. }
      rewrite Hd1, U. reflexivity.
  - rewrite E1. apply R.
  - intros i e Hi Hn. rewrite E1 in Hi. pose proof (r_snaps _ _ _ R i e Hi Hn) as EO.
    destruct EO as (A & B & C & D). unfold entry_ok. rewrite E2, E3, E4. repeat split; try assumption.
    intros Hret. rewrite (D Hret). symmetry. apply image_ext; [assumption|]. intros b.
    destruct (retained_usr K d i e (conj A (conj B (conj C D))) Hret) as (Hu & Hrm).
    destruct (inv_prot _ _ I i Hi Hu Hrm) as (Hsn & _). apply Hprot; lia.
Qed.

Lemma read_sim : forall K d s off len, 0 < K -> inv K d -> Rel K d s -> off + len <= nblk d * K ->
  let '(x, d1) := read_at K d off len in
  x = firstn len (skipn off (live s)) /\ inv K d1 /\ Rel K d1 s.
Proof.
  intros K d s off len HK I R Hr. pose proof (inv_wf _ _ I) as W.
  pose proof (read_at_spec K d off len HK W Hr) as RS.
  destruct (read_at K d off len) as [x d1]. destruct RS as (-> & M).
  split; [|split; [eapply inv_memo; eauto|eapply memo_rel; eauto]].
  rewrite (r_live _ _ _ R). apply list_eq_nth.
  - rewrite map_length, seq_length, firstn_length, skipn_length, image_length by assumption. lia.
  - intros u Hu. rewrite map_length, seq_length in Hu.
    rewrite nth_map_seq by assumption. rewrite nth_firstn_lt by assumption. rewrite nth_skipn_add.
    rewrite image_nth by (try assumption; lia). reflexivity.
Qed.

Lemma snap_sim : forall K d s name user, inv K d -> Rel K d s ->
  N.eqb name 0 || negb (spos (snaps s) name 1 =? 0) = false ->
  (max_chain <? length (snaps s) + 3) = false ->
  exists d1, snapshot d name user = (d1, ROk) /\ inv K d1 /\
             Rel K d1 (mkspec (live s) (snaps s ++ [mksentry name user false (live s)]) (size s)).
Proof.
  intros K d s name user I R Hfresh Hmax.
  pose proof (inv_wf _ _ I) as W. pose proof (wf_nf _ _ W) as Hnf.
  apply orb_false_iff in Hfresh. destruct Hfresh as [H0 Hp].
  apply N.eqb_neq in H0. apply negb_false_iff in Hp. apply Nat.eqb_eq in Hp.
  rewrite (spos_find K d s name (inv_names _ _ I) R H0) in Hp.
  assert (E : exists d1, snapshot d name user = (d1, ROk)).
  { unfold snapshot. destruct (N.eqb_spec name 0); [contradiction|]. rewrite Hp. cbn [Nat.eqb negb orb].
    rewrite (r_len _ _ _ R) in Hmax. replace (nf d + 2) with (nf d - 1 + 3) by lia. rewrite Hmax. eauto. }
  destruct E as (d1 & E). exists d1. split; [assumption|].
  destruct (snapshot_ok K d name user d1 I E) as (I1 & E1 & E2 & E3 & En & Eu & Er & Hold & Htop & Hhead & _).
  split; [assumption|].
  constructor; cbn [size live snaps].
  - rewrite E2. apply R.
  - rewrite E1, (r_live _ _ _ R). symmetry. apply image_ext2; assumption.
  - rewrite app_length, (r_len _ _ _ R), E1. cbn. lia.
  - intros i e Hi Hn. rewrite E1 in Hi.
    destruct (Nat.eq_dec i (nf d)) as [->|Hne].
    + rewrite nth_error_app2 in Hn by (rewrite (r_len _ _ _ R); lia).
      rewrite (r_len _ _ _ R), Nat.sub_diag in Hn. inversion Hn; subst e.
      unfold entry_ok. cbn [s_name s_user s_removed s_img]. repeat split; try congruence.
      intros _. rewrite (r_live _ _ _ R). symmetry. apply image_ext; [assumption|]. intros b. apply Htop. lia.
    + rewrite nth_error_app1 in Hn by (rewrite (r_len _ _ _ R); lia).
      destruct (r_snaps _ _ _ R i e ltac:(lia) Hn) as (A & B & C & D).
      destruct (Hold i ltac:(lia)) as (F1 & F2 & F3).
      unfold entry_ok. rewrite F1, F2, F3. repeat split; try assumption.
      intros Hret. rewrite (D Hret). symmetry. apply image_ext; [assumption|]. intros b. apply Htop. lia.
Qed.

Lemma mark_sim : forall K d s p, inv K d -> Rel K d s -> 2 <= p -> S p < nf d ->
  inv K (mark d p) /\ Rel K (mark d p) (mkspec (live s) (mark_removed (snaps s) p) (size s)).
Proof.
  intros K d s p I R Hp Hpn. split; [apply mark_inv; [assumption|lia]|].
  assert (Hlt : p - 1 < length (snaps s)) by (rewrite (r_len _ _ _ R); lia).
  constructor; cbn [size live snaps mark nf nblk].
  - apply R.
  - apply R.
  - unfold mark_removed. rewrite app_length, firstn_length.
    destruct (skipn (p - 1) (snaps s)) as [|e r] eqn:Es.
    + exfalso. apply (f_equal (@length _)) in Es. rewrite skipn_length in Es. cbn in Es. lia.
    + cbn [length]. apply (f_equal (@length _)) in Es. rewrite skipn_length in Es. cbn in Es.
      rewrite <- (r_len _ _ _ R). lia.
  - intros i e Hi Hn. unfold mark_removed in Hn.
    destruct (skipn (p - 1) (snaps s)) as [|e0 r0] eqn:Es.
    { exfalso. apply (f_equal (@length _)) in Es. rewrite skipn_length in Es. cbn in Es. lia. }
    assert (He0 : nth_error (snaps s) (p - 1) = Some e0).
    { replace (p - 1) with (p - 1 + 0) by lia. rewrite <- nth_error_skipn_add, Es. reflexivity. }
    destruct (Nat.lt_trichotomy (i - 1) (p - 1)) as [Hlt'|[Heq|Hgt]].
    + rewrite nth_error_app1 in Hn by (rewrite firstn_length; lia). rewrite nth_error_firstn_lt in Hn by lia.
      destruct (r_snaps _ _ _ R i e Hi Hn) as (A & B & C & D).
      unfold entry_ok. cbn [mark nm usr rmd]. rewrite fupd_neq by lia. repeat split; assumption.
    + rewrite nth_error_app2 in Hn by (rewrite firstn_length; lia). rewrite firstn_length in Hn.
      replace (i - 1 - Nat.min (p - 1) (length (snaps s))) with 0 in Hn by lia. inversion Hn; subst e.
      assert (i = p) by lia. subst i.
      destruct (r_snaps _ _ _ R p e0 Hi He0) as (A & B & C & D).
      unfold entry_ok, retained. cbn [mark nm usr rmd s_name s_user s_removed s_img]. rewrite fupd_eq.
      repeat split; try assumption. rewrite andb_false_r. discriminate.
    + rewrite nth_error_app2 in Hn by (rewrite firstn_length; lia). rewrite firstn_length in Hn.
      replace (i - 1 - Nat.min (p - 1) (length (snaps s))) with (S (i - 1 - p)) in Hn by lia. cbn in Hn.
      assert (Hn' : nth_error (snaps s) (i - 1) = Some e).
      { replace (i - 1) with (p - 1 + S (i - 1 - p)) by lia. rewrite <- nth_error_skipn_add, Es. exact Hn. }
      destruct (r_snaps _ _ _ R i e Hi Hn') as (A & B & C & D).
      unfold entry_ok. cbn [mark nm usr rmd]. rewrite fupd_neq by lia. repeat split; assumption.
Qed.

Lemma merged_sim : forall K d s p, inv K d -> Rel K d s -> 2 <= p -> S p < nf d ->
  (usr d (p - 1) = true -> rmd d (p - 1) = true) ->
  inv K (merged d p) /\ Rel K (merged d p) (mkspec (live s) (drop_entry (snaps s) p) (size s)).
Proof.
  intros K d s p I R Hp Hpn Hpar. split; [now apply merged_inv|].
  assert (Enf : nf (merged d p) = nf d - 1) by reflexivity.
  constructor; cbn [size live snaps].
  - apply R.
  - rewrite Enf, (r_live _ _ _ R). symmetry. apply image_ext2; [reflexivity|]. intros b.
    rewrite merged_top_high by lia. replace (S (nf d - 1)) with (nf d) by lia. reflexivity.
  - rewrite Enf. unfold drop_entry. rewrite app_length, firstn_length, skipn_length, (r_len _ _ _ R). lia.
  - intros i e Hi Hn. rewrite Enf in Hi. rewrite nth_error_drop in Hn by lia.
    assert (Hattr : forall k, nm (merged d p) k = (if k <? p then nm d k else nm d (S k)) /\
                              usr (merged d p) k = (if k <? p then usr d k else usr d (S k)) /\
                              rmd (merged d p) k = (if k <? p then rmd d k else rmd d (S k))).
    { intros k. unfold merged, remove_index, coalesce_ix, shift_out. cbn [nm usr rmd set_fl]. auto. }
    destruct (Hattr i) as (F1 & F2 & F3). unfold entry_ok. rewrite F1, F2, F3.
    destruct (Nat.ltb_spec (i - 1) (p - 1)) as [Hlt|Hge].
    + destruct (Nat.ltb_spec i p); [|lia].
      destruct (r_snaps _ _ _ R i e ltac:(lia) Hn) as (A & B & C & D). repeat split; try assumption.
      intros Hret. rewrite (D Hret).
      destruct (Nat.eq_dec i (p - 1)) as [Ei|Nei].
      * (* the merge target is not retained *)
        exfalso. destruct (retained_usr K d i e (conj A (conj B (conj C D))) Hret) as (Hu & Hrm).
        subst i. rewrite (Hpar Hu) in Hrm. discriminate.
      * symmetry. apply image_ext2; [reflexivity|]. intros b. apply merged_top_low; lia.
    + destruct (Nat.ltb_spec i p); [lia|].
      assert (Hn' : nth_error (snaps s) (S i - 1) = Some e) by (replace (S i - 1) with (S (i - 1)) by lia; exact Hn).
      destruct (r_snaps _ _ _ R (S i) e ltac:(lia) Hn') as (A & B & C & D). repeat split; try assumption.
      intros Hret. rewrite (D Hret). symmetry. apply image_ext2; [reflexivity|]. intros b. apply merged_top_high; lia.
Qed.

Lemma nth_error_firstn_some : forall A (l : list A) n k e, nth_error (firstn n l) k = Some e ->
  k < n /\ nth_error l k = Some e.
Proof.
  intros A l n k e H. destruct (Nat.lt_ge_cases k n) as [Hlt|Hge].
  - split; [assumption|]. now rewrite nth_error_firstn_lt in H.
  - exfalso. assert (nth_error (firstn n l) k = None); [|congruence].
    apply nth_error_None. rewrite firstn_length. lia.
Qed.

Lemma reopen_sim : forall K d s pre ch, inv K d -> Rel K d s ->
  let '(d1, hs) := reopen d pre in
  inv K (punched d1 hs ch) /\ Rel K (punched d1 hs ch) s.
Proof.
  intros K d s pre ch I R.
  pose proof (reopen_spec K d pre ch (opened_inv K d I)) as RS.
  destruct (reopen d pre) as [d1 hs].
  destruct RS as (I2 & E1 & E2 & E3 & E4 & E5 & _ & Hk & _).
  split; [assumption|].
  apply (rel_ext K d _ s R); try assumption.
  - intros b. apply Hk. apply opened_keeps_head.
  - intros i b Hi Hu Hr. apply Hk. now apply opened_keeps_user.
Qed.

Lemma revert_sim : forall K d s p e ch, inv K d -> Rel K d s -> 1 <= p < nf d ->
  nth_error (snaps s) (p - 1) = Some e ->
  let '(d1, hs) := reopen (cut d p) true in
  let d2 := punched d1 hs ch in
  inv K d2 /\
  Rel K d2 (mkspec (if retained e then s_img e else image K d2 (nf d2)) (firstn p (snaps s)) (size s)).
Proof.
  intros K d s p e ch I R Hp He.
  pose proof (reopen_spec K (cut d p) true ch (cut_opened_inv K d p I Hp)) as RS.
  destruct (reopen (cut d p) true) as [d1 hs].
  destruct RS as (I2 & E1 & E2 & E3 & E4 & E5 & _ & Hk & _).
  set (d2 := punched d1 hs ch) in *. cbn [cut nf nblk] in E1, E5.
  split; [assumption|].
  constructor; cbn [size live snaps].
  - rewrite E5. apply R.
  - destruct (retained e) eqn:Er; [|reflexivity].
    destruct (r_snaps _ _ _ R p e Hp He) as (_ & _ & _ & D). rewrite (D Er), E1.
    symmetry. apply image_ext2; [assumption|]. intros b.
    rewrite (Hk (S p) b (opened_keeps_head (cut d p))). apply cut_top_head.
  - rewrite firstn_length, (r_len _ _ _ R), E1. lia.
  - intros i e' Hi Hn. rewrite E1 in Hi. apply nth_error_firstn_some in Hn. destruct Hn as (_ & Hn).
    destruct (r_snaps _ _ _ R i e' ltac:(lia) Hn) as (A & B & C & D).
    unfold entry_ok. rewrite E2, E3, E4. cbn [cut nm usr rmd]. rewrite !fupd_neq by lia.
    repeat split; try assumption.
    intros Hret. rewrite (D Hret). symmetry. apply image_ext2; [assumption|]. intros b.
    destruct (retained_usr K d i e' (conj A (conj B (conj C D))) Hret) as (Hu & _).
    rewrite Hk; [apply cut_top; lia|].
    apply opened_keeps_user; cbn [cut nf usr]; [lia|]. rewrite fupd_neq by lia. assumption.
Qed.

Lemma resize_sim : forall K d s nb, inv K d -> Rel K d s -> nblk d <= nb ->
  inv K (grown_dd d nb) /\
  Rel K (grown_dd d nb)
      (mkspec (grow_img K (size s) nb (live s))
              (map (fun e => mksentry (s_name e) (s_user e) (s_removed e) (grow_img K (size s) nb (s_img e))) (snaps s))
              nb).
Proof.
  intros K d s nb I R Hnb. pose proof (inv_wf _ _ I) as W.
  split; [now apply grown_inv|].
  constructor; cbn [size live snaps].
  - reflexivity.
  - unfold grow_img. rewrite (r_size _ _ _ R), (r_live _ _ _ R). symmetry. now apply grown_image.
  - rewrite map_length. apply R.
  - intros i e Hi Hn. cbn [grown_dd nf] in Hi. rewrite nth_error_map in Hn.
    destruct (nth_error (snaps s) (i - 1)) as [e0|] eqn:E0; [|discriminate]. inversion Hn; subst e; clear Hn.
    destruct (r_snaps _ _ _ R i e0 Hi E0) as (A & B & C & D).
    unfold entry_ok, retained. cbn [s_name s_user s_removed s_img grown_dd nm usr rmd].
    repeat split; try assumption.
    intros Hret. unfold grow_img. rewrite (r_size _ _ _ R), (D Hret). symmetry. now apply grown_image.
Qed.

Lemma lun_sim : forall K d s ch, inv K d -> Rel K d s ->
  let '(d1, hs) := update_lun_map d in
  inv K (punched d1 hs ch) /\ Rel K (punched d1 hs ch) s.
Proof.
  intros K d s ch I R.
  pose proof (update_lun_map_spec K d ch I) as US.
  destruct (update_lun_map d) as [d1 hs]. destruct US as (I2 & M & Hk).
  split; [assumption|]. destruct M as (E1&E2&E3&E4&E5&E6&E7&E8).
  apply (rel_ext K d _ s R); try assumption.
  - intros b. apply Hk. left. reflexivity.
  - intros i b Hi Hu Hr. apply Hk. right. split; [lia|]. apply (inv_prot _ _ I i Hi Hu Hr).
Qed.

(** ** the cleaner's choice: membership in the model's candidate list is [s_picked] on the snapshot table *)
Lemma spos_zero : forall K d s, names_ok d -> Rel K d s -> spos (snaps s) 0%N 1 = 0.
Proof.
  intros K d s (_ & Nz & _) R.
  destruct (spos_spec (snaps s) 0%N 1) as [(E & _)|(H1 & (e & He & Hne) & _)]; [assumption|].
  exfalso. set (p := spos (snaps s) 0%N 1) in *. rewrite (r_len _ _ _ R) in H1.
  destruct (r_snaps _ _ _ R p e ltac:(lia) He) as (Hname & _).
  apply (Nz p); [lia|congruence].
Qed.

Lemma s_retained_at_rel : forall K d s k, Rel K d s -> 1 <= k < nf d ->
  s_retained_at (snaps s) k = retained_user d k.
Proof.
  intros K d s k R Hk. unfold s_retained_at, retained_user.
  destruct (nth_error (snaps s) (k - 1)) as [e|] eqn:En.
  - destruct (r_snaps _ _ _ R k e Hk En) as (_ & B & C & _). unfold retained. now rewrite B, C.
  - apply nth_error_None in En. rewrite (r_len _ _ _ R) in En. lia.
Qed.

Lemma checkpoint_below_head : forall d c, names_ok d -> c <> 0%N ->
  find_name d c (nf d) = 0 \/ find_name d c (nf d) < nf d.
Proof.
  intros d c (Nh & _ & _) Nc. destruct (find_name_spec d c (nf d)) as (A & B & _).
  destruct (Nat.eq_dec (find_name d c (nf d)) 0) as [|N0]; [left; assumption|right].
  destruct (Nat.eq_dec (find_name d c (nf d)) (nf d)) as [E|]; [|lia].
  exfalso. apply Nc. rewrite <- (B N0), E. exact Nh.
Qed.

(** a candidate is a middle member, neither it nor its parent is a retained user-created snapshot *)
Lemma picked_index : forall d c victim, names_ok d -> c <> 0%N ->
  In victim (candidates d (Some c)) ->
  let i := find_name d victim (nf d) in
  2 <= i /\ i < find_name d c (nf d) /\ S i < nf d /\ nm d i = victim /\ victim <> 0%N /\
  retained_user d i = false /\ retained_user d (i - 1) = false.
Proof.
  intros d c victim N Nc Hin. cbn zeta.
  apply candidates_in in Hin. destruct Hin as (H3 & k & Hk & Hn & R1 & R2).
  destruct (checkpoint_below_head d c N Nc) as [E|Hlt]; [lia|].
  assert (Hi : find_name d victim (nf d) = k) by (rewrite <- Hn; apply find_name_at; [assumption|lia]).
  rewrite Hi. destruct N as (_ & Nz & _).
  repeat split; try assumption; try lia. rewrite <- Hn. apply Nz. lia.
Qed.

Lemma picked_spec : forall K d s c victim, names_ok d -> Rel K d s -> 1 <= nf d -> c <> 0%N ->
  existsb (N.eqb victim) (candidates d (Some c)) = s_picked s c victim.
Proof.
  intros K d s c victim N R Hnf Nc. apply Bool.eq_iff_eq_true. split.
  - intros H. apply existsb_exists in H. destruct H as (x & Hin & Ex). apply N.eqb_eq in Ex. subst x.
    pose proof (candidates_in d c victim) as CI. apply CI in Hin as Hin'. destruct Hin' as (H3 & _).
    destruct (picked_index d c victim N Nc Hin) as (H2 & Hlt & Hn & Hnm & Hv & R1 & R2).
    destruct (checkpoint_below_head d c N Nc) as [E|Hclt]; [lia|].
    unfold s_picked. rewrite (r_len _ _ _ R).
    rewrite (spos_find K d s victim N R Hv), (spos_find K d s c N R Nc).
    rewrite (s_retained_at_rel K d s _ R) by lia. rewrite (s_retained_at_rel K d s _ R) by lia.
    rewrite R1, R2.
    destruct (Nat.leb_spec 3 (nf d - 1)); [|lia].
    destruct (Nat.leb_spec 2 (find_name d victim (nf d))); [|lia].
    destruct (Nat.ltb_spec (find_name d victim (nf d)) (find_name d c (nf d))); [reflexivity|lia].
  - intros H. unfold s_picked in H. rewrite (r_len _ _ _ R) in H.
    apply andb_true_iff in H. destruct H as (H & Hr2). apply andb_true_iff in H. destruct H as (H & Hr1).
    apply andb_true_iff in H. destruct H as (H & Hlt). apply andb_true_iff in H. destruct H as (H3 & H2).
    apply Nat.leb_le in H3. apply Nat.leb_le in H2. apply Nat.ltb_lt in Hlt.
    apply negb_true_iff in Hr1. apply negb_true_iff in Hr2.
    destruct (N.eq_dec victim 0) as [E0|Hv].
    { exfalso. subst victim. rewrite (spos_zero K d s N R) in H2. lia. }
    rewrite (spos_find K d s victim N R Hv) in *. rewrite (spos_find K d s c N R Nc) in Hlt.
    set (k := find_name d victim (nf d)) in *.
    destruct (find_name_spec d victim (nf d)) as (_ & B & _). fold k in B. specialize (B ltac:(lia)).
    destruct (find_name_spec d c (nf d)) as (A & _ & _).
    rewrite (s_retained_at_rel K d s _ R) in Hr1 by lia. rewrite (s_retained_at_rel K d s _ R) in Hr2 by lia.
    apply existsb_exists. exists victim. split; [|apply N.eqb_refl].
    apply candidates_in. split; [lia|]. exists k. repeat split; try assumption; lia.
Qed.

Lemma drop_mark : forall (l : list sentry) p, 1 <= p -> p - 1 < length l ->
  drop_entry (mark_removed l p) p = drop_entry l p.
Proof.
  intros l p Hp Hlt. unfold drop_entry, mark_removed.
  destruct (skipn (p - 1) l) as [|e0 r0] eqn:Es.
  { exfalso. apply (f_equal (@length _)) in Es. rewrite skipn_length in Es. cbn in Es. lia. }
  assert (Hfl : length (firstn (p - 1) l) = p - 1) by (rewrite firstn_length; lia).
  rewrite firstn_app, Hfl, Nat.sub_diag, firstn_O, app_nil_r, firstn_firstn.
  replace (Nat.min (p - 1) (p - 1)) with (p - 1) by lia. f_equal.
  rewrite skipn_app, Hfl. replace (p - (p - 1)) with 1 by lia. cbn [skipn].
  rewrite skipn_all2 by lia. cbn [app].
  assert (Hs : skipn p l = skipn 1 (skipn (p - 1) l)) by (rewrite skipn_plus; f_equal; lia).
  rewrite Hs, Es. reflexivity.
Qed.

(** ** every operation, against the specification *)
Ltac done4 := split; [try assumption | split; [try assumption | split; [first [reflexivity | assumption | idtac] | cbn [is_read]; intros; try discriminate; auto]]].

Lemma step_sim : forall K d s o ch d1 x s1 r data,
  0 < K -> inv K d -> Rel K d s ->
  step true K d o ch = (d1, x) ->
  spec_step K s o (ores x, image K d1 (nf d1)) = Some (s1, r, data) ->
  inv K d1 /\ Rel K d1 s1 /\ ores x = r /\ (is_read o = true -> odata x = data).
Proof.
  intros K d s o ch d1 x s1 r data HK I R Hstep Hspec.
  pose proof (inv_wf _ _ I) as W. pose proof (wf_nf _ _ W) as Hnf.
  destruct o as [off wdata|off len|name user|name|src dst|name|name|name|pre|pre|pb|nb| |cp|off len fi|cp victim fail|off len];
    cbn [step spec_step snd] in Hstep, Hspec.
  - (* Write *)
    rewrite (r_size _ _ _ R) in Hspec.
    destruct (Nat.ltb_spec (nblk d * K) (off + length wdata)) as [Hout|Hin].
    + inversion Hstep; inversion Hspec; subst. done4.
    + pose proof (write_sim K d s wdata off ch HK I R Hin) as WS.
      destruct (write_at true K d wdata off) as [dw hs]. unfold fin in Hstep.
      inversion Hstep; inversion Hspec; subst. destruct WS as (I1 & R1). rewrite (r_size _ _ _ R) in R1. done4.
  - (* Read *)
    rewrite (r_size _ _ _ R) in Hspec.
    destruct (Nat.ltb_spec (nblk d * K) (off + len)) as [Hout|Hin].
    + inversion Hstep; inversion Hspec; subst. done4.
    + pose proof (read_sim K d s off len HK I R Hin) as RS.
      destruct (read_at K d off len) as [xx d'].
      inversion Hstep; inversion Hspec; subst. destruct RS as (Hx & I1 & R1). done4.
  - (* Snap *)
    destruct (N.eqb name 0 || negb (spos (snaps s) name 1 =? 0)) eqn:Ef; [discriminate|].
    destruct (max_chain <? length (snaps s) + 3) eqn:Em.
    + (* too many members: refused on both sides *)
      inversion Hspec; subst.
      assert (E : snapshot d name user = (d, RErr)).
      { unfold snapshot. apply orb_false_iff in Ef. destruct Ef as [H0 Hp].
        apply N.eqb_neq in H0. apply negb_false_iff in Hp. apply Nat.eqb_eq in Hp.
        rewrite (spos_find K d s1 name (inv_names _ _ I) R H0) in Hp.
        destruct (N.eqb_spec name 0); [contradiction|]. rewrite Hp. cbn [Nat.eqb negb orb].
        rewrite (r_len _ _ _ R) in Em. replace (nf d + 2) with (nf d - 1 + 3) by lia. now rewrite Em. }
      rewrite E in Hstep. inversion Hstep; subst. done4.
    + destruct (snap_sim K d s name user I R Ef Em) as (d' & E & I1 & R1).
      rewrite E in Hstep. inversion Hstep; inversion Hspec; subst. done4.
  - (* PrepRemove *)
    pose proof (classify_spec K d s name (inv_names _ _ I) R Hnf) as CS. cbn zeta in CS.
    destruct (prep_remove_cases d name) as [(E & Hi)|[(E & Hi & Hc)|(H2 & Hn & E)]]; rewrite E in Hstep;
      inversion Hstep; subst; clear Hstep;
      destruct (classify s name) as [| | | |p]; inversion Hspec; subst; clear Hspec;
      try solve [done4]; try lia.
    destruct CS as (-> & _ & _). fold (mark d (find_name d name (nf d))).
    destruct (mark_sim K d s (find_name d name (nf d)) I R H2 Hn) as (I1 & R1). done4.
  - (* Coalesce: outside the specification *)
    discriminate.
  - (* Remove *)
    pose proof (classify_spec K d s name (inv_names _ _ I) R Hnf) as CS. cbn zeta in CS.
    unfold remove, remove_g in Hstep.
    destruct (classify s name) as [| | | |p]; inversion Hspec; subst; clear Hspec.
    + rewrite CS in Hstep. destruct (Nat.eqb_spec (nf d) 0); [lia|]. rewrite Nat.eqb_refl in Hstep.
      inversion Hstep; subst. done4.
    + rewrite CS in Hstep. cbn in Hstep. inversion Hstep; subst. done4.
    + destruct CS as (C1 & C2). destruct (Nat.eqb_spec (find_name d name (nf d)) 0); [contradiction|].
      destruct (Nat.eqb_spec (find_name d name (nf d)) (nf d)); [lia|].
      destruct (Nat.eqb_spec (S (find_name d name (nf d))) (nf d)); [|contradiction].
      inversion Hstep; subst. done4.
  - (* Delete *)
    pose proof (classify_spec K d s name (inv_names _ _ I) R Hnf) as CS. cbn zeta in CS.
    destruct (delete_cases d name) as [(E & Hi)|[(E & Hi & Hc)|(H2 & Hn & E)]]; rewrite E in Hstep;
      inversion Hstep; subst; clear Hstep;
      destruct (classify s name) as [| | | |p]; try solve [inversion Hspec; subst; done4];
      try lia.
    destruct CS as (-> & _ & _). set (p := find_name d name (nf d)) in *.
    destruct (nth_error (snaps s) (p - 2)) as [par|] eqn:Epar; [|discriminate].
    destruct (retained par) eqn:Erp; [discriminate|]. inversion Hspec; subst; clear Hspec.
    destruct (mark_sim K d s p I R H2 Hn) as (Im & Rm).
    assert (Hpar : usr (mark d p) (p - 1) = true -> rmd (mark d p) (p - 1) = true).
    { cbn [mark usr rmd]. rewrite fupd_neq by lia. intros Hu.
      assert (Hn' : nth_error (snaps s) (p - 1 - 1) = Some par) by (replace (p - 1 - 1) with (p - 2) by lia; assumption).
      destruct (r_snaps _ _ _ R (p - 1) par ltac:(lia) Hn') as (_ & B & C & _).
      unfold retained in Erp. rewrite B, C, Hu in Erp. cbn in Erp. apply negb_false_iff in Erp. exact Erp. }
    destruct (merged_sim K (mark d p) _ p Im Rm H2 Hn Hpar) as (I1 & R1). cbn [live snaps size] in R1.
    done4.
    (* marking and then dropping the entry is dropping it *)
    replace (drop_entry (snaps s) p) with (drop_entry (mark_removed (snaps s) p) p); [exact R1|].
    unfold drop_entry, mark_removed.
    assert (Hlt : p - 1 < length (snaps s)) by (rewrite (r_len _ _ _ R); lia).
    destruct (skipn (p - 1) (snaps s)) as [|e0 r0] eqn:Es.
    { exfalso. apply (f_equal (@length _)) in Es. rewrite skipn_length in Es. cbn in Es. lia. }
    assert (Hfl : length (firstn (p - 1) (snaps s)) = p - 1) by (rewrite firstn_length; lia).
    rewrite firstn_app, Hfl, Nat.sub_diag, firstn_O, app_nil_r, firstn_firstn.
    replace (Nat.min (p - 1) (p - 1)) with (p - 1) by lia. f_equal.
    rewrite skipn_app, Hfl. replace (p - (p - 1)) with 1 by lia. cbn [skipn].
    rewrite skipn_all2 by lia. cbn [app].
    assert (Hs : skipn p (snaps s) = skipn 1 (skipn (p - 1) (snaps s))) by (rewrite skipn_plus; f_equal; lia).
    rewrite Hs, Es. reflexivity.
  - (* Revert *)
    pose proof (classify_spec K d s name (inv_names _ _ I) R Hnf) as CS. cbn zeta in CS.
    destruct (revert_cases d name) as [(Hc & E)|(Hi & E)]; rewrite E in Hstep; unfold fin in Hstep; cbn [apply_holes] in Hstep.
    + assert (d1 = d) by (destruct d; inversion Hstep; reflexivity). subst d1.
      assert (Hx : ores x = RErr) by (inversion Hstep; reflexivity).
      destruct (classify s name) as [| | | |p] eqn:Ec;
        try solve [inversion Hspec; subst; done4]; exfalso; lia.
    + set (p := find_name d name (nf d)) in *.
      assert (Hpos : classify s name <> THead /\ classify s name <> TAbsent).
      { destruct (classify s name); split; try discriminate; lia. }
      assert (Hsp : spos (snaps s) name 1 = p).
      { assert (name <> 0%N).
        { intro E0. subst name. destruct (inv_names _ _ I) as (Nh & Nz & _).
          destruct (find_name_spec d 0%N (nf d)) as (_ & B & _). fold p in B. apply (Nz p); [lia|]. apply B. lia. }
        now apply (spos_find K d s name (inv_names _ _ I) R). }
      assert (He : exists e, nth_error (snaps s) (p - 1) = Some e).
      { destruct (nth_error (snaps s) (p - 1)) eqn:En; [eauto|]. apply nth_error_None in En.
        rewrite (r_len _ _ _ R) in En. lia. }
      destruct He as (e & He).
      pose proof (revert_sim K d s p e ch I R Hi He) as RS.
      destruct (reopen (cut d p) true) as [dr hs]. cbn [fst snd] in Hstep.
      inversion Hstep; subst d1 x; clear Hstep. fold (punched dr hs ch) in *.
      rewrite Hsp, He in Hspec.
      destruct (classify s name); try (exfalso; destruct Hpos; congruence);
        inversion Hspec; subst; destruct RS as (I1 & R1); done4.
  - (* Reopen *)
    inversion Hspec; subst; clear Hspec.
    pose proof (reopen_sim K d s1 pre ch I R) as RS. destruct (reopen d pre) as [dr hs].
    unfold fin in Hstep. inversion Hstep; subst. destruct RS. done4.
  - (* Reload *)
    inversion Hspec; subst; clear Hspec.
    assert (R' : Rel K (set_punch d true) s1) by (apply (rel_ext K d _ s1 R); auto).
    pose proof (reopen_sim K (set_punch d true) s1 pre ch (set_punch_inv K d true I) R') as RS.
    destruct (reopen (set_punch d true) pre) as [dr hs].
    unfold fin in Hstep. inversion Hstep; subst. destruct RS. done4.
  - (* SetPunch *)
    inversion Hspec; inversion Hstep; subst. split; [now apply set_punch_inv|].
    split; [apply (rel_ext K d _ s1 R); auto|]. split; [reflexivity|discriminate].
  - (* Resize *)
    rewrite (r_size _ _ _ R) in Hspec.
    destruct (resize_cases d nb) as [(Hlt & E)|(Hge & E)]; rewrite E in Hstep;
      injection Hstep as Hd Hx; subst d1 x.
    + destruct (Nat.ltb_spec nb (nblk d)); [|lia]. injection Hspec as Hs Hr Hdt; subst s1 r data. done4.
    + destruct (Nat.ltb_spec nb (nblk d)); [lia|]. injection Hspec as Hs Hr Hdt; subst s1 r data.
      fold (grown_dd d nb). destruct (resize_sim K d s nb I R Hge) as (I1 & R1).
      rewrite <- (r_size _ _ _ R). done4.
  - (* UpdateLunMap *)
    inversion Hspec; subst; clear Hspec.
    pose proof (lun_sim K d s1 ch I R) as LS. destruct (update_lun_map d) as [dl hs].
    unfold fin in Hstep. inversion Hstep; subst. destruct LS. done4.
  - (* Candidates *)
    destruct cp as [c|]; [destruct (N.eqb c 0); [discriminate|]|]; inversion Hspec; inversion Hstep; subst; done4.
  - (* ReadFault: fails without touching anything but the location table, or returns the image *)
    rewrite (r_size _ _ _ R) in Hspec.
    destruct (Nat.ltb_spec (nblk d * K) (off + len)) as [Hout|Hin].
    + inversion Hstep; inversion Hspec; subst. done4.
    + pose proof (read_at_fault_memo K d off len fi Hnf (wf_loc _ _ W)) as M.
      destruct (read_at_fault K d off len fi) as [failed d']. cbn [snd] in M.
      assert (I' : inv K d') by (eapply inv_memo; eauto).
      assert (R' : Rel K d' s) by (eapply memo_rel; eauto).
      destruct failed; injection Hstep as Hd Hx; subst d1 x; cbn [ores fst] in Hspec;
        injection Hspec as Hs Hr Hdt; subst s1 r data.
      * done4.
      * pose proof (read_sim K d s off len HK I R Hin) as RS.
        destruct (read_at K d off len) as [xx d'']. destruct RS as (Hxx & _). cbn [fst odata]. done4.
  - (* Clean *)
    destruct cp as [c|].
    2: { injection Hspec as Hs Hr Hdt; subst s1 r data. unfold clean in Hstep. cbn in Hstep.
         injection Hstep as Hd Hx; subst d1 x. done4. }
    destruct (N.eqb_spec c 0) as [|Nc]; [discriminate|].
    rewrite <- (picked_spec K d s c victim (inv_names _ _ I) R Hnf Nc) in Hspec.
    destruct (clean_cases d (Some c) victim fail) as [(Ep & E)|(Ep & HC)]; rewrite Ep in Hspec.
    + rewrite E in Hstep. injection Hstep as Hd Hx; subst d1 x. injection Hspec as Hs Hr Hdt; subst s1 r data. done4.
    + apply existsb_exists in Ep. destruct Ep as (v' & Hin & Ev). apply N.eqb_eq in Ev. subst v'.
      destruct (picked_index d c victim (inv_names _ _ I) Nc Hin) as (H2 & Hlt & Hn & Hnm & Hv & R1 & R2).
      destruct HC as [(E & Hc)|(_ & _ & E)]; [exfalso; lia|].
      rewrite (spos_find K d s victim (inv_names _ _ I) R Hv) in Hspec.
      set (p := find_name d victim (nf d)) in *.
      destruct (mark_sim K d s p I R H2 Hn) as (Im & Rm).
      rewrite E in Hstep. destruct fail; injection Hstep as Hd Hx; subst d1 x;
        injection Hspec as Hs Hr Hdt; subst s1 r data.
      * done4.
      * assert (Hpar : usr (mark d p) (p - 1) = true -> rmd (mark d p) (p - 1) = true).
        { cbn [mark usr rmd]. rewrite fupd_neq by lia. intros Hu. unfold retained_user in R2.
          rewrite Hu in R2. cbn in R2. now apply negb_false_iff in R2. }
        destruct (merged_sim K (mark d p) _ p Im Rm H2 Hn Hpar) as (I1 & R1'). cbn [live snaps size] in R1'.
        rewrite drop_mark in R1' by (rewrite ?(r_len _ _ _ R); lia).
        done4.
  - (* Unmap: outside the specification *)
    discriminate.
Qed.

(** whether the specification speaks about an operation does not depend on the hint (the result class of a
    read under an injected fault and the image after a revert to an unpromised snapshot do) *)
Lemma spec_step_hint : forall K s o h1 h2 s1 r data,
  spec_step K s o h1 = Some (s1, r, data) -> exists s1' r' data', spec_step K s o h2 = Some (s1', r', data').
Proof.
  intros K s o h1 h2 s1 r data H.
  destruct o; cbn [spec_step] in *; try (do 3 eexists; exact H).
  - destruct (classify s name); try (do 3 eexists; exact H);
      destruct (nth_error (snaps s) (spos (snaps s) name 1 - 1)); try discriminate;
      inversion H; subst; do 3 eexists; reflexivity.
  - destruct (size s * K <? off + len); [do 3 eexists; reflexivity|].
    destruct (fst h2); do 3 eexists; reflexivity.
Qed.

(** ** induction over histories: the oracles of C01 and C06 hold on every trace of the model *)
Lemma trace_refines : forall K rv h d s, 0 < K -> inv K d -> Rel K d s ->
  spec_oracle K c01_step s (map fst h) (trace true K rv d h) = true /\
  spec_oracle K (fun s1 _ _ _ cur => c06_step s1 cur) s (map fst h) (trace true K rv d h) = true.
Proof.
  intros K rv h. induction h as [|[o ch] h IH]; intros d s HK I R; [split; reflexivity|].
  cbn [map fst trace].
  destruct (step true K d o ch) as [d1 x] eqn:Es.
  destruct (observe K rv d1 x) as [d2 ob] eqn:Eo.
  cbn [spec_oracle].
  destruct (spec_step K s o (o_res ob, o_live ob)) as [[[s1 r] data]|] eqn:Esp; [|split; reflexivity].
  (* the state after the step is well-formed, whatever the hint *)
  destruct (spec_step_hint K s o (o_res ob, o_live ob) (ores x, image K d1 (nf d1)) s1 r data Esp) as (s1' & r' & data' & Esp').
  destruct (step_sim K d s o ch d1 x s1' r' data' HK I R Es Esp') as (I1 & _ & _ & _).
  pose proof (observe_spec K rv d1 x HK I1) as OS. rewrite Eo in OS.
  destruct OS as (M & Ores & Odata & Olive & Osnaps & Orevs).
  rewrite Olive, Ores in Esp.
  destruct (step_sim K d s o ch d1 x s1 r data HK I R Es Esp) as (_ & R1 & Hr & Hd).
  pose proof (inv_memo K d1 d2 M I1) as I2. pose proof (memo_rel K d1 d2 s1 M R1) as R2.
  destruct (IH d2 s1 HK I2 R2) as (IH1 & IH2).
  split; apply andb_true_iff; split; try assumption.
  - unfold c01_step. rewrite Ores, Hr, res_eqb_refl. cbn [andb].
    rewrite Olive, <- (r_live _ _ _ R1), listN_eqb_refl, andb_true_r.
    destruct (is_read o) eqn:Er; [|reflexivity]. rewrite Odata, (Hd eq_refl). apply listN_eqb_refl.
  - apply (c06_step_ok K d1 s1 ob R1 (wf_nf _ _ (inv_wf _ _ I1)) Osnaps Orevs).
Qed.

Theorem block_refines_spec : forall K nb p rv (h : list (op * list bool)), 0 < K ->
  c01_oracle (mkcfg K nb p rv) (map fst h) (trace true K rv (init nb p) h) = true /\
  c06_oracle (mkcfg K nb p rv) (map fst h) (trace true K rv (init nb p) h) = true.
Proof.
  intros K nb p rv h HK. unfold c01_oracle, c06_oracle, spec0. cbn [cK cnb].
  apply trace_refines; [assumption|apply inv_init|apply rel_init].
Qed.
