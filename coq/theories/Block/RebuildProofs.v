(** * Rebuild: the data halves of C07 and C19, proved over ALL schedules of the two-replica model.

    [rebuild_converges]: after any interleaving of block-aligned foreground writes, copies of closed
    files and reclamation on the source, then the destination's Reload and any interleaving of
    (arbitrarily aligned) foreground writes, reclamation on either side and the three phases of
    UpdateLUNMap (the preload in steps of one block), the two replicas have the same live image, the same
    image for every retained user-created snapshot from the sync point upward, automatic snapshots agree
    wherever no newer layer has an extent, the destination's block map is well-formed and a full read
    through it returns the source's image.
    [clone_image]: the same machinery for CloneReplica.
    [rebuild_unaligned_refuted], [rebuild_diverged_refuted]: what happens outside the hypotheses. *)
From Coq Require Import List Arith Bool NArith Lia.
From Jiva Require Import Block.Model Block.Corr Block.Lemmas Block.ProofsWrite Block.ProofsUnit Block.ProofsRead
     Block.ProofsOps Block.ProofsPreload Block.Rebuild Block.RebuildLemmas Block.RebuildCorr.
Import ListNotations.

(** ** the source: a replica in service, its reclamation asynchronous *)
Record sinv (K : nat) (s : dd) (pend : list hole) : Prop := {
  sv_wf : wf K s;
  sv_prot : prot s;
  sv_pend : hs_sound s pend
}.

Lemma sinv_write : forall K s pend data off, 0 < K -> sinv K s pend -> off + length data <= nblk s * K ->
  let '(s1, hs) := write_at true K s data off in sinv K s1 (pend ++ hs) /\ stage K s s1 hs.
Proof.
  intros K s pend data off HK I Hr.
  pose proof (write_at_spec K s data off HK (sv_wf _ _ _ I) Hr) as H.
  destruct (write_at true K s data off) as [s1 hs]. destruct H as (S & _).
  split; [|assumption]. destruct (st_meta _ _ _ _ S) as (E1 & _ & _ & _ & _ & E6 & _).
  constructor.
  - apply S.
  - eapply prot_same_meta; [apply S|apply I].
  - apply hs_sound_app; [|apply S]. eapply hs_sound_mono; eauto; [apply S|apply I].
Qed.

Lemma sinv_hole : forall K s pend k a s1 p1, sinv K s pend -> take_hole s pend k a = (s1, p1) ->
  sinv K s1 p1 /\ same_meta s s1 /\
  (forall b, top (fl s1) (nf s) b = top (fl s) (nf s) b) /\
  (forall J b, J <= snapix s -> top (fl s1) J b = top (fl s) J b) /\
  (forall b, fl s1 (nf s) b = fl s (nf s) b) /\
  (forall j b, fl s1 j b = fl s j b \/ (fl s1 j b = None /\ fl s (nf s) b <> None /\ snapix s < j < nf s)).
Proof.
  intros K s pend k a s1 p1 I H.
  destruct (take_hole_cases _ _ _ _ _ _ H) as [(-> & Hsub)|(h & Hin & -> & Hsub)].
  - split; [|split; [apply same_meta_refl|split; [reflexivity|split; [reflexivity|split; [reflexivity|left; reflexivity]]]]].
    destruct I as [A B C]. constructor; auto. intros f s' l Hx. apply C. now apply Hsub.
  - assert (Hs : hs_sound s [h]).
    { intros f s' l [E|[]]. subst h. now apply (sv_pend _ _ _ I). }
    assert (Hhead : forall b, fl (apply1 s h) (nf s) b = fl s (nf s) b).
    { intros b. destruct h as [[f s'] l]. destruct (apply1_cases s (f, s', l) (nf s) b) as [E|[_ (E & _)]]; [assumption|].
      destruct (Hs f s' l (or_introl eq_refl)) as (A & _). lia. }
    split; [|split; [apply apply1_meta|split; [|split; [|split; [exact Hhead|]]]]].
    + constructor.
      * rewrite apply1_punched. apply punched_wf; [apply I|assumption].
      * eapply prot_same_meta; [apply apply1_meta|apply I].
      * intros f s' l Hx. destruct (sv_pend _ _ _ I f s' l (Hsub _ Hx)) as (A & B).
        cbn [apply1 nf snapix set_fl]. split; [assumption|]. intros b Hb.
        change (apply_hole (fl s) h (nf s) b) with (fl (apply1 s h) (nf s) b). rewrite Hhead. now apply B.
    + intros b. rewrite apply1_punched. now apply punched_live.
    + intros J b HJ. rewrite apply1_punched. now apply punched_protected.
    + intros j b. destruct h as [[f s'] l]. destruct (apply1_cases s (f, s', l) j b) as [E|[E (Ej & Hb)]]; [left; assumption|].
      subst j. right. destruct (Hs f s' l (or_introl eq_refl)) as (A & B). split; [assumption|]. split; [now apply B|assumption].
Qed.

(** ** block-aligned writes: fullWriteAt alone, whatever the block map says *)
Lemma write_at_aligned : forall fx K d data off, off mod K = 0 -> (length data + off) mod K = 0 ->
  write_at fx K d data off =
  if length data =? 0 then (d, []) else full_write fx d (off / K) (chunks K (length data / K) data).
Proof.
  intros fx K d data off A B. unfold write_at. rewrite A, B. cbn [Nat.eqb andb].
  destruct (length data =? 0); reflexivity.
Qed.

Lemma full_write_head : forall fx d s bl b,
  fl (fst (full_write fx d s bl)) (nf d) b = write_blocks (fl d (nf d)) s bl b.
Proof. intros. unfold full_write. cbn [fst fl set_loc set_fl]. now rewrite fupd_eq. Qed.

Lemma write_blocks_ext : forall bl f g s x, f x = g x -> write_blocks f s bl x = write_blocks g s bl x.
Proof. intros bl f g s x H. rewrite !write_blocks_spec. destruct (in_range s (length bl) x); auto. Qed.

Lemma own_view_head : forall c d b, 1 <= nf d ->
  fl (own_view c true d) (nf (own_view c true d)) b = fl d (nf d) b.
Proof.
  intros c d b Hnf. cbn [own_view nf fl]. unfold own_fl.
  destruct (Nat.leb_spec (c + 2) c); [lia|]. destruct (Nat.eqb_spec (c + 2) (S c)); [lia|].
  f_equal. lia.
Qed.

(** the destination's head after an aligned write before its Reload *)
Lemma dst_write_pre_aligned : forall K c d data off b, 1 <= nf d -> off mod K = 0 -> (length data + off) mod K = 0 ->
  let d1 := dst_write_pre true K c true d data off in
  nf d1 = nf d /\ nblk d1 = nblk d /\ usr d1 = usr d /\
  (forall j, j <> nf d -> fl d1 j = fl d j) /\
  fl d1 (nf d) b = if length data =? 0 then fl d (nf d) b
                   else write_blocks (fl d (nf d)) (off / K) (chunks K (length data / K) data) b.
Proof.
  intros K c d data off b Hnf A B. unfold dst_write_pre. rewrite (write_at_aligned true K _ data off A B).
  destruct (length data =? 0).
  - cbn [fst nf nblk usr fl]. split; [reflexivity|]. split; [reflexivity|]. split; [reflexivity|]. split.
    + intros j Hj. cbn [fl]. now apply fupd_neq.
    + rewrite fupd_eq. now apply own_view_head.
  - set (v := own_view c true d).
    pose proof (full_write_head true v (off / K) (chunks K (length data / K) data) b) as H.
    destruct (full_write true v (off / K) (chunks K (length data / K) data)) as [v1 hs]. cbn [fst] in H.
    cbn [nf nblk usr fl]. split; [reflexivity|]. split; [reflexivity|]. split; [reflexivity|]. split.
    + intros j Hj. now apply fupd_neq.
    + rewrite fupd_eq, H. apply write_blocks_ext. now apply own_view_head.
Qed.

(** ** rebuild, before the destination's Reload *)
(** file [i] of the destination agrees with the source's at block [b]: equal, or the source has since
    punched it, which it only does under an extent of its head and above its newest user-created snapshot *)
Definition rel (s d : dd) (i b : nat) : Prop :=
  fl d i b = fl s i b \/ (fl s i b = None /\ fl s (nf s) b <> None /\ snapix s < i).

(** the part that is not copied: the images at the sync point agree, unless the source punched there *)
Definition lowrel (c : nat) (s d : dd) (b : nat) : Prop :=
  top (fl d) c b = top (fl s) c b \/ (fl s (nf s) b <> None /\ snapix s < c).

Definition dfiles_ok (K : nat) (d : dd) : Prop :=
  (forall j b, nblk d <= b -> fl d j b = None) /\ (forall j b v, fl d j b = Some v -> length v = K).

Record inv1 (K c : nat) (P : nat -> nat -> Prop) (s : rb) : Prop := {
  i1_src : sinv K (src s) (spend s);
  i1_nf : nf (dst s) = nf (src s);
  i1_nblk : nblk (dst s) = nblk (src s);
  i1_c : c < nf (src s);
  i1_rel0 : reloaded s = false;
  i1_wired : wired s = true;
  i1_dpend : dpend s = [];
  i1_head : forall b, fl (dst s) (nf (src s)) b = fl (src s) (nf (src s)) b;
  i1_usr : forall J, usr (dst s) J = usr (src s) J;
  i1_files : dfiles_ok K (dst s);
  i1_rel : forall i b, c < i < nf (src s) -> P i b -> rel (src s) (dst s) i b;
  i1_low : forall b, lowrel c (src s) (dst s) b
}.

Lemma inv1_mono : forall K c (P Q : nat -> nat -> Prop) s, inv1 K c P s ->
  (forall i b, c < i < nf (src s) -> Q i b -> P i b) -> inv1 K c Q s.
Proof. intros K c P Q s I H. destruct I. constructor; auto. Qed.

(** what may happen before the Reload: foreground writes ALIGNED TO THE 4 KiB BLOCK, copies of closed
    files above the sync point, reclamation on the source *)
Definition pre_ev (K c : nat) (e : ev) : Prop :=
  match e with
  | BothWrite off data => off mod K = 0 /\ (length data + off) mod K = 0
  | Copy i _ => c < i
  | SrcHole _ _ => True
  | _ => False
  end.

Definition copied (e : ev) (i b : nat) : Prop :=
  match e with Copy i' bs => i = i' /\ In b bs | _ => False end.

Lemma existsb_eqb_in : forall b bs, existsb (Nat.eqb b) bs = true <-> In b bs.
Proof.
  intros b bs. rewrite existsb_exists. split.
  - intros (x & Hx & E). apply Nat.eqb_eq in E. now subst.
  - intros H. exists b. split; [assumption|apply Nat.eqb_refl].
Qed.

(** a foreground write aligned to the block, before the Reload *)
Lemma inv1_write : forall K c P s off data, 0 < K -> inv1 K c P s ->
  off mod K = 0 -> (length data + off) mod K = 0 -> inv1 K c P (step true K s (BothWrite off data)).
Proof.
  intros K c P s off data HK I A B. cbn [step].
  destruct (Nat.ltb_spec (nblk (src s) * K) (off + length data)) as [Hout|Hin]; [exact I|].
  rewrite (i1_rel0 _ _ _ _ I), (i1_wired _ _ _ _ I). unfold src_write.
  pose proof (sinv_write K (src s) (spend s) data off HK (i1_src _ _ _ _ I) Hin) as HS.
  pose proof (full_write_head true (src s) (off / K) (chunks K (length data / K) data)) as HH.
  rewrite (write_at_aligned true K (src s) data off A B) in *.
  pose proof (wf_nf _ _ (sv_wf _ _ _ (i1_src _ _ _ _ I))) as Hnf.
  assert (Hnfd : 1 <= nf (dst s)) by (rewrite (i1_nf _ _ _ _ I); exact Hnf).
  pose proof (fun b => dst_write_pre_aligned K (lowc s) (dst s) data off b Hnfd A B) as Hd.
  cbv zeta in Hd. set (d1 := dst_write_pre true K (lowc s) true (dst s) data off) in *.
  destruct (Hd 0) as (E1 & E2 & E3 & E4 & _).
  assert (Hs1 : exists s1 hs, (if length data =? 0 then (src s, []) else full_write true (src s) (off / K) (chunks K (length data / K) data)) = (s1, hs)
                /\ forall b, fl d1 (nf (src s)) b = fl s1 (nf (src s)) b).
  { destruct (length data =? 0) eqn:El.
    - exists (src s), []. split; [reflexivity|]. intros b. destruct (Hd b) as (_ & _ & _ & _ & E5).
      rewrite <- (i1_nf _ _ _ _ I), E5, (i1_nf _ _ _ _ I). apply (i1_head _ _ _ _ I).
    - destruct (full_write true (src s) (off / K) (chunks K (length data / K) data)) as [s1 hs] eqn:Efw.
      exists s1, hs. split; [reflexivity|]. intros b. cbn [fst] in HH. destruct (Hd b) as (_ & _ & _ & _ & E5).
      rewrite <- (i1_nf _ _ _ _ I) at 1. rewrite E5, HH. apply write_blocks_ext.
      rewrite (i1_nf _ _ _ _ I). apply (i1_head _ _ _ _ I). }
  destruct Hs1 as (s1 & hs & Es & Hheads). rewrite Es in *. destruct HS as (I1 & S).
  destruct (st_meta _ _ _ _ S) as (M1 & M2 & M3 & M4 & M5 & M6 & M7 & M8).
  pose proof (sv_wf _ _ _ I1) as W1.
  destruct I as [I_src I_nf I_nblk I_c I_rel0 I_wired I_dpend I_head I_usr I_files I_rel I_low].
  constructor; cbn [set_src set_dst src dst spend dpend lowc wired reloaded uph drev].
  - exact I1.
  - congruence.
  - congruence.
  - congruence.
  - assumption.
  - assumption.
  - assumption.
  - rewrite M1. exact Hheads.
  - intros J. rewrite E3, M3. apply I_usr.
  - destruct I_files as (F1 & F2). split.
    + intros j b Hb. rewrite E2 in Hb. destruct (Nat.eq_dec j (nf (dst s))) as [->|N].
      * rewrite I_nf, Hheads. apply (wf_ext _ _ W1). lia.
      * rewrite (E4 j N). now apply F1.
    + intros j b v. destruct (Nat.eq_dec j (nf (dst s))) as [->|N].
      * rewrite I_nf, Hheads. apply (wf_len _ _ W1).
      * rewrite (E4 j N). apply F2.
  - intros i b Hi Hp. rewrite M1 in Hi. unfold rel. rewrite (E4 i) by lia. rewrite M1, M6.
    rewrite (st_other _ _ _ _ S i b) by lia.
    destruct (I_rel i b Hi Hp) as [L|(R1 & R2 & R3)]; [left; assumption|right].
    split; [assumption|]. split; [now apply (st_head _ _ _ _ S)|assumption].
  - intros b. unfold lowrel. rewrite M1, M6.
    rewrite (top_ext (fl d1) (fl (dst s)) c b) by (intros j Hj; rewrite (E4 j) by lia; reflexivity).
    rewrite (top_ext (fl s1) (fl (src s)) c b) by (intros j Hj; apply (st_other _ _ _ _ S); lia).
    destruct (I_low b) as [L|(R1 & R2)]; [left; assumption|right]. split; [now apply (st_head _ _ _ _ S)|assumption].
Qed.

Lemma inv1_copy : forall K c P s i bs, inv1 K c P s -> c < i ->
  inv1 K c (fun i' b => P i' b \/ (i' = i /\ In b bs)) (step true K s (Copy i bs)).
Proof.
  intros K c P s i bs I Hci. cbn [step]. rewrite (i1_rel0 _ _ _ _ I). cbn [orb].
  destruct ((1 <=? i) && (i <? nf (dst s))) eqn:Eg; cbn [negb].
  - apply andb_true_iff in Eg. destruct Eg as [G1 G2]. apply Nat.leb_le in G1. apply Nat.ltb_lt in G2.
    destruct I as [I_src I_nf I_nblk I_c I_rel0 I_wired I_dpend I_head I_usr I_files I_rel I_low].
    pose proof (sv_wf _ _ _ I_src) as W.
    constructor; cbn [set_dst copy_file src dst spend dpend lowc wired reloaded uph drev nf nblk fl usr]; auto.
    + intros b. rewrite fupd_neq by lia. apply I_head.
    + intros J. destruct (fupd_cases _ (usr (dst s)) i (usr (src s) i) J) as [(-> & E)|(N & E)]; rewrite E; auto.
    + destruct I_files as (F1 & F2). split; cbn [set_dst copy_file src dst nf nblk fl].
      * intros j b Hb. destruct (fupd_cases _ (fl (dst s)) i (copy_blocks (fl (src s) i) (fl (dst s) i) bs) j) as [(-> & E)|(N & E)]; rewrite E.
        -- unfold copy_blocks. destruct (existsb (Nat.eqb b) bs); [apply (wf_ext _ _ W); lia|now apply F1].
        -- now apply F1.
      * intros j b v. destruct (fupd_cases _ (fl (dst s)) i (copy_blocks (fl (src s) i) (fl (dst s) i) bs) j) as [(-> & E)|(N & E)]; rewrite E.
        -- unfold copy_blocks. destruct (existsb (Nat.eqb b) bs); [apply (wf_len _ _ W)|apply F2].
        -- apply F2.
    + intros i' b Hi HP. unfold rel. cbn [set_dst copy_file src dst nf nblk fl].
      destruct (fupd_cases _ (fl (dst s)) i (copy_blocks (fl (src s) i) (fl (dst s) i) bs) i') as [(-> & E)|(N & E)]; rewrite E.
      * unfold copy_blocks. destruct (existsb (Nat.eqb b) bs) eqn:Ex; [left; reflexivity|].
        destruct HP as [Hp|(_ & Hb)]; [now apply I_rel|].
        apply existsb_eqb_in in Hb. congruence.
      * destruct HP as [Hp|(Ei & _)]; [now apply I_rel|contradiction].
    + intros b. unfold lowrel. cbn [set_dst copy_file src dst nf nblk fl].
      rewrite (top_ext _ (fl (dst s)) c b); [apply I_low|]. intros j Hj. rewrite fupd_neq by lia. reflexivity.
  - apply (inv1_mono K c P); [exact I|]. intros i' b Hi [Hp|(-> & _)]; [assumption|].
    apply andb_false_iff in Eg. rewrite (i1_nf _ _ _ _ I) in Eg.
    destruct Eg as [G|G]; [apply Nat.leb_gt in G|apply Nat.ltb_ge in G]; lia.
Qed.

Lemma inv1_srchole : forall K c P s k a, inv1 K c P s -> inv1 K c P (step true K s (SrcHole k a)).
Proof.
  intros K c P s k a I. cbn [step]. destruct (take_hole (src s) (spend s) k a) as [s1 p1] eqn:Et.
  destruct (sinv_hole K _ _ _ _ _ _ (i1_src _ _ _ _ I) Et) as (I1 & M & Hlive & Hprot & Hhead & Hcases).
  destruct M as (M1 & M2 & M3 & M4 & M5 & M6 & M7 & M8).
  destruct I as [I_src I_nf I_nblk I_c I_rel0 I_wired I_dpend I_head I_usr I_files I_rel I_low].
  constructor; cbn [set_src src dst spend dpend lowc wired reloaded uph drev];
    [exact I1|congruence|congruence|congruence|assumption|assumption|assumption| | |assumption| | ].
  - intros b. rewrite M1, Hhead. apply I_head.
  - intros J. rewrite M3. apply I_usr.
  - intros i b Hi Hp. rewrite M1 in Hi. unfold rel. rewrite M1, M6, Hhead.
    destruct (Hcases i b) as [E|(E1 & E2 & E3)].
    + rewrite E. now apply I_rel.
    + right. split; [assumption|]. split; [assumption|lia].
  - intros b. unfold lowrel. rewrite M1, M6, Hhead.
    destruct (I_low b) as [L|R]; [|right; exact R].
    destruct (fl (src s) (nf (src s)) b) as [v|] eqn:Eh.
    + destruct (Nat.lt_ge_cases (snapix (src s)) c) as [Hlt|Hge]; [right; split; [discriminate|assumption]|].
      left. rewrite L. symmetry. apply Hprot. lia.
    + left. rewrite L. symmetry. apply top_ext. intros j Hj.
      destruct (Hcases j b) as [E|(_ & E2 & _)]; [assumption|congruence].
Qed.

Lemma inv1_step : forall K c P s e, 0 < K -> inv1 K c P s -> pre_ev K c e ->
  inv1 K c (fun i b => P i b \/ copied e i b) (step true K s e).
Proof.
  intros K c P s e HK I He.
  destruct e as [off data|off data|i bs|k a|k a|rev| | | |]; cbn [pre_ev] in He; try contradiction.
  - destruct He as (A & B). apply (inv1_mono K c P); [now apply inv1_write|]. intros i b _ [Hp|[]]. exact Hp.
  - now apply inv1_copy.
  - apply (inv1_mono K c P); [now apply inv1_srchole|]. intros i b _ [Hp|[]]. exact Hp.
Qed.
