(** * Rebuild: the data halves of C07 and C19, proved over ALL schedules of the two-replica model.

    [rebuild_converges]: after any interleaving of block-aligned foreground writes, copies of closed
    files and reclamation on the source, then the destination's Reload and any interleaving of
    (arbitrarily aligned) foreground writes, reclamation on either side and the three phases of
    UpdateLUNMap (the preload in steps of one block), the two replicas have the same live image, the same
    image for every retained user-created snapshot from the sync point upward, automatic snapshots agree
    wherever no newer layer has an extent, the destination's block map is well-formed and a full read
    through it returns the source's image.
    [clone_image]: the same machinery for CloneReplica.
    [rebuild_unaligned_refuted], [rebuild_diverged_refuted]: what happens outside the hypotheses. *)
From Coq Require Import List Arith Bool NArith Lia.
From Jiva Require Import Block.Model Block.Corr Block.Lemmas Block.ProofsWrite Block.ProofsUnit Block.ProofsRead
     Block.ProofsOps Block.ProofsPreload Block.Refine Block.Proofs Block.Rebuild Block.RebuildLemmas Block.RebuildCorr.
Import ListNotations.

(** ** the source: a replica in service, its reclamation asynchronous *)
Record sinv (K : nat) (s : dd) (pend : list hole) : Prop := {
  sv_wf : wf K s;
  sv_prot : prot s;
  sv_pend : hs_sound s pend
}.

Lemma sinv_write : forall K s pend data off, 0 < K -> sinv K s pend -> off + length data <= nblk s * K ->
  let '(s1, hs) := write_at true K s data off in sinv K s1 (pend ++ hs) /\ stage K s s1 hs.
Proof.
  intros K s pend data off HK I Hr.
  pose proof (write_at_spec K s data off HK (sv_wf _ _ _ I) Hr) as H.
  destruct (write_at true K s data off) as [s1 hs]. destruct H as (S & _).
  split; [|assumption]. destruct (st_meta _ _ _ _ S) as (E1 & _ & _ & _ & _ & E6 & _).
  constructor.
  - apply S.
  - eapply prot_same_meta; [apply S|apply I].
  - apply hs_sound_app; [|apply S]. eapply hs_sound_mono; eauto; [apply S|apply I].
Qed.

Lemma sinv_hole : forall K s pend k a s1 p1, sinv K s pend -> take_hole s pend k a = (s1, p1) ->
  sinv K s1 p1 /\ same_meta s s1 /\
  (forall b, top (fl s1) (nf s) b = top (fl s) (nf s) b) /\
  (forall J b, J <= snapix s -> top (fl s1) J b = top (fl s) J b) /\
  (forall b, fl s1 (nf s) b = fl s (nf s) b) /\
  (forall j b, fl s1 j b = fl s j b \/ (fl s1 j b = None /\ fl s (nf s) b <> None /\ snapix s < j < nf s)).
Proof.
  intros K s pend k a s1 p1 I H.
  destruct (take_hole_cases _ _ _ _ _ _ H) as [(-> & Hsub)|(h & Hin & -> & Hsub)].
  - split; [|split; [apply same_meta_refl|split; [reflexivity|split; [reflexivity|split; [reflexivity|left; reflexivity]]]]].
    destruct I as [A B C]. constructor; auto. intros f s' l Hx. apply C. now apply Hsub.
  - assert (Hs : hs_sound s [h]).
    { intros f s' l [E|[]]. subst h. now apply (sv_pend _ _ _ I). }
    assert (Hhead : forall b, fl (apply1 s h) (nf s) b = fl s (nf s) b).
    { intros b. destruct h as [[f s'] l]. destruct (apply1_cases s (f, s', l) (nf s) b) as [E|[_ (E & _)]]; [assumption|].
      destruct (Hs f s' l (or_introl eq_refl)) as (A & _). lia. }
    split; [|split; [apply apply1_meta|split; [|split; [|split; [exact Hhead|]]]]].
    + constructor.
      * rewrite apply1_punched. apply punched_wf; [apply I|assumption].
      * eapply prot_same_meta; [apply apply1_meta|apply I].
      * intros f s' l Hx. destruct (sv_pend _ _ _ I f s' l (Hsub _ Hx)) as (A & B).
        cbn [apply1 nf snapix set_fl]. split; [assumption|]. intros b Hb.
        change (apply_hole (fl s) h (nf s) b) with (fl (apply1 s h) (nf s) b). rewrite Hhead. now apply B.
    + intros b. rewrite apply1_punched. now apply punched_live.
    + intros J b HJ. rewrite apply1_punched. now apply punched_protected.
    + intros j b. destruct h as [[f s'] l]. destruct (apply1_cases s (f, s', l) j b) as [E|[E (Ej & Hb)]]; [left; assumption|].
      subst j. right. destruct (Hs f s' l (or_introl eq_refl)) as (A & B). split; [assumption|]. split; [now apply B|assumption].
Qed.

(** ** block-aligned writes: fullWriteAt alone, whatever the block map says *)
Lemma write_at_aligned : forall fx K d data off, off mod K = 0 -> (length data + off) mod K = 0 ->
  write_at fx K d data off =
  if length data =? 0 then (d, []) else full_write fx d (off / K) (chunks K (length data / K) data).
Proof.
  intros fx K d data off A B. unfold write_at. rewrite A, B. cbn [Nat.eqb andb].
  destruct (length data =? 0); reflexivity.
Qed.

Lemma full_write_head : forall fx d s bl b,
  fl (fst (full_write fx d s bl)) (nf d) b = write_blocks (fl d (nf d)) s bl b.
Proof. intros. unfold full_write. cbn [fst fl set_loc set_fl]. now rewrite fupd_eq. Qed.

Lemma write_blocks_ext : forall bl f g s x, f x = g x -> write_blocks f s bl x = write_blocks g s bl x.
Proof. intros bl f g s x H. rewrite !write_blocks_spec. destruct (in_range s (length bl) x); auto. Qed.

Lemma own_view_head : forall c d b, 1 <= nf d ->
  fl (own_view c true d) (nf (own_view c true d)) b = fl d (nf d) b.
Proof.
  intros c d b Hnf. cbn [own_view nf fl]. unfold own_fl.
  destruct (Nat.leb_spec (c + 2) c); [lia|]. destruct (Nat.eqb_spec (c + 2) (S c)); [lia|].
  f_equal. lia.
Qed.

(** the destination's head after an aligned write before its Reload *)
Lemma dst_write_pre_aligned : forall K c d data off b, 1 <= nf d -> off mod K = 0 -> (length data + off) mod K = 0 ->
  let d1 := dst_write_pre true K c true d data off in
  nf d1 = nf d /\ nblk d1 = nblk d /\ usr d1 = usr d /\
  (forall j, j <> nf d -> fl d1 j = fl d j) /\
  fl d1 (nf d) b = if length data =? 0 then fl d (nf d) b
                   else write_blocks (fl d (nf d)) (off / K) (chunks K (length data / K) data) b.
Proof.
  intros K c d data off b Hnf A B. unfold dst_write_pre. rewrite (write_at_aligned true K _ data off A B).
  destruct (length data =? 0).
  - cbn [fst nf nblk usr fl]. split; [reflexivity|]. split; [reflexivity|]. split; [reflexivity|]. split.
    + intros j Hj. cbn [fl]. now apply fupd_neq.
    + rewrite fupd_eq. now apply own_view_head.
  - set (v := own_view c true d).
    pose proof (full_write_head true v (off / K) (chunks K (length data / K) data) b) as H.
    destruct (full_write true v (off / K) (chunks K (length data / K) data)) as [v1 hs]. cbn [fst] in H.
    cbn [nf nblk usr fl]. split; [reflexivity|]. split; [reflexivity|]. split; [reflexivity|]. split.
    + intros j Hj. now apply fupd_neq.
    + rewrite fupd_eq, H. apply write_blocks_ext. now apply own_view_head.
Qed.

(** ** rebuild, before the destination's Reload *)
(** file [i] of the destination agrees with the source's at block [b]: equal, or the source has since
    punched it, which it only does under an extent of its head and above its newest user-created snapshot *)
Definition rel (s d : dd) (i b : nat) : Prop :=
  fl d i b = fl s i b \/ (fl s i b = None /\ fl s (nf s) b <> None /\ snapix s < i).

(** the part that is not copied: the images at the sync point agree, unless the source punched there *)
Definition lowrel (c : nat) (s d : dd) (b : nat) : Prop :=
  top (fl d) c b = top (fl s) c b \/ (fl s (nf s) b <> None /\ snapix s < c).

Definition dfiles_ok (K : nat) (d : dd) : Prop :=
  (forall j b, nblk d <= b -> fl d j b = None) /\ (forall j b v, fl d j b = Some v -> length v = K).

Record inv1 (K c : nat) (P : nat -> nat -> Prop) (s : rb) : Prop := {
  i1_src : sinv K (src s) (spend s);
  i1_nf : nf (dst s) = nf (src s);
  i1_nblk : nblk (dst s) = nblk (src s);
  i1_c : c < nf (src s);
  i1_rel0 : reloaded s = false;
  i1_wired : wired s = true;
  i1_dpend : dpend s = [];
  i1_head : forall b, fl (dst s) (nf (src s)) b = fl (src s) (nf (src s)) b;
  i1_usr : forall J, usr (dst s) J = usr (src s) J;
  i1_files : dfiles_ok K (dst s);
  i1_rel : forall i b, c < i < nf (src s) -> P i b -> rel (src s) (dst s) i b;
  i1_low : forall b, lowrel c (src s) (dst s) b
}.

Lemma inv1_mono : forall K c (P Q : nat -> nat -> Prop) s, inv1 K c P s ->
  (forall i b, c < i < nf (src s) -> Q i b -> P i b) -> inv1 K c Q s.
Proof. intros K c P Q s I H. destruct I. constructor; auto. Qed.

(** what may happen before the Reload: foreground writes ALIGNED TO THE 4 KiB BLOCK, copies of closed
    files above the sync point, reclamation on the source *)
Definition pre_ev (K c : nat) (e : ev) : Prop :=
  match e with
  | BothWrite off data => off mod K = 0 /\ (length data + off) mod K = 0
  | Copy i _ => c < i
  | SrcHole _ _ => True
  | _ => False
  end.

Definition copied (e : ev) (i b : nat) : Prop :=
  match e with Copy i' bs => i = i' /\ In b bs | _ => False end.

Lemma existsb_eqb_in : forall b bs, existsb (Nat.eqb b) bs = true <-> In b bs.
Proof.
  intros b bs. rewrite existsb_exists. split.
  - intros (x & Hx & E). apply Nat.eqb_eq in E. now subst.
  - intros H. exists b. split; [assumption|apply Nat.eqb_refl].
Qed.

(** a foreground write aligned to the block, before the Reload *)
Lemma inv1_write : forall K c P s off data, 0 < K -> inv1 K c P s ->
  off mod K = 0 -> (length data + off) mod K = 0 -> inv1 K c P (step true K s (BothWrite off data)).
Proof.
  intros K c P s off data HK I A B. cbn [step].
  destruct (Nat.ltb_spec (nblk (src s) * K) (off + length data)) as [Hout|Hin]; [exact I|].
  rewrite (i1_rel0 _ _ _ _ I), (i1_wired _ _ _ _ I). unfold src_write.
  pose proof (sinv_write K (src s) (spend s) data off HK (i1_src _ _ _ _ I) Hin) as HS.
  pose proof (full_write_head true (src s) (off / K) (chunks K (length data / K) data)) as HH.
  rewrite (write_at_aligned true K (src s) data off A B) in *.
  pose proof (wf_nf _ _ (sv_wf _ _ _ (i1_src _ _ _ _ I))) as Hnf.
  assert (Hnfd : 1 <= nf (dst s)) by (rewrite (i1_nf _ _ _ _ I); exact Hnf).
  pose proof (fun b => dst_write_pre_aligned K (lowc s) (dst s) data off b Hnfd A B) as Hd.
  cbv zeta in Hd. set (d1 := dst_write_pre true K (lowc s) true (dst s) data off) in *.
  destruct (Hd 0) as (E1 & E2 & E3 & E4 & _).
  assert (Hs1 : exists s1 hs, (if length data =? 0 then (src s, []) else full_write true (src s) (off / K) (chunks K (length data / K) data)) = (s1, hs)
                /\ forall b, fl d1 (nf (src s)) b = fl s1 (nf (src s)) b).
  { destruct (length data =? 0) eqn:El.
    - exists (src s), []. split; [reflexivity|]. intros b. destruct (Hd b) as (_ & _ & _ & _ & E5).
      rewrite <- (i1_nf _ _ _ _ I), E5, (i1_nf _ _ _ _ I). apply (i1_head _ _ _ _ I).
    - destruct (full_write true (src s) (off / K) (chunks K (length data / K) data)) as [s1 hs] eqn:Efw.
      exists s1, hs. split; [reflexivity|]. intros b. cbn [fst] in HH. destruct (Hd b) as (_ & _ & _ & _ & E5).
      rewrite <- (i1_nf _ _ _ _ I) at 1. rewrite E5, HH. apply write_blocks_ext.
      rewrite (i1_nf _ _ _ _ I). apply (i1_head _ _ _ _ I). }
  destruct Hs1 as (s1 & hs & Es & Hheads). rewrite Es in *. destruct HS as (I1 & S).
  destruct (st_meta _ _ _ _ S) as (M1 & M2 & M3 & M4 & M5 & M6 & M7 & M8).
  pose proof (sv_wf _ _ _ I1) as W1.
  destruct I as [I_src I_nf I_nblk I_c I_rel0 I_wired I_dpend I_head I_usr I_files I_rel I_low].
  constructor; cbn [set_src set_dst src dst spend dpend lowc wired reloaded uph drev].
  - exact I1.
  - congruence.
  - congruence.
  - congruence.
  - assumption.
  - assumption.
  - assumption.
  - rewrite M1. exact Hheads.
  - intros J. rewrite E3, M3. apply I_usr.
  - destruct I_files as (F1 & F2). split.
    + intros j b Hb. rewrite E2 in Hb. destruct (Nat.eq_dec j (nf (dst s))) as [->|N].
      * rewrite I_nf, Hheads. apply (wf_ext _ _ W1). lia.
      * rewrite (E4 j N). now apply F1.
    + intros j b v. destruct (Nat.eq_dec j (nf (dst s))) as [->|N].
      * rewrite I_nf, Hheads. apply (wf_len _ _ W1).
      * rewrite (E4 j N). apply F2.
  - intros i b Hi Hp. rewrite M1 in Hi. unfold rel. rewrite (E4 i) by lia. rewrite M1, M6.
    rewrite (st_other _ _ _ _ S i b) by lia.
    destruct (I_rel i b Hi Hp) as [L|(R1 & R2 & R3)]; [left; assumption|right].
    split; [assumption|]. split; [now apply (st_head _ _ _ _ S)|assumption].
  - intros b. unfold lowrel. rewrite M1, M6.
    rewrite (top_ext (fl d1) (fl (dst s)) c b) by (intros j Hj; rewrite (E4 j) by lia; reflexivity).
    rewrite (top_ext (fl s1) (fl (src s)) c b) by (intros j Hj; apply (st_other _ _ _ _ S); lia).
    destruct (I_low b) as [L|(R1 & R2)]; [left; assumption|right]. split; [now apply (st_head _ _ _ _ S)|assumption].
Qed.

Lemma inv1_copy : forall K c P s i bs, inv1 K c P s -> c < i ->
  inv1 K c (fun i' b => P i' b \/ (i' = i /\ In b bs)) (step true K s (Copy i bs)).
Proof.
  intros K c P s i bs I Hci. cbn [step]. rewrite (i1_rel0 _ _ _ _ I). cbn [orb].
  destruct ((1 <=? i) && (i <? nf (dst s))) eqn:Eg; cbn [negb].
  - apply andb_true_iff in Eg. destruct Eg as [G1 G2]. apply Nat.leb_le in G1. apply Nat.ltb_lt in G2.
    destruct I as [I_src I_nf I_nblk I_c I_rel0 I_wired I_dpend I_head I_usr I_files I_rel I_low].
    pose proof (sv_wf _ _ _ I_src) as W.
    constructor; cbn [set_dst copy_file src dst spend dpend lowc wired reloaded uph drev nf nblk fl usr]; auto.
    + intros b. rewrite fupd_neq by lia. apply I_head.
    + intros J. destruct (fupd_cases _ (usr (dst s)) i (usr (src s) i) J) as [(-> & E)|(N & E)]; rewrite E; auto.
    + destruct I_files as (F1 & F2). split; cbn [set_dst copy_file src dst nf nblk fl].
      * intros j b Hb. destruct (fupd_cases _ (fl (dst s)) i (copy_blocks (fl (src s) i) (fl (dst s) i) bs) j) as [(-> & E)|(N & E)]; rewrite E.
        -- unfold copy_blocks. destruct (existsb (Nat.eqb b) bs); [apply (wf_ext _ _ W); lia|now apply F1].
        -- now apply F1.
      * intros j b v. destruct (fupd_cases _ (fl (dst s)) i (copy_blocks (fl (src s) i) (fl (dst s) i) bs) j) as [(-> & E)|(N & E)]; rewrite E.
        -- unfold copy_blocks. destruct (existsb (Nat.eqb b) bs); [apply (wf_len _ _ W)|apply F2].
        -- apply F2.
    + intros i' b Hi HP. unfold rel. cbn [set_dst copy_file src dst nf nblk fl].
      destruct (fupd_cases _ (fl (dst s)) i (copy_blocks (fl (src s) i) (fl (dst s) i) bs) i') as [(-> & E)|(N & E)]; rewrite E.
      * unfold copy_blocks. destruct (existsb (Nat.eqb b) bs) eqn:Ex; [left; reflexivity|].
        destruct HP as [Hp|(_ & Hb)]; [now apply I_rel|].
        apply existsb_eqb_in in Hb. congruence.
      * destruct HP as [Hp|(Ei & _)]; [now apply I_rel|contradiction].
    + intros b. unfold lowrel. cbn [set_dst copy_file src dst nf nblk fl].
      rewrite (top_ext _ (fl (dst s)) c b); [apply I_low|]. intros j Hj. rewrite fupd_neq by lia. reflexivity.
  - apply (inv1_mono K c P); [exact I|]. intros i' b Hi [Hp|(-> & _)]; [assumption|].
    apply andb_false_iff in Eg. rewrite (i1_nf _ _ _ _ I) in Eg.
    destruct Eg as [G|G]; [apply Nat.leb_gt in G|apply Nat.ltb_ge in G]; lia.
Qed.

Lemma inv1_srchole : forall K c P s k a, inv1 K c P s -> inv1 K c P (step true K s (SrcHole k a)).
Proof.
  intros K c P s k a I. cbn [step]. destruct (take_hole (src s) (spend s) k a) as [s1 p1] eqn:Et.
  destruct (sinv_hole K _ _ _ _ _ _ (i1_src _ _ _ _ I) Et) as (I1 & M & Hlive & Hprot & Hhead & Hcases).
  destruct M as (M1 & M2 & M3 & M4 & M5 & M6 & M7 & M8).
  destruct I as [I_src I_nf I_nblk I_c I_rel0 I_wired I_dpend I_head I_usr I_files I_rel I_low].
  constructor; cbn [set_src src dst spend dpend lowc wired reloaded uph drev];
    [exact I1|congruence|congruence|congruence|assumption|assumption|assumption| | |assumption| | ].
  - intros b. rewrite M1, Hhead. apply I_head.
  - intros J. rewrite M3. apply I_usr.
  - intros i b Hi Hp. rewrite M1 in Hi. unfold rel. rewrite M1, M6, Hhead.
    destruct (Hcases i b) as [E|(E1 & E2 & E3)].
    + rewrite E. now apply I_rel.
    + right. split; [assumption|]. split; [assumption|lia].
  - intros b. unfold lowrel. rewrite M1, M6, Hhead.
    destruct (I_low b) as [L|R]; [|right; exact R].
    destruct (fl (src s) (nf (src s)) b) as [v|] eqn:Eh.
    + destruct (Nat.lt_ge_cases (snapix (src s)) c) as [Hlt|Hge]; [right; split; [discriminate|assumption]|].
      left. rewrite L. symmetry. apply Hprot. lia.
    + left. rewrite L. symmetry. apply top_ext. intros j Hj.
      destruct (Hcases j b) as [E|(_ & E2 & _)]; [assumption|congruence].
Qed.

Lemma inv1_step : forall K c P s e, 0 < K -> inv1 K c P s -> pre_ev K c e ->
  inv1 K c (fun i b => P i b \/ copied e i b) (step true K s e).
Proof.
  intros K c P s e HK I He.
  destruct e as [off data|off data|i bs|k a|k a|rev| | | | |st rv]; cbn [pre_ev] in He; try contradiction.
  - destruct He as (A & B). apply (inv1_mono K c P); [now apply inv1_write|]. intros i b _ [Hp|[]]. exact Hp.
  - now apply inv1_copy.
  - apply (inv1_mono K c P); [now apply inv1_srchole|]. intros i b _ [Hp|[]]. exact Hp.
Qed.

(** ** rebuild, after the destination's Reload *)
Record inv2 (K c : nat) (s : rb) : Prop := {
  i2_src : sinv K (src s) (spend s);
  i2_dst : dinv K (dst s) (dpend s) (uph s);
  i2_nf : nf (dst s) = nf (src s);
  i2_nblk : nblk (dst s) = nblk (src s);
  i2_c : c < nf (src s);
  i2_rel : reloaded s = true;
  i2_head : forall b, fl (dst s) (nf (src s)) b = fl (src s) (nf (src s)) b;
  i2_live : forall b, top (fl (dst s)) (nf (src s)) b = top (fl (src s)) (nf (src s)) b;
  i2_user : forall J b, c <= J < nf (src s) -> usr (src s) J = true -> rmd (src s) J = false ->
                        top (fl (dst s)) J b = top (fl (src s)) J b;
  i2_keep : forall J, c <= J < nf (src s) -> 1 <= J -> usr (src s) J = true -> keeps (dst s) J;
  i2_E : forall i b, c < i < nf (src s) -> fl (dst s) i b <> None ->
                     fl (src s) i b <> None \/ fl (src s) (nf (src s)) b <> None
}.

Definition post_ev (e : ev) : Prop :=
  match e with
  | BothWrite _ _ | SrcHole _ _ | DstHole _ _ | UlmBegin | UlmPre | UlmMerge => True
  | _ => False
  end.

Lemma top_at_head : forall f n b, 1 <= n ->
  top f n b = match f n b with Some v => Some v | None => top f (n - 1) b end.
Proof. intros f n b H. destruct n as [|n]; [lia|]. rewrite top_S. replace (S n - 1) with n by lia. reflexivity. Qed.

(** the Reload, once every block of every closed file above the sync point has been copied *)
Lemma inv1_reload : forall K c P s, inv1 K c P s ->
  (forall i b, c < i < nf (src s) -> b < nblk (src s) -> P i b) ->
  inv2 K c (step true K s DstReload).
Proof.
  intros K c P s I Hall. cbn [step]. rewrite (i1_rel0 _ _ _ _ I), (i1_wired _ _ _ _ I).
  destruct I as [I_src I_nf I_nblk I_c I_rel0 I_wired I_dpend I_head I_usr I_files I_rel I_low].
  pose proof (sv_wf _ _ _ I_src) as W. pose proof (wf_nf _ _ W) as Hnf.
  destruct I_files as (F1 & F2).
  set (d := dst s) in *.
  assert (Ed : dst_reload true d =
               mkdd (nf d) (fl d) (nm d) (usr d) (rmd d) (aligned_ucs d) (last_true (aligned_ucs d) (nf d) 0)
                    (fun _ => 0) (nblk d) true) by reflexivity.
  (* every closed file above the sync point is related, at every block *)
  assert (Hrel : forall i b, c < i < nf (src s) -> rel (src s) d i b).
  { intros i b Hi. destruct (Nat.lt_ge_cases b (nblk (src s))) as [Hb|Hb]; [apply I_rel; auto|].
    left. rewrite (wf_ext _ _ W) by assumption. apply F1. rewrite I_nblk. assumption. }
  assert (Hfiles : forall J b, c <= J < nf (src s) ->
            (fl (src s) (nf (src s)) b = None \/ J <= snapix (src s)) -> top (fl d) J b = top (fl (src s)) J b).
  { intros J b HJ Hcase. apply (top_split _ _ c J b); [lia| |].
    - intros i Hi. destruct (Hrel i b ltac:(lia)) as [E|(_ & E2 & E3)]; [assumption|].
      destruct Hcase as [Hc|Hc]; [congruence|lia].
    - destruct (I_low b) as [L|(R1 & R2)]; [assumption|]. destruct Hcase as [Hc|Hc]; [congruence|lia]. }
  constructor; cbn [src dst spend dpend lowc wired reloaded uph drev]; rewrite ?Ed; cbn [nf fl nblk usr rmd].
  - exact I_src.
  - constructor.
    + constructor; cbn [nf fl loc nblk]; [lia|intros b; left; reflexivity|assumption|assumption].
    + intros k Hk HF. cbn [nf ucs snapix] in *. apply last_true_ge; assumption.
    + rewrite I_dpend. apply pend_cov_nil.
    + rewrite I_dpend. intros f s' l [].
    + exact I.
  - exact I_nf.
  - exact I_nblk.
  - exact I_c.
  - reflexivity.
  - exact I_head.
  - intros b. rewrite (top_at_head (fl d)), (top_at_head (fl (src s))) by lia. rewrite I_head.
    destruct (fl (src s) (nf (src s)) b) as [v|] eqn:Eh; [reflexivity|].
    apply Hfiles; [lia|left; exact Eh].
  - intros J b HJ Hu Hr. destruct (Nat.eq_dec J 0) as [->|N0]; [reflexivity|].
    apply Hfiles; [assumption|right]. apply (sv_prot _ _ _ I_src J); [lia|assumption|assumption].
  - intros J HJ H1 Hu. right. cbn [nf ucs]. split; [lia|]. left. unfold aligned_ucs.
    destruct (Nat.leb_spec 1 J); [|lia]. destruct (Nat.leb_spec J (nf d)); [|lia]. cbn [andb]. rewrite I_usr. exact Hu.
  - intros i b Hi Hext. destruct (Hrel i b Hi) as [E|(_ & E2 & _)]; [left; congruence|right; assumption].
Qed.

Lemma inv2_write : forall K c s off data, 0 < K -> inv2 K c s -> inv2 K c (step true K s (BothWrite off data)).
Proof.
  intros K c s off data HK I. cbn [step].
  destruct (Nat.ltb_spec (nblk (src s) * K) (off + length data)) as [Hout|Hin]; [exact I|].
  rewrite (i2_rel _ _ _ I). unfold src_write.
  destruct I as [I_src I_dst I_nf I_nblk I_c I_rel I_head I_live I_user I_keep I_E].
  pose proof (sinv_write K (src s) (spend s) data off HK I_src Hin) as HS.
  pose proof (dinv_write K (dst s) (dpend s) (uph s) data off HK I_dst ltac:(rewrite I_nblk; exact Hin)) as HD.
  assert (T : twin K (dst s) (src s)).
  { constructor; [apply I_dst|apply I_src|assumption| |]; intros b; rewrite I_nf; auto. }
  pose proof (twin_write_at K (dst s) (src s) data off HK T ltac:(rewrite I_nblk; exact Hin)) as T1.
  destruct (write_at true K (src s) data off) as [s1 hs]. destruct (write_at true K (dst s) data off) as [d1 hd].
  cbn [fst] in T1. destruct HS as (I1 & Ss). destruct HD as (D1 & Sd & _).
  destruct (st_meta _ _ _ _ Ss) as (M1 & M2 & M3 & M4 & M5 & M6 & M7 & M8).
  destruct (st_meta _ _ _ _ Sd) as (N1 & N2 & N3 & N4 & N5 & N6 & N7 & N8).
  constructor; cbn [set_src set_dst src dst spend dpend lowc wired reloaded uph drev];
    [exact I1|exact D1|congruence|congruence|congruence|assumption| | | | | ].
  - intros b. rewrite M1. rewrite <- I_nf at 1. rewrite <- N1. rewrite (tw_head _ _ _ T1). now rewrite M1.
  - intros b. rewrite M1. rewrite <- I_nf at 1. rewrite <- N1. rewrite (tw_top _ _ _ T1). now rewrite M1.
  - intros J b HJ Hu Hr. rewrite M1 in HJ. rewrite M3 in Hu. rewrite M4 in Hr.
    rewrite (top_ext (fl d1) (fl (dst s)) J b) by (intros j Hj; apply (st_other _ _ _ _ Sd); lia).
    rewrite (top_ext (fl s1) (fl (src s)) J b) by (intros j Hj; apply (st_other _ _ _ _ Ss); lia).
    now apply I_user.
  - intros J HJ H1 Hu. rewrite M1 in HJ. rewrite M3 in Hu. apply (keeps_same (dst s) d1 N1 N5). now apply I_keep.
  - intros i b Hi Hext. rewrite M1 in Hi. rewrite M1. rewrite (st_other _ _ _ _ Sd) in Hext by lia.
    rewrite (st_other _ _ _ _ Ss) by lia.
    destruct (I_E i b Hi Hext) as [A|A]; [left; assumption|right; now apply (st_head _ _ _ _ Ss)].
Qed.

Lemma inv2_srchole : forall K c s k a, inv2 K c s -> inv2 K c (step true K s (SrcHole k a)).
Proof.
  intros K c s k a I. cbn [step]. destruct (take_hole (src s) (spend s) k a) as [s1 p1] eqn:Et.
  destruct (sinv_hole K _ _ _ _ _ _ (i2_src _ _ _ I) Et) as (I1 & M & Hlive & Hprot & Hhead & Hcases).
  destruct M as (M1 & M2 & M3 & M4 & M5 & M6 & M7 & M8).
  destruct I as [I_src I_dst I_nf I_nblk I_c I_rel I_head I_live I_user I_keep I_E].
  constructor; cbn [set_src src dst spend dpend lowc wired reloaded uph drev];
    [exact I1|exact I_dst|congruence|congruence|congruence|assumption| | | | | ].
  - intros b. rewrite M1, Hhead. apply I_head.
  - intros b. rewrite M1, Hlive. apply I_live.
  - intros J b HJ Hu Hr. rewrite M1 in HJ. rewrite M3 in Hu. rewrite M4 in Hr.
    destruct (Nat.eq_dec J 0) as [->|N0]; [reflexivity|].
    rewrite Hprot; [now apply I_user|]. apply (sv_prot _ _ _ I_src J); [lia|assumption|assumption].
  - intros J HJ H1 Hu. rewrite M1 in HJ. rewrite M3 in Hu. now apply I_keep.
  - intros i b Hi Hext. rewrite M1 in Hi. rewrite M1, Hhead.
    destruct (I_E i b Hi Hext) as [A|A]; [|right; assumption].
    destruct (Hcases i b) as [E|(_ & E2 & _)]; [left; congruence|right; assumption].
Qed.

Lemma inv2_dsthole : forall K c s k a, inv2 K c s -> inv2 K c (step true K s (DstHole k a)).
Proof.
  intros K c s k a I. cbn [step]. destruct (take_hole (dst s) (dpend s) k a) as [d1 p1] eqn:Et.
  destruct (dinv_hole K _ _ _ _ _ _ _ (i2_dst _ _ _ I) Et) as (D1 & M & _ & Htop & Hhead & Hcases).
  destruct M as (M1 & M2 & M3 & M4 & M5 & M6 & M7 & M8).
  destruct I as [I_src I_dst I_nf I_nblk I_c I_rel I_head I_live I_user I_keep I_E].
  constructor; cbn [set_dst src dst spend dpend lowc wired reloaded uph drev];
    [exact I_src|exact D1|congruence|congruence|assumption|assumption| | | | | ].
  - intros b. rewrite <- I_nf, Hhead, I_nf. apply I_head.
  - intros b. rewrite <- I_nf. rewrite Htop by (left; reflexivity). rewrite I_nf. apply I_live.
  - intros J b HJ Hu Hr. destruct (Nat.eq_dec J 0) as [->|N0]; [reflexivity|].
    rewrite Htop by (apply I_keep; auto; lia). now apply I_user.
  - intros J HJ H1 Hu. apply (keeps_same (dst s) d1 M1 M5). now apply I_keep.
  - intros i b Hi Hext. apply I_E; [assumption|]. destruct (Hcases i b) as [E|E]; congruence.
Qed.

Lemma inv2_step : forall K c s e, 0 < K -> inv2 K c s -> post_ev e -> inv2 K c (step true K s e).
Proof.
  intros K c s e HK I He.
  destruct e as [off data|off data|i bs|k a|k a|rev| | | | |st rv]; cbn [post_ev] in He; try contradiction.
  - now apply inv2_write.
  - now apply inv2_srchole.
  - now apply inv2_dsthole.
  - (* UlmBegin *)
    cbn [step]. destruct (uph s) eqn:Eu; try exact I. rewrite (i2_rel _ _ _ I).
    destruct I as [I_src I_dst I_nf I_nblk I_c I_rel I_head I_live I_user I_keep I_E].
    constructor; cbn [set_uph src dst spend dpend lowc wired reloaded uph drev]; auto.
    rewrite Eu in I_dst. now apply dinv_begin.
  - (* UlmPre *)
    cbn [step]. destruct (uph s) as [|sc|] eqn:Eu; try exact I.
    destruct I as [I_src I_dst I_nf I_nblk I_c I_rel I_head I_live I_user I_keep I_E].
    rewrite Eu in I_dst. pose proof (dinv_pre K _ _ _ I_dst) as H.
    destruct (scan_step (dst s) sc) as [c1 hs].
    constructor; cbn [src dst spend dpend lowc wired reloaded uph drev]; auto.
  - (* UlmMerge *)
    cbn [step]. destruct (uph s) as [|sc|] eqn:Eu; try exact I.
    destruct (scan_done (dst s) sc) eqn:Ed; [|exact I].
    destruct I as [I_src I_dst I_nf I_nblk I_c I_rel I_head I_live I_user I_keep I_E].
    rewrite Eu in I_dst. pose proof (dinv_merge K _ _ _ I_dst Ed) as H.
    destruct (ulm_merge (dst s) (pl (sp sc))) as [d1 hs]. destruct H as (D1 & Efl & M).
    destruct M as (M1 & M2 & M3 & M4 & M5 & M6 & M7 & M8).
    constructor; cbn [src dst spend dpend lowc wired reloaded uph drev]; rewrite ?Efl; auto; try congruence.
    intros J HJ H1 Hu. apply (keeps_same (dst s) d1 M1 M5). now apply I_keep.
Qed.

(** ** running schedules *)
Definition copied_in (es : list ev) (i b : nat) : Prop := exists bs, In (Copy i bs) es /\ In b bs.

Lemma run_inv1 : forall K c es P s, 0 < K -> inv1 K c P s -> Forall (pre_ev K c) es ->
  inv1 K c (fun i b => P i b \/ copied_in es i b) (run true K s es).
Proof.
  intros K c. induction es as [|e es IH]; intros P s HK I Hall.
  - cbn [run]. apply (inv1_mono K c P); [exact I|]. intros i b _ [Hp|(bs & [] & _)]. exact Hp.
  - inversion Hall as [|? ? He Hes]; subst. cbn [run].
    pose proof (inv1_step K c P s e HK I He) as I1.
    pose proof (IH _ _ HK I1 Hes) as I2.
    apply (inv1_mono K c _ _ _ I2). intros i b _ [Hp|(bs & [E|Hin] & Hb)].
    + left. left. exact Hp.
    + left. right. subst e. cbn [copied]. auto.
    + right. exists bs. auto.
Qed.

Lemma run_inv2 : forall K c es s, 0 < K -> inv2 K c s -> Forall post_ev es -> inv2 K c (run true K s es).
Proof.
  intros K c. induction es as [|e es IH]; intros s HK I Hall; [exact I|].
  inversion Hall as [|? ? He Hes]; subst. cbn [run]. apply IH; auto. now apply inv2_step.
Qed.

Lemma run_app : forall fx K es1 es2 s, run fx K s (es1 ++ es2) = run fx K (run fx K s es1) es2.
Proof. intros fx K. induction es1 as [|e es1 IH]; intros es2 s; [reflexivity|]. cbn [run app]. apply IH. Qed.

(** the source's shape is never changed by any event *)
Lemma step_src_shape : forall K s e, nf (src (step true K s e)) = nf (src s) /\ nblk (src (step true K s e)) = nblk (src s).
Proof.
  intros K s e.
  assert (Hw : forall off data, nf (src (src_write true K s off data)) = nf (src s) /\
                                nblk (src (src_write true K s off data)) = nblk (src s)).
  { intros off data. unfold src_write. rewrite write_at_plan.
    assert (G : forall ps d, nf (fst (exec_plan K d ps)) = nf d /\ nblk (fst (exec_plan K d ps)) = nblk d).
    { induction ps as [|p ps IH]; intros d; [auto|]. cbn [exec_plan].
      assert (Hp : nf (fst (exec_prim K d p)) = nf d /\ nblk (fst (exec_prim K d p)) = nblk d).
      { destruct p as [buf o|st bl]; cbn [exec_prim].
        - unfold rmw. destruct buf; [auto|].
          assert (Hr : forall cnt d0 b, nf (snd (full_read K d0 cnt b)) = nf d0 /\ nblk (snd (full_read K d0 cnt b)) = nblk d0).
          { induction cnt as [|cnt IHc]; intros d0 b; [auto|]. cbn [full_read].
            destruct (lookup d0 b) as [t l]. specialize (IHc (set_loc d0 l) (S b)).
            destruct (full_read K (set_loc d0 l) cnt (S b)) as [rest d2]. exact IHc. }
          specialize (Hr 1 d (o / K)). destruct (full_read K d 1 (o / K)) as [blks d1]. cbn [snd] in Hr.
          unfold full_write. cbn [fst nf nblk set_loc set_fl]. exact Hr.
        - unfold full_write. cbn [fst nf nblk set_loc set_fl]. auto. }
      destruct (exec_prim K d p) as [d1 h1]. cbn [fst] in Hp. specialize (IH d1).
      destruct (exec_plan K d1 ps) as [d2 h2]. cbn [fst] in *. destruct IH, Hp. split; congruence. }
    specialize (G (plan K data off) (src s)). destruct (exec_plan K (src s) (plan K data off)) as [d1 h]. exact G. }
  assert (Hth : forall k a, nf (fst (take_hole (src s) (spend s) k a)) = nf (src s) /\
                            nblk (fst (take_hole (src s) (spend s) k a)) = nblk (src s)).
  { intros k a. unfold take_hole. destruct (nth_error (spend s) k); [destruct a|]; cbn [fst set_fl nf nblk]; auto. }
  destruct e as [off data|off data|i bs|k a|k a|rev| | | | |st rv]; cbn [step].
  - destruct (nblk (src s) * K <? off + length data); [auto|].
    destruct (reloaded s).
    + destruct (write_at true K (dst s) data off). cbn [set_dst src]. apply Hw.
    + cbn [set_dst src]. apply Hw.
  - destruct (nblk (src s) * K <? off + length data); [auto|apply Hw].
  - destruct (reloaded s || negb ((1 <=? i) && (i <? nf (dst s)))); auto.
  - specialize (Hth k a). destruct (take_hole (src s) (spend s) k a). exact Hth.
  - destruct (take_hole (dst s) (dpend s) k a); auto.
  - destruct (reloaded s); auto.
  - destruct (reloaded s); auto.
  - destruct (uph s); auto. destruct (reloaded s); auto.
  - destruct (uph s) as [|c0|]; auto. destruct (scan_step (dst s) c0); auto.
  - destruct (uph s) as [|c0|]; auto. destruct (scan_done (dst s) c0); auto; try (destruct (ulm_merge (dst s) (pl (sp c0))); auto).
  - destruct (reloaded s || (st =? 0)); auto.
Qed.

Lemma run_src_shape : forall K es s, nf (src (run true K s es)) = nf (src s) /\ nblk (src (run true K s es)) = nblk (src s).
Proof.
  intros K. induction es as [|e es IH]; intros s; [auto|]. cbn [run].
  destruct (IH (step true K s e)) as (A & B). destruct (step_src_shape K s e) as (C & D). split; congruence.
Qed.

(** ** C07, data half *)
(** the state at add time: both replicas have just taken the add-time snapshot (fresh, empty heads, no
    reclamation pending), the destination's files carry the source's member names, and THE TWO CHAINS AGREE
    AT THE SYNC POINT [c] (member [c] is the newest snapshot that is not copied: the destination's
    checkpoint, 0 for a new replica): the images of the prefix ending at [c] are equal. *)
Record start_ok (K c : nat) (s : rb) : Prop := {
  so_src : inv K (src s);
  so_pend : spend s = [] /\ dpend s = [];
  so_nf : nf (dst s) = nf (src s);
  so_nblk : nblk (dst s) = nblk (src s);
  so_c : c < nf (src s);
  so_flags : reloaded s = false /\ wired s = true;
  so_heads : forall b, fl (src s) (nf (src s)) b = None /\ fl (dst s) (nf (src s)) b = None;
  so_usr : forall J, usr (dst s) J = usr (src s) J;
  so_files : dfiles_ok K (dst s);
  so_sync : forall b, top (fl (dst s)) c b = top (fl (src s)) c b
}.

Lemma start_inv1 : forall K c s, start_ok K c s -> inv1 K c (fun _ _ => False) s.
Proof.
  intros K c s [A (B1 & B2) C D E (F1 & F2) G H I J].
  constructor; auto.
  - constructor; [apply A|apply A|rewrite B1; apply hs_sound_nil].
  - intros b. destruct (G b) as (G1 & G2). congruence.
  - intros i b _ [].
  - intros b. left. apply J.
Qed.

(** every block of every closed file above the sync point is copied at least once *)
Definition all_copied (c : nat) (s : rb) (es : list ev) : Prop :=
  forall i b, c < i < nf (src s) -> b < nblk (src s) -> copied_in es i b.

Theorem rebuild_converges : forall K c s0 es1 es2, 0 < K ->
  start_ok K c s0 ->
  Forall (pre_ev K c) es1 -> all_copied c s0 es1 ->
  Forall post_ev es2 ->
  let s := run true K s0 (es1 ++ DstReload :: es2) in
  let n := nf (src s) in
  nf (dst s) = n /\ nblk (dst s) = nblk (src s) /\
  (* the live images are equal *)
  image K (dst s) n = image K (src s) n /\
  (* so is the image of every retained user-created snapshot from the sync point upward *)
  (forall J, c <= J < n -> usr (src s) J = true -> rmd (src s) J = false ->
             image K (dst s) J = image K (src s) J) /\
  (* an automatic snapshot reads the same wherever no newer layer of the source has an extent *)
  (forall J b, c <= J < n -> (forall i, J < i <= n -> fl (src s) i b = None) ->
               img K (fl (dst s)) J b = img K (fl (src s)) J b) /\
  (* the rebuilt replica's block map is well-formed: what it serves is its image, i.e. the source's *)
  wf K (dst s) /\ fst (read_all K (dst s)) = image K (src s) n.
Proof.
  intros K c s0 es1 es2 HK Hs H1 Hcp H2 s n.
  pose proof (run_inv1 K c es1 _ s0 HK (start_inv1 K c s0 Hs) H1) as I1.
  set (s1 := run true K s0 es1) in *.
  destruct (run_src_shape K es1 s0) as (Sn & Sb). fold s1 in Sn, Sb.
  assert (I2 : inv2 K c (step true K s1 DstReload)).
  { apply (inv1_reload K c _ s1 I1). intros i b Hi Hb. right. apply Hcp; congruence. }
  assert (I3 : inv2 K c s).
  { unfold s. rewrite run_app. cbn [run]. fold s1. now apply run_inv2. }
  destruct I3 as [I_src I_dst I_nf I_nblk I_c I_rel I_head I_live I_user I_keep I_E]. fold n in I_nf, I_c, I_head, I_live, I_user, I_keep, I_E.
  pose proof (di_wf _ _ _ _ I_dst) as Wd.
  split; [assumption|]. split; [assumption|]. split; [|split; [|split; [|split; [assumption|]]]].
  - apply image_ext; [assumption|]. exact I_live.
  - intros J HJ Hu Hr. apply image_ext; [assumption|]. intros b. now apply I_user.
  - intros J b HJ Hno. unfold img.
    assert (Hh : fl (src s) n b = None) by (apply Hno; lia).
    assert (Hd : forall i, J < i <= n -> fl (dst s) i b = None).
    { intros i Hi. destruct (Nat.eq_dec i n) as [->|N]; [rewrite I_head; assumption|].
      destruct (fl (dst s) i b) eqn:Ex; [|reflexivity]. exfalso.
      destruct (I_E i b ltac:(lia) ltac:(congruence)) as [A|A]; [apply A; apply Hno; lia|contradiction]. }
    rewrite <- (top_none_above (fl (dst s)) J n b) by (try lia; exact Hd).
    rewrite <- (top_none_above (fl (src s)) J n b) by (try lia; exact Hno).
    now rewrite I_live.
  - pose proof (read_whole K (dst s) HK Wd) as R. unfold read_all.
    destruct (read_at K (dst s) 0 (nblk (dst s) * K)) as [x d']. destruct R as (-> & _). cbn [fst].
    rewrite I_nf. apply image_ext; [assumption|]. exact I_live.
Qed.

(** ** C19, data half: CloneReplica *)
(** the source volume goes on (writes, reclamation) while the chain from S = member [sx] downward is copied;
    S is a retained user-created snapshot, hence never punched *)
Record cinv1 (K sx : nat) (s0 : dd) (w : bool) (P : nat -> nat -> Prop) (s : rb) : Prop := {
  c1_src : sinv K (src s) (spend s);
  c1_sx : 1 <= sx < nf (src s) /\ sx <= snapix (src s);
  c1_nf : nf (dst s) = S sx;
  c1_nblk : nblk (dst s) = nblk (src s) /\ nblk (src s) = nblk s0;
  c1_flags : reloaded s = false /\ dpend s = [] /\ wired s = w;
  c1_head : forall b, fl (dst s) (S sx) b = None;
  c1_files : dfiles_ok K (dst s);
  c1_const : forall i b, 1 <= i <= sx -> fl (src s) i b = fl s0 i b;
  c1_rel : forall i b, 1 <= i <= sx -> P i b -> fl (dst s) i b = fl s0 i b
}.

Definition clone_pre_ev (e : ev) : Prop :=
  match e with SrcWrite _ _ | SrcHole _ _ | Copy _ _ => True | _ => False end.

(** ... and attempts of UpdateCloneInfo that fail: the error is returned, the head is not rewired (the task
    either stops -- then there is no Reload and nothing is claimed -- or tries again) *)
Definition clone_try_ev (e : ev) : Prop :=
  match e with SrcWrite _ _ | SrcHole _ _ | Copy _ _ | CloneInfoFail _ _ => True | _ => False end.

Lemma clone_pre_try : forall e, clone_pre_ev e -> clone_try_ev e.
Proof. intros e; destruct e; cbn; auto. Qed.

Lemma cinv1_mono : forall K sx s0 w (P Q : nat -> nat -> Prop) s, cinv1 K sx s0 w P s ->
  (forall i b, Q i b -> P i b) -> cinv1 K sx s0 w Q s.
Proof. intros K sx s0 w P Q s I H. destruct I. constructor; auto. Qed.

Lemma cinv1_step : forall K sx s0 w P s e, 0 < K -> cinv1 K sx s0 w P s -> clone_try_ev e ->
  cinv1 K sx s0 w (fun i b => P i b \/ copied e i b) (step true K s e).
Proof.
  intros K sx s0 w P s e HK I He.
  destruct e as [off data|off data|i bs|k a|k a|rev| | | | |st rv]; cbn [clone_try_ev] in He; try contradiction;
    [| | |
     (* a failed UpdateCloneInfo touches the counter at most *)
     apply (cinv1_mono K sx s0 w P); [|intros i b [Hp|[]]; exact Hp]; cbn [step];
     destruct (reloaded s || (st =? 0)); [exact I|];
     destruct I; constructor; cbn [src dst spend dpend lowc wired reloaded uph drev]; auto].
  - (* SrcWrite *)
    apply (cinv1_mono K sx s0 w P); [|intros i b [Hp|[]]; exact Hp]. cbn [step].
    destruct (Nat.ltb_spec (nblk (src s) * K) (off + length data)) as [Hout|Hin]; [exact I|].
    unfold src_write. pose proof (sinv_write K (src s) (spend s) data off HK (c1_src _ _ _ _ _ _ I) Hin) as HS.
    destruct (write_at true K (src s) data off) as [s1 hs]. destruct HS as (I1 & S).
    destruct (st_meta _ _ _ _ S) as (M1 & M2 & M3 & M4 & M5 & M6 & M7 & M8).
    destruct I as [C_src (C_sx & C_sn) C_nf (C_nb1 & C_nb2) C_flags C_head C_files C_const C_rel].
    constructor; cbn [set_src src dst spend dpend lowc wired reloaded uph drev]; auto.
    + split; congruence.
    + split; congruence.
    + intros i b Hi. rewrite (st_other _ _ _ _ S) by lia. now apply C_const.
  - (* Copy *)
    cbn [step]. destruct I as [C_src (C_sx & C_sn) C_nf (C_nb1 & C_nb2) (C_f1 & C_f2 & C_f3) C_head C_files C_const C_rel].
    rewrite C_f1. cbn [orb].
    destruct ((1 <=? i) && (i <? nf (dst s))) eqn:Eg; cbn [negb].
    + apply andb_true_iff in Eg. destruct Eg as [G1 G2]. apply Nat.leb_le in G1. apply Nat.ltb_lt in G2.
      pose proof (sv_wf _ _ _ C_src) as W.
      constructor; cbn [set_dst copy_file src dst spend dpend lowc wired reloaded uph drev nf nblk fl usr]; auto.
      * intros b. rewrite fupd_neq by lia. apply C_head.
      * destruct C_files as (F1 & F2). split; cbn [set_dst copy_file src dst nf nblk fl].
        -- intros j b Hb. destruct (fupd_cases _ (fl (dst s)) i (copy_blocks (fl (src s) i) (fl (dst s) i) bs) j) as [(-> & E)|(N & E)]; rewrite E.
           ++ unfold copy_blocks. destruct (existsb (Nat.eqb b) bs); [apply (wf_ext _ _ W); lia|now apply F1].
           ++ now apply F1.
        -- intros j b v. destruct (fupd_cases _ (fl (dst s)) i (copy_blocks (fl (src s) i) (fl (dst s) i) bs) j) as [(-> & E)|(N & E)]; rewrite E.
           ++ unfold copy_blocks. destruct (existsb (Nat.eqb b) bs); [apply (wf_len _ _ W)|apply F2].
           ++ apply F2.
      * intros i' b Hi HP.
        destruct (fupd_cases _ (fl (dst s)) i (copy_blocks (fl (src s) i) (fl (dst s) i) bs) i') as [(-> & E)|(N & E)]; rewrite E.
        -- unfold copy_blocks. destruct (existsb (Nat.eqb b) bs) eqn:Ex; [now apply C_const|].
           destruct HP as [Hp|(_ & Hb)]; [now apply C_rel|]. apply existsb_eqb_in in Hb. congruence.
        -- destruct HP as [Hp|(Ei & _)]; [now apply C_rel|contradiction].
    + constructor; auto. intros i' b Hi [Hp|(-> & _)]; [now apply C_rel|].
      apply andb_false_iff in Eg. rewrite C_nf in Eg. destruct Eg as [G|G]; [apply Nat.leb_gt in G|apply Nat.ltb_ge in G]; lia.
  - (* SrcHole *)
    apply (cinv1_mono K sx s0 w P); [|intros i b [Hp|[]]; exact Hp]. cbn [step].
    destruct (take_hole (src s) (spend s) k a) as [s1 p1] eqn:Et.
    destruct (sinv_hole K _ _ _ _ _ _ (c1_src _ _ _ _ _ _ I) Et) as (I1 & M & _ & _ & _ & Hcases).
    destruct M as (M1 & M2 & M3 & M4 & M5 & M6 & M7 & M8).
    destruct I as [C_src (C_sx & C_sn) C_nf (C_nb1 & C_nb2) C_flags C_head C_files C_const C_rel].
    constructor; cbn [set_src src dst spend dpend lowc wired reloaded uph drev]; auto.
    + split; congruence.
    + split; congruence.
    + intros i b Hi. destruct (Hcases i b) as [E|(_ & _ & E3)]; [rewrite E; now apply C_const|lia].
Qed.

Lemma cinv1_info : forall K sx s0 w P s rev, cinv1 K sx s0 w P s ->
  cinv1 K sx s0 true P (step true K s (CloneInfo rev)) /\ drev (step true K s (CloneInfo rev)) = rev.
Proof.
  intros K sx s0 w P s rev I. cbn [step].
  destruct I as [C_src C_sx C_nf C_nb (C_f1 & C_f2 & C_f3) C_head C_files C_const C_rel]. rewrite C_f1.
  split; [|reflexivity]. constructor; cbn [src dst spend dpend lowc wired reloaded uph drev]; auto.
Qed.

Record cinv2 (K sx : nat) (s0 : dd) (rev : N) (s : rb) : Prop := {
  c2_src : sinv K (src s) (spend s);
  c2_sx : 1 <= sx < nf (src s) /\ sx <= snapix (src s);
  c2_dst : dinv K (dst s) (dpend s) (uph s);
  c2_nf : nf (dst s) = S sx;
  c2_nblk : nblk (dst s) = nblk (src s) /\ nblk (src s) = nblk s0;
  c2_rel : reloaded s = true;
  c2_const : forall i b, 1 <= i <= sx -> fl (src s) i b = fl s0 i b;
  c2_live : forall b, top (fl (dst s)) (S sx) b = top (fl s0) sx b;
  c2_rev : drev s = rev
}.

Definition clone_post_ev (e : ev) : Prop :=
  match e with
  | SrcWrite _ _ | SrcHole _ _ | DstHole _ _ | UlmBegin | UlmPre | UlmMerge => True
  | _ => False
  end.

Lemma cinv1_reload : forall K sx s0 P s, cinv1 K sx s0 true P s ->
  (forall i b, 1 <= i <= sx -> b < nblk (src s) -> P i b) ->
  cinv2 K sx s0 (drev s) (step true K s DstReload).
Proof.
  intros K sx s0 P s I Hall. cbn [step].
  destruct I as [C_src (C_sx & C_sn) C_nf (C_nb1 & C_nb2) (C_f1 & C_f2 & C_f3) C_head (F1 & F2) C_const C_rel].
  rewrite C_f1, C_f3. set (d := dst s) in *.
  assert (Ed : dst_reload true d =
               mkdd (nf d) (fl d) (nm d) (usr d) (rmd d) (aligned_ucs d) (last_true (aligned_ucs d) (nf d) 0)
                    (fun _ => 0) (nblk d) true) by reflexivity.
  pose proof (sv_wf _ _ _ C_src) as W.
  constructor; cbn [src dst spend dpend lowc wired reloaded uph drev]; rewrite ?Ed; cbn [nf fl nblk]; auto.
  - constructor.
    + constructor; cbn [nf fl loc nblk]; [lia|intros b; left; reflexivity|assumption|assumption].
    + intros k Hk HF. cbn [nf ucs snapix] in *. apply last_true_ge; assumption.
    + rewrite C_f2. apply pend_cov_nil.
    + rewrite C_f2. intros f s' l [].
    + exact I.
  - intros b. rewrite top_S, C_head. apply top_ext. intros i Hi.
    destruct (Nat.lt_ge_cases b (nblk (src s))) as [Hb|Hb]; [apply C_rel; auto|].
    rewrite F1 by (rewrite C_nb1; assumption). rewrite <- C_const by assumption. symmetry. now apply (wf_ext _ _ W).
Qed.

Lemma cinv2_step : forall K sx s0 rev s e, 0 < K -> cinv2 K sx s0 rev s -> clone_post_ev e ->
  cinv2 K sx s0 rev (step true K s e).
Proof.
  intros K sx s0 rev s e HK I He.
  destruct e as [off data|off data|i bs|k a|k a|rv| | | | |st rv0]; cbn [clone_post_ev] in He; try contradiction.
  - (* SrcWrite *)
    cbn [step]. destruct (Nat.ltb_spec (nblk (src s) * K) (off + length data)) as [Hout|Hin]; [exact I|].
    unfold src_write. pose proof (sinv_write K (src s) (spend s) data off HK (c2_src _ _ _ _ _ I) Hin) as HS.
    destruct (write_at true K (src s) data off) as [s1 hs]. destruct HS as (I1 & S).
    destruct (st_meta _ _ _ _ S) as (M1 & M2 & M3 & M4 & M5 & M6 & M7 & M8).
    destruct I as [C_src (C_sx & C_sn) C_dst C_nf (C_nb1 & C_nb2) C_rel C_const C_live C_rev].
    constructor; cbn [set_src src dst spend dpend lowc wired reloaded uph drev]; auto.
    + split; congruence.
    + split; congruence.
    + intros i b Hi. rewrite (st_other _ _ _ _ S) by lia. now apply C_const.
  - (* SrcHole *)
    cbn [step]. destruct (take_hole (src s) (spend s) k a) as [s1 p1] eqn:Et.
    destruct (sinv_hole K _ _ _ _ _ _ (c2_src _ _ _ _ _ I) Et) as (I1 & M & _ & _ & _ & Hcases).
    destruct M as (M1 & M2 & M3 & M4 & M5 & M6 & M7 & M8).
    destruct I as [C_src (C_sx & C_sn) C_dst C_nf (C_nb1 & C_nb2) C_rel C_const C_live C_rev].
    constructor; cbn [set_src src dst spend dpend lowc wired reloaded uph drev]; auto.
    + split; congruence.
    + split; congruence.
    + intros i b Hi. destruct (Hcases i b) as [E|(_ & _ & E3)]; [rewrite E; now apply C_const|lia].
  - (* DstHole *)
    cbn [step]. destruct (take_hole (dst s) (dpend s) k a) as [d1 p1] eqn:Et.
    destruct (dinv_hole K _ _ _ _ _ _ _ (c2_dst _ _ _ _ _ I) Et) as (D1 & M & _ & Htop & _ & _).
    destruct M as (M1 & M2 & M3 & M4 & M5 & M6 & M7 & M8).
    destruct I as [C_src C_sx C_dst C_nf (C_nb1 & C_nb2) C_rel C_const C_live C_rev].
    constructor; cbn [set_dst src dst spend dpend lowc wired reloaded uph drev]; auto; try congruence.
    + split; congruence.
    + intros b. rewrite <- C_nf. rewrite Htop by (left; reflexivity). rewrite C_nf. apply C_live.
  - (* UlmBegin *)
    cbn [step]. destruct (uph s) eqn:Eu; try exact I. rewrite (c2_rel _ _ _ _ _ I).
    destruct I as [C_src C_sx C_dst C_nf C_nb C_rel C_const C_live C_rev].
    constructor; cbn [set_uph src dst spend dpend lowc wired reloaded uph drev]; auto.
    rewrite Eu in C_dst. now apply dinv_begin.
  - (* UlmPre *)
    cbn [step]. destruct (uph s) as [|sc|] eqn:Eu; try exact I.
    destruct I as [C_src C_sx C_dst C_nf C_nb C_rel C_const C_live C_rev].
    rewrite Eu in C_dst. pose proof (dinv_pre K _ _ _ C_dst) as H.
    destruct (scan_step (dst s) sc) as [c1 hs].
    constructor; cbn [src dst spend dpend lowc wired reloaded uph drev]; auto.
  - (* UlmMerge *)
    cbn [step]. destruct (uph s) as [|sc|] eqn:Eu; try exact I.
    destruct (scan_done (dst s) sc) eqn:Ed; [|exact I].
    destruct I as [C_src C_sx C_dst C_nf (C_nb1 & C_nb2) C_rel C_const C_live C_rev].
    rewrite Eu in C_dst. pose proof (dinv_merge K _ _ _ C_dst Ed) as H.
    destruct (ulm_merge (dst s) (pl (sp sc))) as [d1 hs]. destruct H as (D1 & Efl & M).
    destruct M as (M1 & M2 & M3 & M4 & M5 & M6 & M7 & M8).
    constructor; cbn [src dst spend dpend lowc wired reloaded uph drev]; rewrite ?Efl; auto; try congruence.
    split; congruence.
Qed.

Lemma run_cinv1 : forall K sx s0 w es P s, 0 < K -> cinv1 K sx s0 w P s -> Forall clone_try_ev es ->
  cinv1 K sx s0 w (fun i b => P i b \/ copied_in es i b) (run true K s es).
Proof.
  intros K sx s0 w. induction es as [|e es IH]; intros P s HK I Hall.
  - cbn [run]. apply (cinv1_mono K sx s0 w P); [exact I|]. intros i b [Hp|(bs & [] & _)]. exact Hp.
  - inversion Hall as [|? ? He Hes]; subst. cbn [run].
    pose proof (cinv1_step K sx s0 w P s e HK I He) as I1.
    pose proof (IH _ _ HK I1 Hes) as I2.
    apply (cinv1_mono K sx s0 w _ _ _ I2). intros i b [Hp|(bs & [E|Hin] & Hb)].
    + left. left. exact Hp.
    + left. right. subst e. cbn [copied]. auto.
    + right. exists bs. auto.
Qed.

Lemma run_cinv2 : forall K sx s0 rev es s, 0 < K -> cinv2 K sx s0 rev s -> Forall clone_post_ev es ->
  cinv2 K sx s0 rev (run true K s es).
Proof.
  intros K sx s0 rev. induction es as [|e es IH]; intros s HK I Hall; [exact I|].
  inversion Hall as [|? ? He Hes]; subst. cbn [run]. apply IH; auto. now apply cinv2_step.
Qed.

Lemma image_ext2 : forall K d d' j j', nblk d' = nblk d ->
  (forall b, top (fl d') j' b = top (fl d) j b) -> image K d' j' = image K d j.
Proof.
  intros K d d' j j' En H. unfold image. rewrite En. f_equal. apply map_ext. intros b. unfold img. now rewrite H.
Qed.

Lemma run_pre_drev : forall K es s, Forall clone_pre_ev es -> drev (run true K s es) = drev s.
Proof.
  intros K. induction es as [|e es IH]; intros s Hall; [reflexivity|].
  inversion Hall as [|? ? He Hes]; subst. cbn [run]. rewrite (IH _ Hes).
  destruct e; cbn [clone_pre_ev] in He; try contradiction; cbn [step].
  - destruct (nblk (src s) * K <? off + length data); [reflexivity|]. unfold src_write.
    destruct (write_at true K (src s) data off). reflexivity.
  - destruct (reloaded s || negb ((1 <=? i) && (i <? nf (dst s)))); reflexivity.
  - destruct (take_hole (src s) (spend s) k apply). reflexivity.
Qed.

(** the clone of snapshot S = member [sx] of a source in service: a fresh replica whose directory
    receives the chain from S downward *)
Record clone_start_ok (K sx : nat) (s : rb) : Prop := {
  co_src : inv K (src s);
  co_pend : spend s = [] /\ dpend s = [];
  co_sx : 1 <= sx < nf (src s) /\ usr (src s) sx = true /\ rmd (src s) sx = false;
  co_nf : nf (dst s) = S sx;
  co_nblk : nblk (dst s) = nblk (src s);
  co_flags : reloaded s = false;
  co_head : forall b, fl (dst s) (S sx) b = None;
  co_files : dfiles_ok K (dst s)
}.

Theorem clone_image : forall K sx s0 es1 es1' es2 rev, 0 < K ->
  clone_start_ok K sx s0 ->
  Forall clone_try_ev es1 -> Forall clone_pre_ev es1' ->
  (forall i b, 1 <= i <= sx -> b < nblk (src s0) -> copied_in (es1 ++ es1') i b) ->
  Forall clone_post_ev es2 ->
  let s := run true K s0 (es1 ++ CloneInfo rev :: es1' ++ DstReload :: es2) in
  nf (dst s) = S sx /\
  (* the clone's live image is the image of S, as the source held it at the start and holds it now *)
  image K (dst s) (S sx) = image K (src s0) sx /\
  image K (src s) sx = image K (src s0) sx /\
  (* and this is what the clone serves through its block map *)
  wf K (dst s) /\ fst (read_all K (dst s)) = image K (src s0) sx /\
  (* with the counter handed to UpdateCloneInfo *)
  drev s = rev.
Proof.
  intros K sx s0 es1 es1' es2 rev HK Hs H1 H1' Hcp H2 s.
  destruct Hs as [A (B1 & B2) (C1 & C2 & C3) D E F G H].
  assert (I0 : cinv1 K sx (src s0) (wired s0) (fun _ _ => False) s0).
  { constructor; auto.
    - constructor; [apply A|apply A|rewrite B1; apply hs_sound_nil].
    - split; [assumption|]. apply (inv_prot _ _ A sx); [lia|assumption|assumption].
    - intros i b _ []. }
  pose proof (run_cinv1 K sx _ _ es1 _ s0 HK I0 H1) as I1.
  set (s1 := run true K s0 es1) in *.
  destruct (cinv1_info K sx _ _ _ s1 rev I1) as (I2 & Erev).
  set (s2 := step true K s1 (CloneInfo rev)) in *.
  pose proof (run_cinv1 K sx _ _ es1' _ s2 HK I2 (Forall_impl _ clone_pre_try H1')) as I3.
  set (s3 := run true K s2 es1') in *.
  assert (Edrev : drev s3 = rev).
  { unfold s3. rewrite (run_pre_drev K es1' s2 H1'). exact Erev. }
  assert (Hnb : nblk (src s3) = nblk (src s0)) by (destruct (c1_nblk _ _ _ _ _ _ I3); assumption).
  assert (I4 : cinv2 K sx (src s0) rev (step true K s3 DstReload)).
  { rewrite <- Edrev. apply (cinv1_reload K sx _ _ s3 I3). intros i b Hi Hb.
    rewrite Hnb in Hb. destruct (Hcp i b Hi Hb) as (bs & Hin & Hbs). apply in_app_or in Hin.
    destruct Hin as [Hin|Hin]; [left; right; exists bs; auto|right; exists bs; auto]. }
  assert (I5 : cinv2 K sx (src s0) rev s).
  { unfold s. rewrite run_app. cbn [run]. fold s1. fold s2. rewrite run_app. fold s3. cbn [run]. now apply run_cinv2. }
  destruct I5 as [C_src (C_sx & C_sn) C_dst C_nf (C_nb1 & C_nb2) C_rel C_const C_live C_rev].
  pose proof (di_wf _ _ _ _ C_dst) as Wd.
  split; [assumption|]. split; [|split; [|split; [assumption|split; [|assumption]]]].
  - apply image_ext2; [congruence|]. exact C_live.
  - apply image_ext; [assumption|]. intros b. apply top_ext. intros i Hi. now apply C_const.
  - pose proof (read_whole K (dst s) HK Wd) as R. unfold read_all.
    destruct (read_at K (dst s) 0 (nblk (dst s) * K)) as [x d']. destruct R as (-> & _). cbn [fst].
    rewrite C_nf. apply image_ext2; [congruence|]. exact C_live.
Qed.

(** ** outside the hypotheses: what the faithful model does (both replayed on the real code) *)
(** (1) [pre_ev] asks for block-aligned foreground writes before the Reload.  A write of two 512-byte
    sectors inside block 2, acknowledged while the new replica is still WO: the source completes the block
    from its own data, the destination from its own (empty) chain -- diffDisk.readModifyWrite does not know
    that the replica is being rebuilt.  Everything else is as the theorem wants it: fresh destination
    (sync point 0), the whole chain copied, Reload, UpdateLUNMap. *)
Definition rmw_case : rcase :=
  mkrcase 8 8 false false [Write 0 (repeat 1%N 32)] None [] 0%N
          [MBoth 17 (repeat 3%N 2); MCopy 1; MReload; MUlm []]
          [] (mkrside 0 0 [] [] [] [] 0) (mkrside 0 0 [] [] [] [] 0) true 0%N 0%N.

Theorem rebuild_unaligned_refuted :
  let s := fst (exec true 8 (init_case true rmw_case) (rc_ev rmw_case)) in
  reloaded s = true /\ uph s = UDone /\
  (* the source holds 1 1 | 1 3 3 1 1 1 1 1 in block 2, the rebuilt replica 0 3 3 0 0 0 0 0 *)
  block_of 8 (image 8 (src s) (nf (src s))) 2 = [1; 3; 3; 1; 1; 1; 1; 1]%N /\
  block_of 8 (image 8 (dst s) (nf (dst s))) 2 = [0; 3; 3; 0; 0; 0; 0; 0]%N /\
  model_oracle true rmw_case = false.
Proof. vm_compute. repeat split; reflexivity. Qed.

(** (2) [start_ok] asks that the two chains agree at the sync point.  The code does not guarantee it when
    the destination has diverged: a replica that wrote block 1 on its own (a write the source never got)
    punched that block out of the automatic snapshot below -- the block was shadowed by its head -- and
    the rebuild then replaces exactly the file that did the shadowing.  Snapshot 2 is the sync point; it is
    not copied. *)
Definition diverged_case : rcase :=
  mkrcase 8 4 false false [Write 8 (repeat 2%N 8); Snap 2%N false] (Some 2) [Write 8 (repeat 6%N 8)] 0%N
          [MCopy 2; MReload; MUlm []]
          [] (mkrside 0 0 [] [] [] [] 0) (mkrside 0 0 [] [] [] [] 0) true 0%N 0%N.

Theorem rebuild_diverged_refuted :
  let s0 := init_case true diverged_case in
  let s := fst (exec true 8 s0 (rc_ev diverged_case)) in
  (* before the rebuild the destination's sync-point image already lacks the block *)
  block_of 8 (image 8 (src s0) 1) 1 = repeat 2%N 8 /\ block_of 8 (image 8 (dst s0) 1) 1 = repeat 0%N 8 /\
  (* and after it so does its live image *)
  block_of 8 (image 8 (src s) (nf (src s))) 1 = repeat 2%N 8 /\
  block_of 8 (image 8 (dst s) (nf (dst s))) 1 = repeat 0%N 8 /\
  model_oracle true diverged_case = false.
Proof. vm_compute. repeat split; reflexivity. Qed.

(** the same two cases with the offending ingredient removed satisfy the oracle (sanity of the witnesses) *)
Example rmw_case_aligned_ok :
  model_oracle true (mkrcase 8 8 false false [Write 0 (repeat 1%N 32)] None [] 0%N
                             [MBoth 16 (repeat 3%N 8); MCopy 1; MReload; MUlm []]
                             [] (mkrside 0 0 [] [] [] [] 0) (mkrside 0 0 [] [] [] [] 0) true 0%N 0%N) = true.
Proof. vm_compute. reflexivity. Qed.

Example diverged_case_in_sync_ok :
  model_oracle true (mkrcase 8 4 false false [Write 8 (repeat 2%N 8); Snap 2%N false] (Some 2) [] 0%N
                             [MCopy 2; MReload; MUlm []]
                             [] (mkrside 0 0 [] [] [] [] 0) (mkrside 0 0 [] [] [] [] 0) true 0%N 0%N) = true.
Proof. vm_compute. reflexivity. Qed.

(** ** the hypotheses are satisfiable: a new (empty) replica is added to any source *)
Definition fresh_dir (s : dd) : dd :=
  mkdd (nf s) (fun _ => fempty) (nm s) (usr s) (rmd s) (fun _ => false) 0 (fun _ => 0) (nblk s) false.

Lemma start_ok_fresh : forall K s, inv K s -> (forall b, fl s (nf s) b = None) ->
  start_ok K 0 (rebuild_init s (fresh_dir s) 0).
Proof.
  intros K s I Hh. pose proof (wf_nf _ _ (inv_wf _ _ I)) as Hnf.
  constructor; cbn [rebuild_init fresh_dir src dst spend dpend lowc wired reloaded uph drev nf nblk fl usr]; auto.
  - intros b. split; [apply Hh|]. now rewrite fupd_eq.
  - split; cbn [nblk fl].
    + intros j b _. unfold fupd. destruct (j =? nf s); reflexivity.
    + intros j b v. unfold fupd. destruct (j =? nf s); discriminate.
Qed.

Lemma snapshot_head_empty : forall d name user, snd (snapshot d name user) = ROk ->
  forall b, fl (fst (snapshot d name user)) (nf (fst (snapshot d name user))) b = None.
Proof.
  intros d name user H b. unfold snapshot in *.
  destruct (N.eqb name 0 || negb (find_name d name (nf d) =? 0)); [discriminate|].
  destruct (max_chain <? nf d + 2); [discriminate|]. cbn [fst nf fl]. now rewrite fupd_eq.
Qed.

Lemma snapshot_inv : forall K d name user, inv K d -> snd (snapshot d name user) = ROk ->
  inv K (fst (snapshot d name user)).
Proof.
  intros K d name user I H. destruct (snapshot d name user) as [d1 r] eqn:E. cbn [snd fst] in *. subst r.
  now destruct (snapshot_ok K d name user d1 I E) as (I1 & _).
Qed.

Lemma write_inv : forall K d data off ch, 0 < K -> inv K d -> off + length data <= nblk d * K ->
  inv K (punched (fst (write_at true K d data off)) (snd (write_at true K d data off)) ch).
Proof.
  intros K d data off ch HK I Hr. pose proof (write_exact K d data off ch HK I Hr) as H.
  destruct (write_at true K d data off) as [dw hs]. now destruct H as (I1 & _).
Qed.

(** a source with history: blocks 0-1 written, user snapshot 1, block 1 rewritten, the add-time snapshot *)
Definition ex_d1 : dd :=
  let w := write_at true 8 (init 4 true) (repeat 1%N 16) 0 in punched (fst w) (snd w) [].
Definition ex_d2 : dd := fst (snapshot ex_d1 1%N true).
Definition ex_d3 : dd := let w := write_at true 8 ex_d2 (repeat 2%N 8) 8 in punched (fst w) (snd w) [].
Definition ex_src : dd := fst (snapshot ex_d3 900%N false).

Lemma ex_src_ok : inv 8 ex_src /\ (forall b, fl ex_src (nf ex_src) b = None) /\ nf ex_src = 3 /\ nblk ex_src = 4.
Proof.
  assert (I1 : inv 8 ex_d1) by (apply write_inv; [lia|apply inv_init|vm_compute; lia]).
  assert (I2 : inv 8 ex_d2) by (apply snapshot_inv; [exact I1|vm_compute; reflexivity]).
  assert (I3 : inv 8 ex_d3) by (apply write_inv; [lia|exact I2|vm_compute; lia]).
  assert (E4 : snd (snapshot ex_d3 900%N false) = ROk) by (vm_compute; reflexivity).
  split; [now apply snapshot_inv|]. split; [now apply snapshot_head_empty|]. split; vm_compute; reflexivity.
Qed.

Definition ex_s0 : rb := rebuild_init ex_src (fresh_dir ex_src) 0.
Definition ex_es1 : list ev :=
  [BothWrite 0 (repeat 7%N 8); Copy 1 (seq 0 4); SrcHole 0 true; BothWrite 8 (repeat 8%N 16); Copy 2 (seq 0 4)].
Definition ex_es2 : list ev :=
  [BothWrite 3 (repeat 9%N 2); UlmBegin; UlmPre; UlmPre; BothWrite 16 (repeat 5%N 8); DstHole 0 true]
  ++ repeat UlmPre 15 ++ [UlmMerge; BothWrite 25 (repeat 6%N 3); SrcHole 0 false; DstHole 0 true].

(** a user-created snapshot above the sync point, writes on both sides of the Reload (unaligned after it), a
    write in the middle of the preload, holes applied and dropped: the theorem's hypotheses hold, the merge
    ran, and the volume is not empty *)
Example rebuild_hypotheses_satisfiable :
  start_ok 8 0 ex_s0 /\ Forall (pre_ev 8 0) ex_es1 /\ all_copied 0 ex_s0 ex_es1 /\ Forall post_ev ex_es2 /\
  usr (src ex_s0) 1 = true /\
  let s := run true 8 ex_s0 (ex_es1 ++ DstReload :: ex_es2) in
  uph s = UDone /\ image 8 (src s) 3 = [7;7;7;9;9;7;7;7; 8;8;8;8;8;8;8;8; 5;5;5;5;5;5;5;5; 0;6;6;6;0;0;0;0]%N.
Proof.
  destruct ex_src_ok as (I & Hh & En & Eb).
  split; [now apply start_ok_fresh|]. split.
  { repeat constructor; vm_compute; auto. }
  split.
  { intros i b Hi Hb. cbn [ex_s0 rebuild_init src] in Hi, Hb. rewrite En in Hi. rewrite Eb in Hb.
    assert (Hi' : i = 1 \/ i = 2) by lia.
    destruct Hi' as [-> | ->]; [exists (seq 0 4)|exists (seq 0 4)]; (split; [cbn; tauto|apply in_seq; lia]). }
  split; [repeat constructor|]. split; vm_compute; auto.
Qed.

Lemma clone_start_ok_init : forall K s sx, inv K s -> 1 <= sx < nf s -> usr s sx = true -> rmd s sx = false ->
  clone_start_ok K sx (clone_init s sx).
Proof.
  intros K s sx I Hsx Hu Hr.
  constructor; cbn [clone_init src dst spend dpend lowc wired reloaded uph drev nf nblk fl]; auto.
  split; cbn [nblk fl]; [reflexivity|discriminate].
Qed.

(** the source of the example above one step earlier (user snapshot 1 taken, block 1 rewritten since), cloned
    while it keeps taking writes *)
Example clone_hypotheses_satisfiable :
  let s0 := clone_init ex_d3 1 in
  let es1 := [Copy 1 (seq 0 2); SrcWrite 4 (repeat 3%N 8)] in
  let es1' := [SrcHole 0 true; Copy 1 (seq 2 2)] in
  let es2 := UlmBegin :: repeat UlmPre 10 ++ [SrcWrite 0 (repeat 4%N 32); UlmMerge; DstHole 0 true] in
  clone_start_ok 8 1 s0 /\ Forall clone_pre_ev es1 /\ Forall clone_pre_ev es1' /\
  (forall i b, 1 <= i <= 1 -> b < nblk (src s0) -> copied_in (es1 ++ es1') i b) /\ Forall clone_post_ev es2 /\
  let s := run true 8 s0 (es1 ++ CloneInfo 7%N :: es1' ++ DstReload :: es2) in
  uph s = UDone /\ image 8 (dst s) 2 = (repeat 1%N 16 ++ repeat 0%N 16)%list /\
  image 8 (src s) (nf (src s)) = repeat 4%N 32.
Proof.
  assert (I1 : inv 8 ex_d1) by (apply write_inv; [lia|apply inv_init|vm_compute; lia]).
  assert (I2 : inv 8 ex_d2) by (apply snapshot_inv; [exact I1|vm_compute; reflexivity]).
  assert (I3 : inv 8 ex_d3) by (apply write_inv; [lia|exact I2|vm_compute; lia]).
  cbv zeta. split; [apply clone_start_ok_init; [exact I3|vm_compute; lia|vm_compute; reflexivity|vm_compute; reflexivity]|].
  split; [repeat constructor|]. split; [repeat constructor|]. split.
  { intros i b Hi Hb. assert (i = 1) by lia. subst i.
    assert (Eb : nblk (src (clone_init ex_d3 1)) = 4) by (vm_compute; reflexivity). rewrite Eb in Hb.
    destruct (Nat.lt_ge_cases b 2); [exists (seq 0 2)|exists (seq 2 2)]; (split; [cbn; tauto|apply in_seq; lia]). }
  split; [repeat constructor|]. vm_compute. auto.
Qed.

(** ** an UpdateLUNMap that gives up (PreloadLunMap returned an error) *)
(** the copy is dropped, the live table was never touched: once what the scan had queued has been applied or
    dropped, the state is again one from which every schedule of [rebuild_converges] may go on -- in
    particular a second, complete UpdateLUNMap *)
Lemma inv2_abort : forall K c s, inv2 K c s -> dpend s = [] -> inv2 K c (ulm_abort s).
Proof.
  intros K c s I Hp. destruct I as [I_src I_dst I_nf I_nblk I_c I_rel I_head I_live I_user I_keep I_E].
  constructor; cbn [ulm_abort set_uph src dst spend dpend lowc wired reloaded uph drev]; auto.
  rewrite Hp in *. destruct I_dst as [A B C M S].
  constructor; auto. intros f s' l [].
Qed.

(** nothing that is served changes *)
Lemma ulm_abort_same : forall s, src (ulm_abort s) = src s /\ dst (ulm_abort s) = dst s /\ dpend (ulm_abort s) = dpend s.
Proof. intros s. cbn. auto. Qed.
