(** * Block: basic lemmas -- function update, chain images, the well-formedness invariant,
    lookup / read = image. *)
From Coq Require Import List Arith Bool NArith Lia.
From Jiva Require Import Block.Model.
Import ListNotations.

(** ** function update *)
Lemma fupd_eq : forall A (f : nat -> A) k v, fupd f k v k = v.
Proof. intros. unfold fupd. now rewrite Nat.eqb_refl. Qed.

Lemma fupd_neq : forall A (f : nat -> A) k v x, x <> k -> fupd f k v x = f x.
Proof. intros. unfold fupd. destruct (Nat.eqb_spec x k); [contradiction | reflexivity]. Qed.

Lemma fupd_cases : forall A (f : nat -> A) k v x, (x = k /\ fupd f k v x = v) \/ (x <> k /\ fupd f k v x = f x).
Proof. intros. destruct (Nat.eq_dec x k) as [->|H]; [left; split; auto using fupd_eq | right; split; auto using fupd_neq]. Qed.

(** ** unfolding lemmas for fixpoints with nested patterns *)
Lemma probe_0 : forall fls b, probe fls 0 b = 0. Proof. reflexivity. Qed.
Lemma probe_1 : forall fls b, probe fls 1 b = 1. Proof. reflexivity. Qed.
Lemma probe_SS : forall fls j b,
  probe fls (S (S j)) b = match fls (S (S j)) b with Some _ => S (S j) | None => probe fls (S j) b end.
Proof. reflexivity. Qed.

Lemma top_0 : forall fls b, top fls 0 b = None. Proof. reflexivity. Qed.
Lemma top_S : forall fls j b,
  top fls (S j) b = match fls (S j) b with Some v => Some v | None => top fls j b end.
Proof. reflexivity. Qed.

(** ** top: the topmost extent of a chain prefix *)
Lemma top_ext : forall f g j b, (forall i, 1 <= i <= j -> f i b = g i b) -> top f j b = top g j b.
Proof.
  induction j as [|j IH]; intros b H; [reflexivity|].
  rewrite !top_S. rewrite <- (H (S j)) by lia.
  destruct (f (S j) b); [reflexivity|]. apply IH. intros i Hi. apply H. lia.
Qed.

Lemma top_none_above : forall fls j k b, j <= k -> (forall i, j < i <= k -> fls i b = None) ->
  top fls k b = top fls j b.
Proof.
  induction k as [|k IH]; intros b Hjk H.
  - assert (j = 0) by lia. now subst.
  - destruct (Nat.eq_dec j (S k)) as [->|Hne]; [reflexivity|].
    rewrite top_S. rewrite (H (S k)) by lia. apply IH; [lia|]. intros i Hi. apply H. lia.
Qed.

Lemma top_some : forall fls j b v, 1 <= j -> fls j b = Some v -> top fls j b = Some v.
Proof. intros fls j b v Hj H. destruct j; [lia|]. rewrite top_S, H. reflexivity. Qed.

Lemma top_all_none : forall fls j b, (forall i, 1 <= i <= j -> fls i b = None) -> top fls j b = None.
Proof.
  induction j as [|j IH]; intros b H; [reflexivity|].
  rewrite top_S, (H (S j)) by lia. apply IH. intros i Hi. apply H. lia.
Qed.

Lemma top_some_inv : forall fls j b v, top fls j b = Some v ->
  exists i, 1 <= i <= j /\ fls i b = Some v /\ forall k, i < k <= j -> fls k b = None.
Proof.
  induction j as [|j IH]; intros b v H; [discriminate|].
  rewrite top_S in H. destruct (fls (S j) b) as [w|] eqn:E.
  - inversion H; subst. exists (S j). split; [lia|]. split; [assumption|]. intros; lia.
  - destruct (IH _ _ H) as (i & Hi & Hv & Hn). exists i. split; [lia|]. split; [assumption|].
    intros k Hk. destruct (Nat.eq_dec k (S j)) as [->|Hne]; [assumption|]. apply Hn. lia.
Qed.

Lemma top_none_inv : forall fls j b, top fls j b = None -> forall i, 1 <= i <= j -> fls i b = None.
Proof.
  induction j as [|j IH]; intros b H i Hi; [lia|].
  rewrite top_S in H. destruct (fls (S j) b) eqn:E; [discriminate|].
  destruct (Nat.eq_dec i (S j)) as [->|Hne]; [assumption|]. apply IH; [assumption|lia].
Qed.

(** punching only, and whatever was punched inside the prefix had a higher extent inside the prefix:
    the prefix image is unchanged (independent of order and of which holes were dropped) *)
Lemma punch_safe : forall fls fls' J b,
  (forall f, fls' f b = fls f b \/ fls' f b = None) ->
  (forall f, 1 <= f <= J -> fls' f b <> fls f b -> exists i, f < i <= J /\ fls i b <> None) ->
  top fls' J b = top fls J b.
Proof.
  induction J as [|J IH]; intros b Hp Hj; [reflexivity|].
  rewrite !top_S.
  destruct (fls (S J) b) as [v|] eqn:E.
  - destruct (Hp (S J)) as [H|H].
    + rewrite H, E. reflexivity.
    + exfalso. destruct (Hj (S J)) as (i & Hi & _); [lia| congruence |lia].
  - destruct (Hp (S J)) as [H|H]; rewrite H; try rewrite E.
    + apply IH; [assumption|]. intros f Hf Hne. destruct (Hj f) as (i & Hi & Hx); [lia|assumption|].
      exists i. split; [|assumption]. destruct (Nat.eq_dec i (S J)) as [->|]; [congruence|lia].
    + apply IH; [assumption|]. intros f Hf Hne. destruct (Hj f) as (i & Hi & Hx); [lia|assumption|].
      exists i. split; [|assumption]. destruct (Nat.eq_dec i (S J)) as [->|]; [congruence|lia].
Qed.

(** ** applying (a subset of) a list of holes *)
Definition covers (h : hole) (f b : nat) : Prop :=
  let '(i, s, l) := h in i = f /\ s <= b < s + l.

Lemma punch_file_in : forall f s l b, s <= b < s + l -> punch_file f s l b = None.
Proof.
  intros. unfold punch_file.
  destruct (Nat.leb_spec s b); destruct (Nat.ltb_spec b (s + l)); simpl; try reflexivity; lia.
Qed.
Lemma punch_file_out : forall f s l b, ~ (s <= b < s + l) -> punch_file f s l b = f b.
Proof.
  intros. unfold punch_file.
  destruct (Nat.leb_spec s b); destruct (Nat.ltb_spec b (s + l)); simpl; try reflexivity; lia.
Qed.

Lemma apply_hole_cases : forall fls h f b,
  (apply_hole fls h f b = fls f b) \/ (apply_hole fls h f b = None /\ covers h f b).
Proof.
  intros fls [[i s] l] f b. unfold apply_hole, covers.
  destruct (fupd_cases _ fls i (punch_file (fls i) s l) f) as [[-> H]|[Hn H]]; rewrite H.
  - destruct (Nat.le_gt_cases s b); [destruct (Nat.lt_ge_cases b (s + l))|].
    + right. split; [apply punch_file_in; lia|]. split; [reflexivity|lia].
    + left. apply punch_file_out. lia.
    + left. apply punch_file_out. lia.
  - left. reflexivity.
Qed.

Lemma apply_holes_cases : forall hs ch fls f b,
  (apply_holes fls hs ch f b = fls f b) \/
  (apply_holes fls hs ch f b = None /\ exists h, In h hs /\ covers h f b).
Proof.
  induction hs as [|h hs IH]; intros ch fls f b; [left; reflexivity|].
  cbn [apply_holes].
  assert (Hgen : forall fls1, (fls1 f b = fls f b \/ (fls1 f b = None /\ covers h f b)) -> forall ch',
     (apply_holes fls1 hs ch' f b = fls f b) \/
     (apply_holes fls1 hs ch' f b = None /\ exists h0, In h0 (h :: hs) /\ covers h0 f b)).
  { intros fls1 H1 ch'. destruct (IH ch' fls1 f b) as [H|[H (h0 & Hin & Hc)]].
    - rewrite H. destruct H1 as [H1|[H1 Hc]]; [left; assumption|].
      right. split; [assumption|]. exists h. split; [left; reflexivity|assumption].
    - right. split; [assumption|]. exists h0. split; [right; assumption|assumption]. }
  destruct ch as [|c ch'].
  - apply Hgen. apply apply_hole_cases.
  - destruct c; apply Hgen; [apply apply_hole_cases | left; reflexivity].
Qed.

(** ** images *)
Lemma img_ext : forall K f g j b, (forall i, 1 <= i <= j -> f i b = g i b) -> img K f j b = img K g j b.
Proof. intros. unfold img. now rewrite (top_ext f g j b). Qed.

(** ** well-formedness of the in-memory map w.r.t. the files *)
Definition loc_ok (d : dd) : Prop :=
  forall b, loc d b = 0 \/
            (1 <= loc d b <= nf d /\ (forall j, loc d b < j <= nf d -> fl d j b = None)
             /\ (2 <= loc d b -> fl d (loc d b) b <> None)).

Lemma probe_spec : forall fls j b, 1 <= j ->
  1 <= probe fls j b <= j /\ (forall k, probe fls j b < k <= j -> fls k b = None)
  /\ (2 <= probe fls j b -> fls (probe fls j b) b <> None).
Proof.
  induction j as [|j IH]; intros b Hj; [lia|].
  destruct j as [|j].
  - rewrite probe_1. split; [lia|]. split; intros; lia.
  - rewrite probe_SS. destruct (fls (S (S j)) b) eqn:E.
    + split; [lia|]. split; [intros; lia|]. intros _. congruence.
    + destruct (IH b) as (H1 & H2 & H3); [lia|]. split; [lia|]. split; [|assumption].
      intros k Hk. destruct (Nat.eq_dec k (S (S j))) as [->|]; [assumption|]. apply H2. lia.
Qed.

(** what a block of the live volume reads as, given a correct target *)
Lemma read_target_img : forall K d t b, 1 <= t <= nf d ->
  (forall j, t < j <= nf d -> fl d j b = None) -> (2 <= t -> fl d t b <> None) ->
  read_block K d t b = img K (fl d) (nf d) b.
Proof.
  intros K d t b Ht Habove Hext. unfold read_block, img.
  rewrite (top_none_above (fl d) t (nf d) b) by (try lia; assumption).
  destruct t as [|t]; [lia|]. rewrite top_S.
  destruct (fl d (S t) b) as [v|] eqn:E; [reflexivity|].
  destruct t as [|t]; [reflexivity|]. exfalso. apply Hext; [lia|reflexivity].
Qed.

Lemma lookup_spec : forall K d b, 1 <= nf d -> loc_ok d -> b < nblk d ->
  let '(t, l) := lookup d b in
  read_block K d t b = img K (fl d) (nf d) b /\ loc_ok (set_loc d l)
  /\ (forall b', b' <> b -> l b' = loc d b') /\ (l b = loc d b \/ loc d b = 0).
Proof.
  intros K d b Hnf Hok Hb. unfold lookup.
  destruct (Nat.leb_spec (nblk d) b); [lia|].
  destruct (Nat.eqb_spec (nf d) 1) as [E1|N1].
  - split; [|split; [|split]]; auto.
    + apply read_target_img; rewrite ?E1; try lia; intros; lia.
  - destruct (loc d b) as [|t] eqn:El.
    + destruct (probe_spec (fl d) (nf d) b Hnf) as (P1 & P2 & P3).
      split; [apply read_target_img; assumption|]. split; [|split].
      * intros b'. cbn [loc set_loc nf fl].
        destruct (fupd_cases _ (loc d) b (probe (fl d) (nf d) b) b') as [[-> H0]|[Hn H0]]; rewrite H0.
        -- right. split; [assumption|]. split; assumption.
        -- apply Hok.
      * intros b' Hb'. now rewrite fupd_neq.
      * right. reflexivity.
    + destruct (Hok b) as [H0|(H1 & H2 & H3)]; [rewrite El in H0; discriminate|].
      rewrite El in *. split; [apply read_target_img; assumption|].
      split; [destruct d; exact Hok|]. split; auto.
Qed.

Lemma set_loc_fl : forall d l, fl (set_loc d l) = fl d. Proof. reflexivity. Qed.
Lemma set_loc_nf : forall d l, nf (set_loc d l) = nf d. Proof. reflexivity. Qed.
Lemma set_loc_nblk : forall d l, nblk (set_loc d l) = nblk d. Proof. reflexivity. Qed.
Lemma set_loc_loc : forall d l, loc (set_loc d l) = l. Proof. reflexivity. Qed.

(** [d'] is [d] with more location entries filled in (memoisation by reads) *)
Definition memo (d d' : dd) : Prop :=
  nf d' = nf d /\ fl d' = fl d /\ nm d' = nm d /\ usr d' = usr d /\ rmd d' = rmd d /\ ucs d' = ucs d
  /\ snapix d' = snapix d /\ nblk d' = nblk d /\ punch d' = punch d
  /\ (forall b, loc d' b = loc d b \/ loc d b = 0) /\ loc_ok d'.

Lemma memo_refl : forall d, loc_ok d -> memo d d.
Proof. intros d H. repeat split; auto. Qed.

Lemma memo_trans : forall a b c, memo a b -> memo b c -> memo a c.
Proof.
  intros a b c (A1&A2&A3&A4&A5&A6&A7&A8&A9&A10&A11) (B1&B2&B3&B4&B5&B6&B7&B8&B9&B10&B11).
  repeat split; try congruence; [|assumption].
  intros x. destruct (B10 x) as [H|H]; destruct (A10 x) as [H'|H']; try (right; congruence); try (left; congruence).
Qed.

Lemma full_read_spec : forall K cnt d b, 1 <= nf d -> loc_ok d -> b + cnt <= nblk d ->
  let '(blks, d') := full_read K d cnt b in
  blks = map (img K (fl d) (nf d)) (seq b cnt) /\ memo d d'.
Proof.
  induction cnt as [|cnt IH]; intros d b Hnf Hok Hb.
  - cbn. split; [reflexivity| now apply memo_refl].
  - cbn [full_read].
    pose proof (lookup_spec K d b Hnf Hok ltac:(lia)) as HL.
    destruct (lookup d b) as [t l]. destruct HL as (Hr & Hok1 & Hl1 & Hl2).
    specialize (IH (set_loc d l) (S b) Hnf Hok1 ltac:(rewrite set_loc_nblk; lia)).
    destruct (full_read K (set_loc d l) cnt (S b)) as [rest d2]. destruct IH as (Hrest & Hm).
    split.
    + cbn [seq map]. rewrite Hr. f_equal. exact Hrest.
    + eapply memo_trans; [|exact Hm].
      repeat split; auto. intros x. destruct (Nat.eq_dec x b) as [->|Hx]; [exact Hl2| left; now apply Hl1].
Qed.
