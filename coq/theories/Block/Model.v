(** * Block: the chain of sparse files and the block -> file map of a jiva replica.

    Hand-written transcription (executable, no proofs in this file) of
      replica/diff_disk.go   lookup, fullReadAt/ReadAt, fullWriteAt (literal run-state loop and hole
                             emission), readModifyWrite, WriteAt (three-way split), RemoveIndex;
                             fullReadAt's runs and ReadAt's three-way split literally for reads issued
                             while one chain file cannot be read (which run's error is returned)
      replica/backup.go      preload (with userCreatedSnapIndx), Hole / sendToCreateHole
      replica/server.go      UpdateLUNMap, Reload (sets types.ShouldPunchHoles), Open/Close, Resize
      replica/replica.go     createDisk / openLiveChain (maintenance of files, UserCreatedSnap, SnapIndx),
                             Resize, RemoveDiffDisk -> removeDiskNode -> RemoveIndex, PrepareRemoveDisk,
                             revertDisk (new head on the snapshot + Reload(true))
      sync/sync.go           GetDeleteCandidateChain, the loop body of InternalSnapshotCleaner (one pass, the
                             merge executed or failed by the replica's sync agent)
      sparse-tools sfold.go  FoldFile / coalesce (the child's extents overlay the parent)

    Granularity: [K] units per 4 KiB block (K = 8: 512-byte sectors; K = 4096: bytes).  A unit's value is a
    token of type N (0 = zero bytes).  A file is a partial map block index -> block content; [None] is a hole
    (no extent).  Files are kept positionally: [fl d i] is diffDisk.files[i] (1 = base ... [nf d] = head),
    [nm d i] its name (the harness keeps the table; the head always has name 0), [usr]/[rmd] the on-disk
    attributes UserCreated / Removed of that member.  Files that left the chain (old heads, snapshots above a
    revert point, removed snapshots) are not reachable by any operation modelled here and are dropped.

    Asynchronous hole punching: every operation returns the list of holes it sent to HoleCreatorChan; the
    step function applies each of them (or drops it) at the end of the operation under a boolean supplied
    by the history.

    [fx] selects the semantics of the in-loop hole of fullWriteAt:
      false = the tree as it is (hole sent to d.files[val], the file of the CURRENT block)          -- F1
      true  = the repaired code (hole sent to `file`, the file of the run that is being closed). *)
From Coq Require Import List Arith Bool NArith.
Import ListNotations.

(** THE ONE PLACE TO SWITCH after the F1 fix is committed in /repo: set this to [true].
    It is used only by Corr.v (which semantics the implementation is compared with). *)
Definition code_variant : bool := true.

(** SECOND SWITCH, only if the S7 patch (RemoveDiffDisk refuses the base snapshot) is committed: set to
    [true].  Used by [remove] (the raw removedisk action); the deletion flow never reaches that test. *)
Definition s7_guard : bool := true.

Notation blockdata := (list N) (only parsing).
Definition file := nat -> option blockdata.
Definition fempty : file := fun _ => None.

Definition fupd {A : Type} (f : nat -> A) (k : nat) (v : A) : nat -> A :=
  fun x => if Nat.eqb x k then v else f x.

Inductive res := ROk | RErr.
Definition res_eqb (a b : res) : bool :=
  match a, b with ROk, ROk | RErr, RErr => true | _, _ => false end.

(** a hole sent to the hole channel: (file index at the time, first block, number of blocks) *)
Definition hole := (nat * nat * nat)%type.

Record dd := mkdd {
  nf     : nat;            (* len(d.files) - 1; the head is file [nf] *)
  fl     : nat -> file;    (* d.files[i] *)
  nm     : nat -> N;       (* name of member i *)
  usr    : nat -> bool;    (* disk.UserCreated of member i (on disk) *)
  rmd    : nat -> bool;    (* disk.Removed of member i (on disk) *)
  ucs    : nat -> bool;    (* d.UserCreatedSnap[i], i = 0 .. nf, exactly as the code maintains it *)
  snapix : nat;            (* d.SnapIndx *)
  loc    : nat -> nat;     (* d.location; 0 = unknown *)
  nblk   : nat;            (* len(d.location) = info.Size / 4096 *)
  punch  : bool            (* types.ShouldPunchHoles *)
}.

Definition set_loc (d : dd) (l : nat -> nat) : dd :=
  mkdd (nf d) (fl d) (nm d) (usr d) (rmd d) (ucs d) (snapix d) l (nblk d) (punch d).
Definition set_fl (d : dd) (f : nat -> file) : dd :=
  mkdd (nf d) f (nm d) (usr d) (rmd d) (ucs d) (snapix d) (loc d) (nblk d) (punch d).
Definition set_punch (d : dd) (p : bool) : dd :=
  mkdd (nf d) (fl d) (nm d) (usr d) (rmd d) (ucs d) (snapix d) (loc d) (nblk d) p.

(** replica.New on an empty directory: createDisk("000") makes files = [nil, head],
    UserCreatedSnap = [false, false], SnapIndx = 0 *)
Definition init (nb : nat) (p : bool) : dd :=
  mkdd 1 (fun _ => fempty) (fun _ => 0%N) (fun _ => false) (fun _ => false) (fun _ => false) 0
       (fun _ => 0) nb p.

Definition zeros (K : nat) : blockdata := repeat 0%N K.

(** ** holes *)
Definition punch_file (f : file) (s l : nat) : file :=
  fun b => if (s <=? b) && (b <? s + l) then None else f b.

Definition apply_hole (fls : nat -> file) (h : hole) : nat -> file :=
  let '(i, s, l) := h in fupd fls i (punch_file (fls i) s l).

(** a missing choice means "applied" *)
Fixpoint apply_holes (fls : nat -> file) (hs : list hole) (ch : list bool) : nat -> file :=
  match hs with
  | [] => fls
  | h :: hs' =>
      match ch with
      | [] => apply_holes (apply_hole fls h) hs' []
      | c :: ch' => apply_holes (if c then apply_hole fls h else fls) hs' ch'
      end
  end.

(** ** diffDisk.lookup *)
(** the top-down FIEMAP probe [for i := len(d.files)-1; i > 0; i--]: index 1 is returned without looking *)
Fixpoint probe (fls : nat -> file) (j b : nat) : nat :=
  match j with
  | 0 => 0
  | 1 => 1
  | S j' => match fls j b with Some _ => j | None => probe fls j' b end
  end.

Definition lookup (d : dd) (b : nat) : nat * (nat -> nat) :=
  if nblk d <=? b then (nf d, loc d)                 (* "We know the IO will result in EOF" *)
  else if nf d =? 1 then (1, loc d)                  (* small optimization: len(d.files) == 2 *)
  else match loc d b with
       | 0 => let t := probe (fl d) (nf d) b in (t, fupd (loc d) b t)   (* memoised *)
       | t => (t, loc d)
       end.

Definition read_block (K : nat) (d : dd) (t b : nat) : blockdata :=
  match t with
  | 0 => zeros K
  | _ => match fl d t b with Some v => v | None => zeros K end
  end.

(** fullReadAt, block by block (the grouping into runs of equal target is not observable) *)
Fixpoint full_read (K : nat) (d : dd) (cnt b : nat) : list blockdata * dd :=
  match cnt with
  | 0 => ([], d)
  | S c =>
      let '(t, l) := lookup d b in
      let d1 := set_loc d l in
      let '(rest, d2) := full_read K d1 c (S b) in
      (read_block K d t b :: rest, d2)
  end.

(** ** diffDisk.fullWriteAt *)
Record wst := mkwst {
  wl     : nat -> nat;       (* d.location *)
  wfile  : option nat;       (* file (nil = None); the index stands for the pointer d.files[index] *)
  wfidx  : nat;              (* fileIndx *)
  wlen   : nat;              (* length *)
  woff   : nat;              (* lOffset *)
  wholes : list hole
}.

(** (file != nil) && (int(fileIndx) > d.SnapIndx) && shouldCreateHoles() *)
Definition can_punch (file : option nat) (fidx bound : nat) (p : bool) : bool :=
  match file with Some _ => (bound <? fidx) && p | None => false end.

Definition fw_step (fx : bool) (d : dd) (target : nat) (w : wst) (b : nat) : wst :=
  let val := wl w b in
  if val =? 0 then
    mkwst (fupd (wl w) b target) (wfile w) (wfidx w) (wlen w) (woff w) (wholes w)
  else if val =? target then
    mkwst (fupd (wl w) b target) (wfile w) (wfidx w) (wlen w) (woff w) (wholes w)
  else if negb (val =? wfidx w) || negb (b =? woff w + wlen w) then
    let hs :=
      if can_punch (wfile w) (wfidx w) (snapix d) (punch d)
      then wholes w ++ [((if fx then match wfile w with Some f => f | None => 0 end else val),
                         woff w, wlen w)]
      else wholes w in
    mkwst (fupd (wl w) b target) (Some val) val 1 b hs
  else
    mkwst (fupd (wl w) b target) (wfile w) (wfidx w) (S (wlen w)) (woff w) (wholes w).

Fixpoint fw_loop (fx : bool) (d : dd) (target : nat) (cnt b : nat) (w : wst) : wst :=
  match cnt with
  | 0 => w
  | S c => fw_loop fx d target c (S b) (fw_step fx d target w b)
  end.

(** d.files[target].WriteAt(buf, offset) *)
Fixpoint write_blocks (f : file) (b : nat) (blocks : list blockdata) : file :=
  match blocks with
  | [] => f
  | v :: r => write_blocks (fupd f b (Some v)) (S b) r
  end.

Definition full_write (fx : bool) (d : dd) (start : nat) (blocks : list blockdata) : dd * list hole :=
  let target := nf d in
  let head' := write_blocks (fl d target) start blocks in
  let w := fw_loop fx d target (length blocks) start (mkwst (loc d) None 0 0 0 []) in
  let hs :=
    if can_punch (wfile w) (wfidx w) (snapix d) (punch d)
    then wholes w ++ [(match wfile w with Some f => f | None => 0 end, woff w, wlen w)]
    else wholes w in
  (set_loc (set_fl d (fupd (fl d) target head')) (wl w), hs).

(** copy(readBuf[o:], buf) *)
Definition splice (old : blockdata) (o : nat) (buf : list N) : blockdata :=
  firstn o old ++ buf ++ skipn (o + length buf) old.

(** diffDisk.readModifyWrite (offsets in units) *)
Definition rmw (fx : bool) (K : nat) (d : dd) (buf : list N) (off : nat) : dd * list hole :=
  match buf with
  | [] => (d, [])
  | _ =>
      let b := off / K in
      let '(blks, d1) := full_read K d 1 b in
      let rb := match blks with v :: _ => v | [] => zeros K end in
      full_write fx d1 b [splice rb (off mod K) buf]
  end.

Fixpoint chunks (K n : nat) (l : list N) : list blockdata :=
  match n with
  | 0 => []
  | S n' => firstn K l :: chunks K n' (skipn K l)
  end.

(** diffDisk.WriteAt: the three-way split.  Offsets and lengths in units. *)
Definition write_at (fx : bool) (K : nat) (d : dd) (data : list N) (off : nat) : dd * list hole :=
  let len := length data in
  let so := off mod K in
  let sc := K - so in
  let eo := (len + off) mod K in
  if len =? 0 then (d, [])
  else if (so =? 0) && (eo =? 0) then full_write fx d (off / K) (chunks K (len / K) data)
  else if len <=? sc then rmw fx K d data off
  else
    let '(d1, h1) := rmw fx K d (firstn sc data) off in
    let mid := firstn (len - eo - sc) (skipn sc data) in
    let '(d2, h2) := full_write fx d1 ((off + sc) / K) (chunks K (length mid / K) mid) in
    let '(d3, h3) := rmw fx K d2 (skipn (len - eo) data) (off + len - eo) in
    (d3, h1 ++ h2 ++ h3).

(** diffDisk.ReadAt: the covering blocks are read one by one, the result is the requested slice *)
Definition read_at (K : nat) (d : dd) (off len : nat) : list N * dd :=
  match len with
  | 0 => ([], d)
  | _ =>
      let b0 := off / K in
      let b1 := (off + len - 1) / K in
      let '(blks, d1) := full_read K d (S (b1 - b0)) b0 in
      (firstn len (skipn (off mod K) (concat blks)), d1)
  end.

(** ** ReadAt while the descriptor of chain file [i] is unusable (every pread on d.files[i] fails; FIEMAP
    and every other file still work).  fullReadAt groups consecutive blocks with the same target into runs
    and reads run by run: the first run served from file [i] fails and fullReadAt returns `count, err`
    at that point, having looked up (and memoised) the blocks up to the one that ended the run.  A block
    whose target is 0 is not read at all.  Returns (failed, state); [i] = 0 means "no fault".  A lookup
    reads and writes only location[b], so the order of lookups does not matter for the targets. *)
Definition hit (i t : nat) : bool := negb (i =? 0) && (t =? i).

(** the loop `for i := 1; i < sectors; i++` of fullReadAt; [target] is the file of the run being collected *)
Fixpoint fr_loop (d : dd) (i target cnt b : nat) : bool * dd :=
  match cnt with
  | 0 => (hit i target, d)                                   (* the last run, read after the loop *)
  | S c =>
      let '(nt, l) := lookup d b in
      let d1 := set_loc d l in
      if nt =? target then fr_loop d1 i target c (S b)        (* readSectors++ *)
      else if hit i target then (true, d1)                    (* d.read of the finished run: return count, err *)
      else fr_loop d1 i nt c (S b)
  end.

Definition full_read_fault (d : dd) (i cnt b : nat) : bool * dd :=
  match cnt with
  | 0 => (false, d)                                           (* len(buf) == 0 *)
  | S c => let '(t, l) := lookup d b in fr_loop (set_loc d l) i t c (S b)
  end.

(** diffDisk.ReadAt: aligned requests are one fullReadAt; otherwise the first block, the aligned middle
    and the last block are read by separate fullReadAt calls, each error returned at once *)
Definition read_at_fault (K : nat) (d : dd) (off len i : nat) : bool * dd :=
  let so := off mod K in
  let sc := K - so in
  let eo := (len + off) mod K in
  if len =? 0 then (false, d)
  else if (so =? 0) && (eo =? 0) then full_read_fault d i (len / K) (off / K)
  else
    let '(f1, d1) := full_read_fault d i 1 (off / K) in
    if f1 then (true, d1)
    else if len <=? sc then (false, d1)
    else
      let '(f2, d2) := full_read_fault d1 i ((len - eo - sc) / K) ((off + sc) / K) in
      if f2 then (true, d2)
      else if eo =? 0 then (false, d2)
      else full_read_fault d2 i 1 ((off + len - eo) / K).

(** ** backup.go preload *)
Record pst := mkpst {
  pl     : nat -> nat;
  pfile  : option nat;
  pfidx  : nat;
  plen   : nat;
  poff   : nat;
  pholes : list hole
}.

Definition same_file (cur : nat) (file : option nat) : bool :=
  match file with Some f => cur =? f | None => false end.

(** body of [for offset := range generator.Generate()] for one offset that has an extent in file i *)
Definition pre_block (d : dd) (i ucsi : nat) (p : pst) (b : nat) : pst :=
  match fl d i b with
  | None => p
  | Some _ =>
      let cur := pl p b in
      if cur =? 0 then mkpst (fupd (pl p) b i) (pfile p) (pfidx p) (plen p) (poff p) (pholes p)
      else if negb (same_file cur (pfile p)) || negb (b =? poff p + plen p) then
        let hs :=
          if can_punch (pfile p) (pfidx p) ucsi (punch d)
          then pholes p ++ [(match pfile p with Some f => f | None => 0 end, poff p, plen p)]
          else pholes p in
        mkpst (fupd (pl p) b i) (Some cur) cur 1 b hs
      else mkpst (fupd (pl p) b i) (pfile p) (pfidx p) (S (plen p)) (poff p) (pholes p)
  end.

Fixpoint pre_blocks (d : dd) (i ucsi : nat) (cnt b : nat) (p : pst) : pst :=
  match cnt with
  | 0 => p
  | S c => pre_blocks d i ucsi c (S b) (pre_block d i ucsi p b)
  end.

(** one iteration of [for i, f := range d.files] (i >= 1) *)
Definition pre_file (d : dd) (i : nat) (st : nat * pst) : nat * pst :=
  let '(ucsi0, p) := st in
  let ucsi := if ucs d i then i else ucsi0 in
  let p1 := pre_blocks d i ucsi (nblk d) 0 p in
  let hs :=
    if can_punch (pfile p1) (pfidx p1) ucsi (punch d)
    then pholes p1 ++ [(match pfile p1 with Some f => f | None => 0 end, poff p1, plen p1)]
    else pholes p1 in
  (ucsi, mkpst (pl p1) None 0 (plen p1) (poff p1) hs).

Fixpoint pre_files (d : dd) (cnt i : nat) (st : nat * pst) : nat * pst :=
  match cnt with
  | 0 => st
  | S c => pre_files d c (S i) (pre_file d i st)
  end.

(** preload(d) starting from the location table [l0]; returns the new table and the holes sent *)
Definition preload_from (d : dd) (l0 : nat -> nat) : (nat -> nat) * list hole :=
  let '(_, p) := pre_files d (nf d) 1 (0, mkpst l0 None 0 0 0 []) in
  (pl p, pholes p).

Definition preload (d : dd) : dd * list hole :=
  let '(l, hs) := preload_from d (loc d) in (set_loc d l, hs).

(** ** openLiveChain + construct: what a freshly opened Replica looks like *)
Fixpoint last_true (u : nat -> bool) (n dflt : nat) : nat :=
  match n with
  | 0 => if u 0 then 0 else dflt
  | S n' => if u (S n') then S n' else last_true u n' dflt
  end.

Definition aligned_ucs (d : dd) : nat -> bool :=
  fun k => (1 <=? k) && (k <=? nf d) && usr d k.

Definition reopen (d : dd) (pre : bool) : dd * list hole :=
  let u := aligned_ucs d in
  let d1 := mkdd (nf d) (fl d) (nm d) (usr d) (rmd d) u (last_true u (nf d) 0)
                 (fun _ => 0) (nblk d) (punch d) in
  if pre then preload d1 else (d1, []).

(** ** createDisk (Snapshot) *)
Definition max_chain : nat := 1024.

Fixpoint find_name (d : dd) (name : N) (i : nat) : nat :=      (* largest index <= i with that name, 0 = none *)
  match i with
  | 0 => 0
  | S i' => if N.eqb (nm d i) name then i else find_name d name i'
  end.

Definition snapshot (d : dd) (name : N) (user : bool) : dd * res :=
  if N.eqb name 0 || negb (find_name d name (nf d) =? 0) then (d, RErr)   (* name clash: not modelled *)
  else if max_chain <? nf d + 2 then (d, RErr)                             (* "Too many active disks" *)
  else
    let h := nf d in
    (mkdd (S h)
          (fupd (fl d) (S h) fempty)
          (fupd (fupd (nm d) h name) (S h) 0%N)
          (fupd (fupd (usr d) h user) (S h) false)
          (fupd (fupd (rmd d) h false) (S h) false)
          (fupd (ucs d) (S h) user)                       (* appended at the NEW HEAD's index *)
          (if user then h else snapix d)                   (* len(files) - 2 *)
          (loc d) (nblk d) (punch d), ROk).

(** ** PrepareRemoveDisk *)
Definition prep_remove (d : dd) (name : N) : dd * res :=
  let i := find_name d name (nf d) in
  if i =? 0 then (d, ROk)                         (* unknown disk: (nil, nil) *)
  else if i =? nf d then (d, RErr)                (* the active differencing disk *)
  else if S i =? nf d then (d, RErr)              (* r.info.Parent == disk: latest snapshot *)
  else if i =? 1 then (d, RErr)                   (* data.Parent == "": base snapshot *)
  else (mkdd (nf d) (fl d) (nm d) (usr d) (fupd (rmd d) i true) (ucs d) (snapix d) (loc d) (nblk d)
             (punch d), ROk).

(** ** sparse.FoldFile(child, parent): the child's extents overlay the parent *)
Definition fold_into (child parent : file) : file :=
  fun b => match child b with Some v => Some v | None => parent b end.

Definition coalesce_ix (d : dd) (src dst : nat) : dd :=
  set_fl d (fupd (fl d) dst (fold_into (fl d src) (fl d dst))).

Definition coalesce (d : dd) (src dst : N) : dd * res :=
  let i := find_name d src (nf d) in
  let j := find_name d dst (nf d) in
  if (i =? 0) || (j =? 0) then (d, RErr) else (coalesce_ix d i j, ROk).

(** ** RemoveDiffDisk -> removeDiskNode -> diffDisk.RemoveIndex *)
Definition shift_out {A : Type} (f : nat -> A) (i : nat) : nat -> A :=
  fun k => if k <? i then f k else f (S k).

Definition remove_index (d : dd) (i : nat) : dd :=
  let u := shift_out (ucs d) i in
  mkdd (nf d - 1) (shift_out (fl d) i) (shift_out (nm d) i) (shift_out (usr d) i) (shift_out (rmd d) i)
       u (last_true u (nf d - 1) (snapix d))
       (fun b => if i <=? loc d b then loc d b - 1 else loc d b)
       (nblk d) (punch d).

(** [g] = true adds the test for the base snapshot that the code does not have (S7) *)
Definition remove_g (g : bool) (d : dd) (name : N) : dd * res :=
  let i := find_name d name (nf d) in
  if i =? 0 then (d, ROk)                         (* removeDiskNode: "Disk doesn't exist in list" *)
  else if i =? nf d then (d, RErr)                (* head *)
  else if S i =? nf d then (d, RErr)              (* latest snapshot *)
  else if g && (i =? 1) then (d, RErr)            (* base snapshot: NOT in the code as it is *)
  else (remove_index d i, ROk).

Definition remove := remove_g s7_guard.

(** the cleaner's / sync agent's deletion flow: PrepareRemoveDisk, then the returned actions
    coalesce(disk -> parent) and remove(disk) *)
Definition delete (d : dd) (name : N) : dd * res :=
  let '(d1, r) := prep_remove d name in
  match r with
  | RErr => (d, RErr)
  | ROk =>
      let i := find_name d name (nf d) in
      if i =? 0 then (d, ROk)
      else remove (coalesce_ix d1 i (i - 1)) name
  end.

(** ** revertDisk: new head on top of the snapshot, old head unlinked, Reload(true) *)
Definition revert (d : dd) (name : N) : dd * list hole * res :=
  let i := find_name d name (nf d) in
  if (i =? 0) || (i =? nf d) then (d, [], RErr)
  else
    let d1 := mkdd (S i) (fupd (fl d) (S i) fempty) (fupd (nm d) (S i) 0%N) (fupd (usr d) (S i) false)
                   (fupd (rmd d) (S i) false) (ucs d) (snapix d) (loc d) (nblk d) (punch d) in
    let '(d2, hs) := reopen d1 true in
    (d2, hs, ROk).

(** ** Replica.Resize (sizes in blocks) *)
Definition resize (d : dd) (nb : nat) : dd * res :=
  if nb <? nblk d then (d, RErr)                  (* r.info.Size > sizeInBytes *)
  else (mkdd (nf d) (fl d) (nm d) (usr d) (rmd d) (ucs d) (snapix d)
             (fun b => if b <? nblk d then loc d b else 0) nb (punch d), ROk).

(** ** Server.UpdateLUNMap *)
Record ust := mkust {
  ul : nat -> nat;        (* s.r.volume.location *)
  uhl : nat;              (* holeLength *)
  uho : nat;              (* holeOffset *)
  uprev : nat;            (* prevHoleFileIndx *)
  uholes : list hole
}.

Definition lun_emit (d : dd) (ucsi : nat) (u : ust) : list hole :=
  if (ucsi <? uprev u) && punch d && negb (uprev u =? 0)
  then uholes u ++ [(uprev u, uho u, uhl u)] else uholes u.

Definition lun_step (d : dd) (pre : nat -> nat) (ucsi : nat) (u : ust) (b : nat) : ust :=
  let fi := pre b in
  if fi =? 0 then u
  else if fi <? ul u b then
    if negb (uprev u =? fi) || negb (b =? uho u + uhl u)
    then mkust (ul u) 1 b fi (lun_emit d ucsi u)
    else mkust (ul u) (S (uhl u)) (uho u) (uprev u) (uholes u)
  else mkust (fupd (ul u) b fi) 0 0 0 (lun_emit d ucsi u).

Fixpoint lun_loop (d : dd) (pre : nat -> nat) (ucsi : nat) (cnt b : nat) (u : ust) : ust :=
  match cnt with
  | 0 => u
  | S c => lun_loop d pre ucsi c (S b) (lun_step d pre ucsi u b)
  end.

Definition update_lun_map (d : dd) : dd * list hole :=
  let '(pre, h1) := preload_from d (fun _ => 0) in
  let ucsi := last_true (ucs d) (nf d) 0 in
  let u := lun_loop d pre ucsi (nblk d) 0 (mkust (loc d) 0 0 0 []) in
  (set_loc d (ul u), h1 ++ lun_emit d ucsi u).

(** ** sync.GetDeleteCandidateChain (without the ordering by allocated size) *)
Definition retained_user (d : dd) (i : nat) : bool := usr d i && negb (rmd d i).

Fixpoint cand_range (d : dd) (cnt i : nat) : list N :=          (* members i, i+1, ... (cnt of them) *)
  match cnt with
  | 0 => []
  | S c =>
      if retained_user d i || ((2 <=? i) && retained_user d (i - 1))
      then cand_range d c (S i)
      else nm d i :: cand_range d c (S i)
  end.

Definition candidates (d : dd) (checkpoint : option N) : list N :=
  match checkpoint with
  | None => []
  | Some cp =>
      if nf d <=? 3 then []
      else
        let c := find_name d cp (nf d) in           (* indx + 1 *)
        if c <=? 2 then []                          (* not found, base, or the snapshot above base *)
        else cand_range d (c - 2) 2                  (* replicaChain[1:indx] = members 2 .. c-1 *)
  end.

(** ** one pass of the loop body of sync.InternalSnapshotCleaner (checkpoint known and equal on both
    sides, SnapshotRetentionCount = 1).  [victim] is sortedSnapshotList[0] as the implementation chose it
    (the order by allocated size is not modelled): it is acted on only if it is one of the candidates.
    PrepareRemoveDisk(victim) returns the actions [coalesce victim -> parent; remove victim]; the
    coalesce is executed by the replica's sync agent and may fail ([fail]): the action loop is left, the
    remove action does not run, the snapshot stays in the chain (marked Removed by PrepareRemoveDisk).
    Without a failure this is [delete].  The result says whether the coalesce was answered with a failure. *)
Definition clean (d : dd) (cp : option N) (victim : N) (fail : bool) : dd * res :=
  if negb (existsb (N.eqb victim) (candidates d cp)) then (d, ROk)
  else if fail then
    let '(d1, r) := prep_remove d victim in
    match r with
    | RErr => (d, ROk)                                        (* "PrepareRemoveDisk failed": next tick *)
    | ROk => if find_name d victim (nf d) =? 0 then (d, ROk) else (d1, RErr)
    end
  else let '(d1, _) := delete d victim in (d1, ROk).

(** ** diffDisk.Unmap(offset, length): fallocate(PUNCH_HOLE | KEEP_SIZE) over the byte range on every chain
    file whose index is above SnapIndx (`if indx <= d.SnapIndx || file == nil { continue }`), synchronously.
    The file system removes the blocks that lie completely inside the range and zeroes the covered part of a
    partially covered block that has an extent.  d.location is NOT touched: an entry may afterwards point to a
    file that has no extent there (the read then returns zeros from the hole, until the table is rebuilt). *)
Definition zero_range (v : blockdata) (lo hi : nat) : blockdata :=
  firstn lo v ++ repeat 0%N (hi - lo) ++ skipn hi v.

Definition unmap_file (K : nat) (f : file) (off len : nat) : file :=
  fun b =>
    let s := b * K in
    let e := S b * K in
    if (off + len <=? s) || (e <=? off) then f b
    else if (off <=? s) && (e <=? off + len) then None
    else match f b with
         | None => None
         | Some v => Some (zero_range v (Nat.max off s - s) (Nat.min (off + len) e - s))
         end.

Definition unmap (K : nat) (d : dd) (off len : nat) : dd :=
  set_fl d (fun i => if (snapix d <? i) && (i <=? nf d) then unmap_file K (fl d i) off len else fl d i).

(** ** operations and the step function *)
Inductive op :=
| Write (off : nat) (data : list N)
| Read (off len : nat)
| Snap (name : N) (user : bool)
| PrepRemove (name : N)
| Coalesce (src dst : N)
| Remove (name : N)
| Delete (name : N)
| Revert (name : N)
| Reopen (preload : bool)          (* Server.Close; SetPreload; Server.Open *)
| Reload (preload : bool)          (* SetPreload; Server.Reload -- turns hole punching on *)
| SetPunch (b : bool)
| Resize (nb : nat)
| UpdateLunMap
| Candidates (checkpoint : option N)
| ReadFault (off len i : nat)       (* Read while every pread on chain file i fails *)
| Clean (checkpoint : option N) (victim : N) (fail : bool)    (* one cleaner pass *)
| Unmap (off len : nat).           (* Server.Unmap, offsets in units *)

Record out := mkout { ores : res; odata : list N }.

Definition fin (d : dd) (hs : list hole) (ch : list bool) (r : res) (x : list N) : dd * out :=
  (set_fl d (apply_holes (fl d) hs ch), mkout r x).

Definition step (fx : bool) (K : nat) (d : dd) (o : op) (ch : list bool) : dd * out :=
  match o with
  | Write off data =>
      if nblk d * K <? off + length data then (d, mkout RErr [])
      else let '(d1, hs) := write_at fx K d data off in fin d1 hs ch ROk []
  | Read off len =>
      if nblk d * K <? off + len then (d, mkout RErr [])
      else let '(x, d1) := read_at K d off len in (d1, mkout ROk x)
  | Snap name user => let '(d1, r) := snapshot d name user in (d1, mkout r [])
  | PrepRemove name => let '(d1, r) := prep_remove d name in (d1, mkout r [])
  | Coalesce s t => let '(d1, r) := coalesce d s t in (d1, mkout r [])
  | Remove name => let '(d1, r) := remove d name in (d1, mkout r [])
  | Delete name => let '(d1, r) := delete d name in (d1, mkout r [])
  | Revert name => let '(d1, hs, r) := revert d name in fin d1 hs ch r []
  | Reopen pre => let '(d1, hs) := reopen d pre in fin d1 hs ch ROk []
  | Reload pre => let '(d1, hs) := reopen (set_punch d true) pre in fin d1 hs ch ROk []
  | SetPunch b => (set_punch d b, mkout ROk [])
  | Resize nb => let '(d1, r) := resize d nb in (d1, mkout r [])
  | UpdateLunMap => let '(d1, hs) := update_lun_map d in fin d1 hs ch ROk []
  | Candidates cp => (d, mkout ROk (candidates d cp))
  | ReadFault off len i =>
      if nblk d * K <? off + len then (d, mkout RErr [])
      else
        let '(failed, d1) := read_at_fault K d off len i in
        if failed then (d1, mkout RErr [])
        else (d1, mkout ROk (fst (read_at K d off len)))
  | Clean cp victim fail => let '(d1, r) := clean d cp victim fail in (d1, mkout r (candidates d cp))
  | Unmap off len =>
      if (len =? 0) || (nblk d * K <? off + len) then (d, mkout RErr [])    (* fallocate: EINVAL for length 0 *)
      else (unmap K d off len, mkout ROk [])
  end.

Fixpoint run (fx : bool) (K : nat) (d : dd) (h : list (op * list bool)) : dd * list out :=
  match h with
  | [] => (d, [])
  | (o, ch) :: h' =>
      let '(d1, x) := step fx K d o ch in
      let '(d2, xs) := run fx K d1 h' in
      (d2, x :: xs)
  end.

(** ** what a correct reader of the chain prefix 1..j sees at block b (used to state the theorems
    and to predict NewReadOnly images of snapshots) *)
Fixpoint top (fls : nat -> file) (j b : nat) : option blockdata :=
  match j with
  | 0 => None
  | S j' => match fls j b with Some v => Some v | None => top fls j' b end
  end.

Definition img (K : nat) (fls : nat -> file) (j b : nat) : blockdata :=
  match top fls j b with Some v => v | None => zeros K end.

Definition image (K : nat) (d : dd) (j : nat) : list N :=
  concat (map (img K (fl d) j) (seq 0 (nblk d))).
