(** * Block: ReadAt returns the live image; images as lists. *)
From Coq Require Import List Arith Bool NArith Lia.
From Jiva Require Import Block.Model Block.Lemmas Block.ProofsWrite Block.ProofsUnit.
Import ListNotations.

Lemma concat_uniform_length : forall K (blocks : list (list N)),
  (forall v, In v blocks -> length v = K) -> length (concat blocks) = length blocks * K.
Proof.
  intros K blocks Hl. induction blocks as [|v r IH]; [reflexivity|].
  cbn [concat length]. rewrite app_length, IH.
  - rewrite (Hl v) by (left; reflexivity). lia.
  - intros; apply Hl; right; assumption.
Qed.

(** the list image of a chain prefix, unit by unit *)
Lemma image_length : forall K d j, wf K d -> length (image K d j) = nblk d * K.
Proof.
  intros K d j W. unfold image. rewrite (concat_uniform_length K).
  - rewrite map_length, seq_length. reflexivity.
  - intros v Hin. apply in_map_iff in Hin. destruct Hin as (b & <- & _). now apply img_length.
Qed.

Lemma image_nth : forall K d j u, 0 < K -> wf K d -> u < nblk d * K ->
  nth u (image K d j) 0%N = uimg K (fl d) j u.
Proof.
  intros K d j u HK W Hu. unfold image, uimg.
  rewrite (nth_concat_uniform K) by (try assumption; intros v Hin; apply in_map_iff in Hin;
                                     destruct Hin as (b & <- & _); now apply img_length).
  f_equal.
  assert (Hq : u / K < nblk d) by (apply Nat.div_lt_upper_bound; lia).
  rewrite (nth_indep _ [] (img K (fl d) j 0)) by (rewrite map_length, seq_length; assumption).
  rewrite map_nth. f_equal. rewrite seq_nth by assumption. reflexivity.
Qed.

Lemma list_eq_nth : forall (a b : list N), length a = length b ->
  (forall u, u < length a -> nth u a 0%N = nth u b 0%N) -> a = b.
Proof. intros a b Hl H. apply (nth_ext a b 0%N 0%N); assumption. Qed.

(** ReadAt *)
Theorem read_at_spec : forall K d off len, 0 < K -> wf K d -> off + len <= nblk d * K ->
  let '(x, d') := read_at K d off len in
  x = map (uimg K (fl d) (nf d)) (seq off len) /\ memo d d'.
Proof.
  intros K d off len HK W Hr. unfold read_at. destruct len as [|len'].
  - split; [reflexivity| apply memo_refl; apply W].
  - set (len := S len') in *.
    set (b0 := off / K). set (b1 := (off + len - 1) / K).
    pose proof (Nat.div_mod off K ltac:(lia)) as Hdm. pose proof (Nat.mod_upper_bound off K ltac:(lia)) as Hmo.
    pose proof (Nat.div_mod (off + len - 1) K ltac:(lia)) as Hdm1.
    pose proof (Nat.mod_upper_bound (off + len - 1) K ltac:(lia)) as Hmo1.
    fold b0 in Hdm. fold b1 in Hdm1.
    assert (Hb01 : b0 <= b1) by (apply Nat.div_le_mono; lia).
    assert (Hb1 : b1 < nblk d) by (apply Nat.div_lt_upper_bound; lia).
    pose proof (full_read_spec K (S (b1 - b0)) d b0 (wf_nf _ _ W) (wf_loc _ _ W) ltac:(lia)) as HR.
    destruct (full_read K d (S (b1 - b0)) b0) as [blks d']. destruct HR as (Hblks & Hm).
    split; [|assumption].
    assert (Hbl : forall v, In v blks -> length v = K).
    { intros v Hin. subst blks. apply in_map_iff in Hin. destruct Hin as (b & <- & _). now apply img_length. }
    assert (Hcl : length (concat blks) = S (b1 - b0) * K).
    { rewrite (concat_uniform_length K) by assumption. subst blks. now rewrite map_length, seq_length. }
    apply list_eq_nth.
    + rewrite firstn_length, skipn_length, map_length, seq_length, Hcl. nia.
    + intros u Hu. rewrite firstn_length, skipn_length, Hcl in Hu.
      assert (Hul : u < len) by lia.
      rewrite nth_firstn_lt by assumption. rewrite nth_skipn_add.
      rewrite (nth_indep (map (uimg K (fl d) (nf d)) (seq off len)) 0%N (uimg K (fl d) (nf d) 0))
        by (rewrite map_length, seq_length; assumption).
      rewrite map_nth, seq_nth by assumption.
      rewrite (nth_concat_uniform K) by assumption.
      unfold uimg.
      assert (E : off + u = (off mod K + u) + b0 * K) by lia.
      rewrite E. rewrite Nat.div_add, Nat.mod_add by lia. f_equal.
      subst blks.
      assert (Hq : (off mod K + u) / K < S (b1 - b0)).
      { apply Nat.div_lt_upper_bound; [lia|]. nia. }
      rewrite (nth_indep _ [] (img K (fl d) (nf d) 0)) by (rewrite map_length, seq_length; assumption).
      rewrite map_nth, seq_nth by assumption. f_equal. lia.
Qed.

(** the harness's full-volume read returns the live image *)
Lemma read_whole : forall K d, 0 < K -> wf K d ->
  let '(x, d') := read_at K d 0 (nblk d * K) in x = image K d (nf d) /\ memo d d'.
Proof.
  intros K d HK W.
  pose proof (read_at_spec K d 0 (nblk d * K) HK W ltac:(lia)) as H.
  destruct (read_at K d 0 (nblk d * K)) as [x d']. destruct H as (Hx & Hm). split; [|assumption].
  subst x. apply list_eq_nth.
  - rewrite map_length, seq_length, image_length by assumption. reflexivity.
  - intros u Hu. rewrite map_length, seq_length in Hu.
    rewrite (nth_indep (map (uimg K (fl d) (nf d)) (seq 0 (nblk d * K))) 0%N (uimg K (fl d) (nf d) 0))
      by (rewrite map_length, seq_length; assumption).
    rewrite map_nth, seq_nth by assumption. rewrite image_nth by assumption. reflexivity.
Qed.

(** images depend only on the files and the size *)
Lemma image_ext : forall K d d' j, nblk d' = nblk d ->
  (forall b, top (fl d') j b = top (fl d) j b) -> image K d' j = image K d j.
Proof.
  intros K d d' j En H. unfold image. rewrite En. f_equal. apply map_ext. intros b. unfold img. now rewrite H.
Qed.

(** ** reads under an injected fault: whatever happens, only location entries are memoised *)
Lemma lookup_memo : forall d b, 1 <= nf d -> loc_ok d ->
  let '(t, l) := lookup d b in memo d (set_loc d l).
Proof.
  intros d b Hnf Hok.
  destruct (Nat.lt_ge_cases b (nblk d)) as [Hb|Hb].
  - pose proof (lookup_spec 1 d b Hnf Hok Hb) as HL.
    destruct (lookup d b) as [t l]. destruct HL as (_ & Hok1 & Hl1 & Hl2).
    repeat split; auto. intros x. destruct (Nat.eq_dec x b) as [->|Hx]; [exact Hl2| left; now apply Hl1].
  - unfold lookup. destruct (Nat.leb_spec (nblk d) b); [|lia].
    destruct d; apply memo_refl; exact Hok.
Qed.

Lemma memo_pre : forall d d', memo d d' -> 1 <= nf d -> 1 <= nf d' /\ loc_ok d'.
Proof. intros d d' (E1&_&_&_&_&_&_&_&_&_&H) Hnf. split; [lia|exact H]. Qed.

Lemma fr_loop_memo : forall i cnt d target b, 1 <= nf d -> loc_ok d ->
  memo d (snd (fr_loop d i target cnt b)).
Proof.
  intros i cnt. induction cnt as [|cnt IH]; intros d target b Hnf Hok; cbn [fr_loop].
  - cbn [snd]. now apply memo_refl.
  - pose proof (lookup_memo d b Hnf Hok) as HL. destruct (lookup d b) as [nt l].
    destruct (memo_pre _ _ HL Hnf) as (Hnf1 & Hok1).
    destruct (nt =? target).
    + eapply memo_trans; [exact HL|]. now apply IH.
    + destruct (hit i target); [exact HL|].
      eapply memo_trans; [exact HL|]. now apply IH.
Qed.

Lemma full_read_fault_memo : forall d i cnt b, 1 <= nf d -> loc_ok d ->
  memo d (snd (full_read_fault d i cnt b)).
Proof.
  intros d i cnt b Hnf Hok. destruct cnt as [|cnt]; cbn [full_read_fault].
  - cbn [snd]. now apply memo_refl.
  - pose proof (lookup_memo d b Hnf Hok) as HL. destruct (lookup d b) as [t l].
    destruct (memo_pre _ _ HL Hnf) as (Hnf1 & Hok1).
    eapply memo_trans; [exact HL|]. now apply fr_loop_memo.
Qed.

Theorem read_at_fault_memo : forall K d off len i, 1 <= nf d -> loc_ok d ->
  memo d (snd (read_at_fault K d off len i)).
Proof.
  intros K d off len i Hnf Hok. unfold read_at_fault.
  destruct (len =? 0); [now apply memo_refl|].
  destruct ((off mod K =? 0) && ((len + off) mod K =? 0)); [now apply full_read_fault_memo|].
  pose proof (full_read_fault_memo d i 1 (off / K) Hnf Hok) as M1.
  destruct (full_read_fault d i 1 (off / K)) as [f1 d1]. cbn [snd] in M1.
  destruct f1; [exact M1|].
  destruct (len <=? K - off mod K); [exact M1|].
  destruct (memo_pre _ _ M1 Hnf) as (Hnf1 & Hok1).
  pose proof (full_read_fault_memo d1 i ((len - (len + off) mod K - (K - off mod K)) / K) ((off + (K - off mod K)) / K) Hnf1 Hok1) as M2.
  destruct (full_read_fault d1 i ((len - (len + off) mod K - (K - off mod K)) / K) ((off + (K - off mod K)) / K)) as [f2 d2].
  cbn [snd] in M2.
  destruct f2; [eapply memo_trans; eassumption|].
  destruct ((len + off) mod K =? 0); [eapply memo_trans; eassumption|].
  destruct (memo_pre _ _ M2 Hnf1) as (Hnf2 & Hok2).
  eapply memo_trans; [exact M1|]. eapply memo_trans; [exact M2|]. now apply full_read_fault_memo.
Qed.
