(** * Rebuild: lemmas about one replica under ASYNCHRONOUS hole punching and under UpdateLUNMap in phases.

    Block.ProofsPreload treats preload / UpdateLUNMap as atomic and applies holes at the end of the
    operation that sent them.  Here a hole may be applied at any later time, between any two steps of
    the preload that UpdateLUNMap runs on its copy, with foreground writes in between.  What keeps the
    images intact is a property of every QUEUED hole that is stable under everything that can happen
    before it is applied: [hole_cov]. *)
From Coq Require Import List Arith Bool NArith Lia.
From Jiva Require Import Block.Model Block.Lemmas Block.ProofsWrite Block.ProofsUnit Block.ProofsRead
     Block.ProofsOps Block.ProofsPreload Block.Rebuild.
Import ListNotations.

(** ** generic *)
Lemma top_split : forall f g c J b, c <= J -> (forall i, c < i <= J -> f i b = g i b) ->
  top f c b = top g c b -> top f J b = top g J b.
Proof.
  intros f g c J b Hc. induction J as [|J IH]; intros Heq Hlow.
  - assert (c = 0) by lia. subst. exact Hlow.
  - destruct (Nat.eq_dec c (S J)) as [->|Hne]; [exact Hlow|].
    rewrite !top_S. rewrite <- (Heq (S J)) by lia.
    destruct (f (S J) b); [reflexivity|]. apply IH; [lia| |assumption]. intros i Hi. apply Heq. lia.
Qed.

Lemma top_head_none : forall fls n b, fls (S n) b = None -> top fls (S n) b = top fls n b.
Proof. intros fls n b H. rewrite top_S, H. reflexivity. Qed.

Lemma In_drop_nth : forall A (l : list A) k x, In x (drop_nth k l) -> In x l.
Proof.
  induction l as [|y l IH]; intros k x H; [destruct k; exact H|].
  destruct k as [|k]; cbn in H; [right; exact H|].
  destruct H as [->|H]; [left; reflexivity|right; eapply IH; eauto].
Qed.

Lemma nth_error_In' : forall A (l : list A) k x, nth_error l k = Some x -> In x l.
Proof. intros. eapply nth_error_In; eauto. Qed.

(** one hole applied *)
Definition apply1 (d : dd) (h : hole) : dd := set_fl d (apply_hole (fl d) h).

Lemma apply1_punched : forall d h, apply1 d h = punched d [h] [true].
Proof. reflexivity. Qed.

Lemma apply1_meta : forall d h, same_meta d (apply1 d h).
Proof. intros; repeat split. Qed.

Lemma apply1_cases : forall d h f b,
  fl (apply1 d h) f b = fl d f b \/ (fl (apply1 d h) f b = None /\ covers h f b).
Proof. intros. apply apply_hole_cases. Qed.

Lemma take_hole_cases : forall d pend k a d1 p1, take_hole d pend k a = (d1, p1) ->
  (d1 = d /\ (forall h, In h p1 -> In h pend)) \/
  (exists h, In h pend /\ d1 = apply1 d h /\ (forall x, In x p1 -> In x pend)).
Proof.
  intros d pend k a d1 p1 H. unfold take_hole in H.
  destruct (nth_error pend k) as [h|] eqn:E.
  - inversion H; subst. destruct a.
    + right. exists h. split; [eapply nth_error_In'; eauto|]. split; [reflexivity|].
      intros x Hx. eapply In_drop_nth; eauto.
    + left. split; [reflexivity|]. intros x Hx. eapply In_drop_nth; eauto.
  - inversion H; subst. left. auto.
Qed.

(** ** holes whose every block stays shadowed, whatever happens until they are applied *)
(** block [y] of file [f] is covered: a file above it has an extent there, and no prefix that has to
    be preserved ends in between *)
Definition blkcov (d : dd) (f y : nat) : Prop :=
  exists i, f < i <= nf d /\ fl d i y <> None /\ forall J, f <= J < i -> ~ keeps d J.

Definition hole_cov (d : dd) (h : hole) : Prop :=
  let '(f, s, l) := h in 1 <= f /\ forall y, s <= y < s + l -> blkcov d f y.

Definition pend_cov (d : dd) (hs : list hole) : Prop := forall h, In h hs -> hole_cov d h.

Lemma pend_cov_app : forall d a b, pend_cov d a -> pend_cov d b -> pend_cov d (a ++ b).
Proof. intros d a b Ha Hb h Hin. apply in_app_or in Hin. destruct Hin; auto. Qed.

Lemma pend_cov_nil : forall d, pend_cov d [].
Proof. intros d h []. Qed.

(** applying a covered hole keeps every prefix that has to be preserved *)
Lemma apply1_top : forall d h J b, hole_cov d h -> keeps d J ->
  top (fl (apply1 d h)) J b = top (fl d) J b.
Proof.
  intros d [[f s] l] J b (Hf & Hc) HK. apply punch_safe.
  - intros k. destruct (apply1_cases d (f, s, l) k b) as [H|[H _]]; auto.
  - intros k Hk Hne. destruct (apply1_cases d (f, s, l) k b) as [H|[_ (-> & Hb)]]; [contradiction|].
    destruct (Hc b Hb) as (i & Hi & Hext & Hno). exists i. split; [|assumption].
    destruct (Nat.le_gt_cases i J); [lia|]. exfalso. apply (Hno J); [lia|assumption].
Qed.

Lemma keeps_same : forall d d', nf d' = nf d -> ucs d' = ucs d -> forall J, keeps d' J <-> keeps d J.
Proof. intros d d' E1 E2 J. unfold keeps. rewrite E1, E2. tauto. Qed.

(** [blkcov] survives the application of another covered hole: the witness moves up *)
Lemma blkcov_apply1 : forall d h f y, hole_cov d h -> blkcov d f y -> blkcov (apply1 d h) f y.
Proof.
  intros d [[g s] l] f y (Hg & Hc) (i & Hi & Hext & Hno).
  destruct (apply1_cases d (g, s, l) i y) as [H|[_ (-> & Hy)]].
  - exists i. split; [exact Hi|]. split; [rewrite H; exact Hext|]. exact Hno.
  - destruct (Hc y Hy) as (i' & Hi' & Hext' & Hno').
    exists i'. split; [cbn [apply1 nf set_fl]; lia|]. split.
    + destruct (apply1_cases d (i, s, l) i' y) as [H|[_ (E & _)]]; [rewrite H; exact Hext'|lia].
    + intros J HJ. destruct (Nat.lt_ge_cases J i); [apply Hno; lia|apply Hno'; lia].
Qed.

Lemma hole_cov_apply1 : forall d h h', hole_cov d h -> hole_cov d h' -> hole_cov (apply1 d h) h'.
Proof.
  intros d h [[f s] l] Hh (Hf & Hc). split; [assumption|]. intros y Hy. apply blkcov_apply1; auto.
Qed.

(** and anything that keeps the closed files, the shape and the flags, and only adds extents to the head *)
Definition grows (d d' : dd) : Prop :=
  nf d' = nf d /\ ucs d' = ucs d /\ (forall j b, j <> nf d -> fl d' j b = fl d j b) /\
  (forall b, fl d (nf d) b <> None -> fl d' (nf d) b <> None).

Lemma blkcov_grows : forall d d' f y, grows d d' -> blkcov d f y -> blkcov d' f y.
Proof.
  intros d d' f y (E1 & E2 & Ho & Hh) (i & Hi & Hext & Hno).
  exists i. split; [lia|]. split.
  - destruct (Nat.eq_dec i (nf d)) as [->|N]; [now apply Hh|rewrite Ho; assumption].
  - intros J HJ HK. apply (Hno J HJ). now apply (keeps_same d d' E1 E2).
Qed.

Lemma hole_cov_grows : forall d d' h, grows d d' -> hole_cov d h -> hole_cov d' h.
Proof.
  intros d d' [[f s] l] G (Hf & Hc). split; [assumption|]. intros y Hy. eapply blkcov_grows; eauto.
Qed.

Lemma stage_grows : forall K d d1 hs, stage K d d1 hs -> grows d d1.
Proof.
  intros K d d1 hs S. destruct (st_meta _ _ _ _ S) as (E1 & _ & _ & _ & E5 & _).
  split; [assumption|]. split; [assumption|]. split; [apply S|apply S].
Qed.

(** loc_ok survives a covered hole: a known entry is the topmost extent, a covered block is not *)
Lemma apply1_wf : forall K d h, wf K d -> hole_cov d h -> wf K (apply1 d h).
Proof.
  intros K d [[f s] l] W (Hf & Hc). constructor.
  - apply W.
  - intros b. cbn [loc nf apply1 set_fl].
    destruct (wf_loc _ _ W b) as [H0|(H1 & H2 & H3)]; [left; assumption|right].
    split; [assumption|]. split.
    + intros j Hj. destruct (apply1_cases d (f, s, l) j b) as [H|[H _]]; [rewrite H; now apply H2|exact H].
    + intros H. destruct (apply1_cases d (f, s, l) (loc d b) b) as [H'|[_ (E & Hb)]].
      * rewrite H'. now apply H3.
      * exfalso. destruct (Hc b Hb) as (i & Hi & Hext & _). apply Hext. apply H2. lia.
  - intros j b Hb. destruct (apply1_cases d (f, s, l) j b) as [H|[H _]]; [rewrite H; now apply W|exact H].
  - intros j b v Hv. destruct (apply1_cases d (f, s, l) j b) as [H|[H _]]; [rewrite H in Hv; eapply W; eauto|congruence].
Qed.

(** a covered hole never touches the head *)
Lemma apply1_head : forall d h b, hole_cov d h -> fl (apply1 d h) (nf d) b = fl d (nf d) b.
Proof.
  intros d [[f s] l] b (Hf & Hc).
  destruct (apply1_cases d (f, s, l) (nf d) b) as [H|[_ (E & Hb)]]; [assumption|].
  destruct (Hc b Hb) as (i & Hi & _). lia.
Qed.

(** ** the holes a write sends are covered (the flags say where the user-created snapshots are) *)
Definition ucs_le_snapix (d : dd) : Prop := forall k, k <= nf d -> ucs d k = true -> k <= snapix d.

Lemma sound_cov : forall d hs, ucs_le_snapix d -> hs_sound d hs -> pend_cov d hs.
Proof.
  intros d hs Hu Hs [[f s] l] Hin. destruct (Hs f s l Hin) as (A & B).
  split; [lia|]. intros y Hy. exists (nf d). split; [lia|]. split; [now apply B|].
  intros J HJ [E|(HJn & [F|F])]; [lia| |].
  - pose proof (Hu J ltac:(lia) F). lia.
  - pose proof (Hu (S J) ltac:(lia) F). lia.
Qed.

(** ** diffDisk.WriteAt as a plan of primitive steps (readModifyWrite / fullWriteAt) *)
Inductive prim := PR (buf : list N) (off : nat) | PF (start : nat) (blocks : list (list N)).

Definition plan (K : nat) (data : list N) (off : nat) : list prim :=
  let len := length data in
  let so := off mod K in
  let sc := K - so in
  let eo := (len + off) mod K in
  if len =? 0 then []
  else if (so =? 0) && (eo =? 0) then [PF (off / K) (chunks K (len / K) data)]
  else if len <=? sc then [PR data off]
  else
    let mid := firstn (len - eo - sc) (skipn sc data) in
    [PR (firstn sc data) off; PF ((off + sc) / K) (chunks K (length mid / K) mid);
     PR (skipn (len - eo) data) (off + len - eo)].

Definition exec_prim (K : nat) (d : dd) (p : prim) : dd * list hole :=
  match p with PR buf off => rmw true K d buf off | PF s bl => full_write true d s bl end.

Fixpoint exec_plan (K : nat) (d : dd) (ps : list prim) : dd * list hole :=
  match ps with
  | [] => (d, [])
  | p :: r => let '(d1, h1) := exec_prim K d p in let '(d2, h2) := exec_plan K d1 r in (d2, h1 ++ h2)
  end.

Lemma write_at_plan : forall K d data off, write_at true K d data off = exec_plan K d (plan K data off).
Proof.
  intros K d data off. unfold write_at, plan.
  destruct (length data =? 0); [reflexivity|].
  destruct ((off mod K =? 0) && ((length data + off) mod K =? 0)).
  { cbn [exec_plan exec_prim]. destruct (full_write true d _ _) as [d1 h1]. now rewrite app_nil_r. }
  destruct (length data <=? K - off mod K).
  { cbn [exec_plan exec_prim]. destruct (rmw true K d data off) as [d1 h1]. now rewrite app_nil_r. }
  cbn [exec_plan exec_prim].
  destruct (rmw true K d _ off) as [d1 h1].
  destruct (full_write true d1 _ _) as [d2 h2].
  destruct (rmw true K d2 _ _) as [d3 h3]. now rewrite app_nil_r.
Qed.

Definition prim_ok (K nb : nat) (p : prim) : Prop :=
  match p with
  | PR buf off => buf = [] \/ (off mod K + length buf <= K /\ off / K < nb)
  | PF s bl => s + length bl <= nb /\ forall v, In v bl -> length v = K
  end.

Lemma plan_ok : forall K nb data off, 0 < K -> off + length data <= nb * K ->
  Forall (prim_ok K nb) (plan K data off).
Proof.
  intros K nb data off HK Hrange. unfold plan.
  pose proof (Nat.div_mod off K ltac:(lia)) as Hdm. pose proof (Nat.mod_upper_bound off K ltac:(lia)) as Hmo.
  pose proof (Nat.div_mod (length data + off) K ltac:(lia)) as Hdm2.
  pose proof (Nat.mod_upper_bound (length data + off) K ltac:(lia)) as Hmo2.
  destruct (Nat.eqb_spec (length data) 0) as [E0|N0]; [constructor|].
  destruct ((off mod K =? 0) && ((length data + off) mod K =? 0)) eqn:Eal.
  { apply andb_true_iff in Eal. destruct Eal as [A1 A2]. apply Nat.eqb_eq in A1, A2.
    assert (Hlen : length data = length data / K * K).
    { assert ((length data) mod K = 0).
      { replace (length data) with ((length data + off) - off / K * K) by lia.
        destruct (divmod_shift K (length data + off) (off / K) HK ltac:(lia)) as (_ & B). rewrite B. assumption. }
      pose proof (Nat.div_mod (length data) K ltac:(lia)). lia. }
    constructor; [|constructor]. split.
    - rewrite chunks_length. nia.
    - intros v. apply chunks_len. lia. }
  destruct (Nat.leb_spec (length data) (K - off mod K)) as [Hsingle|Hmulti].
  { constructor; [|constructor]. right. split; [lia|]. apply Nat.div_lt_upper_bound; lia. }
  set (sc := K - off mod K) in *.
  set (eo := (length data + off) mod K) in *.
  set (mid := firstn (length data - eo - sc) (skipn sc data)).
  assert (Heo : eo + sc <= length data).
  { unfold eo, sc.
    assert (Hb : length data + off = (length data - (K - off mod K)) + (off / K + 1) * K) by lia.
    rewrite Hb. rewrite Nat.mod_add by lia.
    pose proof (Nat.mod_le (length data - (K - off mod K)) K ltac:(lia)). lia. }
  assert (HlenM : length mid = length data - eo - sc).
  { unfold mid. rewrite firstn_length, skipn_length. lia. }
  assert (Hmq : (off + sc) / K = off / K + 1).
  { assert (Hs : off + sc = (off / K + 1) * K) by (unfold sc; lia). rewrite Hs. apply Nat.div_mul; lia. }
  assert (Hmid : length mid = ((length data + off) / K - (off / K + 1)) * K).
  { rewrite HlenM. unfold eo, sc in *. nia. }
  assert (HlenMk : length mid / K = (length data + off) / K - (off / K + 1)).
  { rewrite Hmid. apply Nat.div_mul. lia. }
  constructor; [|constructor; [|constructor; [|constructor]]].
  - right. rewrite firstn_length. split; [lia|]. apply Nat.div_lt_upper_bound; lia.
  - split.
    + rewrite chunks_length, Hmq, HlenMk. nia.
    + intros v. apply chunks_len. rewrite HlenMk. lia.
  - destruct (Nat.eq_dec eo 0) as [Ez|Enz].
    + left. assert (Hl : length (skipn (length data - eo) data) = 0) by (rewrite skipn_length; lia).
      destruct (skipn (length data - eo) data); [reflexivity|cbn in Hl; lia].
    + right. rewrite skipn_length.
      assert (Hs : off + length data - eo = (length data + off) / K * K) by (unfold eo; lia).
      rewrite Hs. rewrite Nat.mod_mul, Nat.div_mul by lia. split; [lia|].
      apply Nat.div_lt_upper_bound; [lia|].
      assert (length data + off <> nb * K).
      { intro E. unfold eo in Enz. rewrite E, Nat.mod_mul in Enz by lia. lia. }
      lia.
Qed.

(** readModifyWrite is a memoising read followed by a one-block fullWriteAt *)
Lemma rmw_unfold : forall K d buf off, wf K d -> buf <> [] -> off / K < nblk d ->
  exists d', memo d d' /\
    rmw true K d buf off =
    full_write true d' (off / K) [splice (img K (fl d) (nf d) (off / K)) (off mod K) buf].
Proof.
  intros K d buf off W Hne Hb. unfold rmw. destruct buf as [|x buf']; [contradiction|].
  pose proof (full_read_spec K 1 d (off / K) (wf_nf _ _ W) (wf_loc _ _ W) ltac:(lia)) as HR.
  destruct (full_read K d 1 (off / K)) as [blks d']. destruct HR as (Hblks & Hm).
  cbn [seq map] in Hblks. subst blks. exists d'. split; [assumption|reflexivity].
Qed.

(** lifting a property of memoising reads and block-aligned writes to WriteAt *)
Lemma exec_plan_lift : forall K (Q : dd -> dd -> list hole -> Prop),
  (forall d, Q d d []) ->
  (forall d d1 d2 h1 h2, Q d d1 h1 -> Q d1 d2 h2 -> Q d d2 (h1 ++ h2)) ->
  (forall d d', wf K d -> memo d d' -> Q d d' []) ->
  (forall d s bl d1 h, wf K d -> s + length bl <= nblk d -> (forall v, In v bl -> length v = K) ->
                       fw_post d s bl d1 h -> Q d d1 h) ->
  forall ps d, 0 < K -> wf K d -> Forall (prim_ok K (nblk d)) ps ->
  let '(d1, h) := exec_plan K d ps in Q d d1 h /\ stage K d d1 h.
Proof.
  intros K Q Qrefl Qtrans Qmemo Qfw. induction ps as [|p ps IH]; intros d HK W Hok.
  - cbn. split; [apply Qrefl|now apply stage_refl].
  - inversion Hok as [|? ? Hp Hps]; subst. cbn [exec_plan].
    assert (Hstep : let '(d1, h1) := exec_prim K d p in Q d d1 h1 /\ stage K d d1 h1).
    { destruct p as [buf off|s bl]; cbn [exec_prim prim_ok] in *.
      - destruct Hp as [->|(Hfit & Hb)].
        + cbn. split; [apply Qrefl|now apply stage_refl].
        + destruct buf as [|x buf']; [cbn; split; [apply Qrefl|now apply stage_refl]|].
          set (buf := x :: buf') in *.
          destruct (rmw_unfold K d buf off W ltac:(discriminate) Hb) as (d' & Hm & E). rewrite E.
          pose proof (memo_wf K _ _ Hm W) as W'.
          pose proof Hm as (E1 & E2 & _ & _ & _ & _ & _ & E8 & _).
          set (nb := splice (img K (fl d) (nf d) (off / K)) (off mod K) buf).
          assert (Hnb : length nb = K).
          { unfold nb. rewrite length_splice; rewrite img_length by assumption; lia. }
          pose proof (full_write_spec d' (off / K) [nb] (wf_loc _ _ W')) as P.
          destruct (full_write true d' (off / K) [nb]) as [d1 hs].
          assert (Hl : forall v, In v [nb] -> length v = K) by (intros v [<-|[]]; assumption).
          assert (Hr : off / K + length [nb] <= nblk d') by (cbn [length]; lia).
          split.
          * replace hs with ([] ++ hs) by reflexivity. eapply Qtrans; [apply Qmemo; eassumption|].
            eapply Qfw; eauto.
          * replace hs with ([] ++ hs) by reflexivity.
            eapply stage_trans; [apply stage_memo; eassumption|]. eapply stage_fw; eauto.
      - destruct Hp as (Hr & Hl).
        pose proof (full_write_spec d s bl (wf_loc _ _ W)) as P.
        destruct (full_write true d s bl) as [d1 hs]. split; [eapply Qfw; eauto|eapply stage_fw; eauto]. }
    destruct (exec_prim K d p) as [d1 h1]. destruct Hstep as (Q1 & S1).
    assert (En : nblk d1 = nblk d) by (destruct (st_meta _ _ _ _ S1) as (_&_&_&_&_&_&E&_); exact E).
    specialize (IH d1 HK (st_wf _ _ _ _ S1)). rewrite En in IH. specialize (IH Hps).
    destruct (exec_plan K d1 ps) as [d2 h2]. destruct IH as (Q2 & S2).
    split; [eapply Qtrans; eauto|eapply stage_trans; eauto].
Qed.

Lemma write_at_lift : forall K (Q : dd -> dd -> list hole -> Prop),
  (forall d, Q d d []) ->
  (forall d d1 d2 h1 h2, Q d d1 h1 -> Q d1 d2 h2 -> Q d d2 (h1 ++ h2)) ->
  (forall d d', wf K d -> memo d d' -> Q d d' []) ->
  (forall d s bl d1 h, wf K d -> s + length bl <= nblk d -> (forall v, In v bl -> length v = K) ->
                       fw_post d s bl d1 h -> Q d d1 h) ->
  forall d data off, 0 < K -> wf K d -> off + length data <= nblk d * K ->
  let '(d1, h) := write_at true K d data off in Q d d1 h /\ stage K d d1 h.
Proof.
  intros K Q A B C D d data off HK W Hr. rewrite write_at_plan.
  apply (exec_plan_lift K Q A B C D); auto. now apply plan_ok.
Qed.

(** ** what a write does to the block map and to the head, block by block *)
Definition headed (d : dd) (y : nat) : Prop :=
  loc d y = nf d /\ loc d y <> 0 /\ fl d (nf d) y <> None.

(** every block either keeps its head entry (and its map entry, unless that was unknown), or is now
    known to live in the head; the blocks of the holes sent are of the second kind *)
Definition wrel (d d1 : dd) (hs : list hole) : Prop :=
  nf d1 = nf d /\
  (forall y, (fl d1 (nf d) y = fl d (nf d) y /\ (loc d1 y = loc d y \/ loc d y = 0)) \/ headed d1 y) /\
  (forall f s l, In (f, s, l) hs -> forall y, s <= y < s + l -> headed d1 y).

Lemma wrel_headed : forall d d1 hs y, wrel d d1 hs -> headed d y -> headed d1 y.
Proof.
  intros d d1 hs y (E & R & _) (A & B & C). destruct (R y) as [(F & [L|L])|H]; [| congruence |exact H].
  unfold headed. rewrite E, F, L. auto.
Qed.

Lemma write_at_wrel : forall K d data off, 0 < K -> wf K d -> off + length data <= nblk d * K ->
  let '(d1, h) := write_at true K d data off in wrel d d1 h /\ stage K d d1 h.
Proof.
  intros K d data off HK W Hr. apply (write_at_lift K wrel); auto.
  - intros d0. split; [reflexivity|]. split; [intros y; left; auto|intros f s l []].
  - intros d0 d1 d2 h1 h2 R1 R2. pose proof R1 as (E1 & A1 & H1). pose proof R2 as (E2 & A2 & H2).
    split; [congruence|]. split.
    + intros y. destruct (A1 y) as [(F1 & L1)|Hd]; [|right; eapply wrel_headed; eauto].
      rewrite E1 in A2. destruct (A2 y) as [(F2 & L2)|Hd]; [|right; exact Hd].
      left. split; [congruence|]. destruct L1 as [L1|L1]; destruct L2 as [L2|L2]; try (left; congruence); right; congruence.
    + intros f s l Hin y Hy. apply in_app_or in Hin. destruct Hin as [Hin|Hin].
      * eapply wrel_headed; eauto.
      * eapply H2; eauto.
  - intros d0 d' W0 (E1 & E2 & _ & _ & _ & _ & _ & _ & _ & L & _).
    split; [assumption|]. split; [|intros f s l []]. intros y. left. rewrite E2. split; [reflexivity|apply L].
  - intros d0 s bl d1 h W0 Hrange Hl P. destruct (fw_meta _ _ _ _ _ P) as (E1 & _).
    assert (Hin : forall y, in_range s (length bl) y = true -> headed d1 y).
    { intros y Hy. unfold headed. rewrite E1, (fw_loc _ _ _ _ _ P), (fw_head _ _ _ _ _ P), Hy.
      pose proof (wf_nf _ _ W0). split; [reflexivity|]. split; [lia|discriminate]. }
    split; [assumption|]. split.
    + intros y. destruct (in_range s (length bl) y) eqn:Ey; [right; now apply Hin|].
      left. rewrite (fw_loc _ _ _ _ _ P), (fw_head _ _ _ _ _ P), Ey. auto.
    + intros f s' l Hh y Hy. apply Hin. apply in_range_true.
      destruct (fw_holes _ _ _ _ _ P f s' l Hh) as (_ & A & B). lia.
Qed.

(** ** two replicas whose heads and live images agree stay so under the same write *)
Record twin (K : nat) (d e : dd) : Prop := {
  tw_d : wf K d; tw_e : wf K e; tw_nblk : nblk d = nblk e;
  tw_head : forall b, fl d (nf d) b = fl e (nf e) b;
  tw_top : forall b, top (fl d) (nf d) b = top (fl e) (nf e) b
}.

Lemma fw_top : forall d s bl d1 h b, 1 <= nf d -> fw_post d s bl d1 h ->
  top (fl d1) (nf d) b = if in_range s (length bl) b then Some (nth (b - s) bl []) else top (fl d) (nf d) b.
Proof.
  intros d s bl d1 h b Hnf P. destruct (nf d) as [|n] eqn:En; [lia|].
  rewrite !top_S. rewrite <- En. rewrite (fw_head _ _ _ _ _ P).
  destruct (in_range s (length bl) b); [reflexivity|].
  rewrite En. destruct (fl d (S n) b); [reflexivity|].
  apply top_ext. intros i Hi. apply (fw_other _ _ _ _ _ P). lia.
Qed.

Lemma twin_memo : forall K d e d' e', twin K d e -> memo d d' -> memo e e' -> twin K d' e'.
Proof.
  intros K d e d' e' T Md Me.
  pose proof Md as (A1 & A2 & _ & _ & _ & _ & _ & A8 & _). pose proof Me as (B1 & B2 & _ & _ & _ & _ & _ & B8 & _).
  constructor.
  - eapply memo_wf; eauto. apply T.
  - eapply memo_wf; eauto. apply T.
  - rewrite A8, B8. apply T.
  - intros b. rewrite A1, A2, B1, B2. apply T.
  - intros b. rewrite A1, A2, B1, B2. apply T.
Qed.

Lemma twin_fw : forall K d e s bl d1 h1 e1 h2, twin K d e ->
  s + length bl <= nblk d -> (forall v, In v bl -> length v = K) ->
  fw_post d s bl d1 h1 -> fw_post e s bl e1 h2 -> twin K d1 e1.
Proof.
  intros K d e s bl d1 h1 e1 h2 T Hr Hl P1 P2.
  destruct (fw_meta _ _ _ _ _ P1) as (E1 & _ & _ & _ & _ & _ & N1 & _).
  destruct (fw_meta _ _ _ _ _ P2) as (E2 & _ & _ & _ & _ & _ & N2 & _).
  constructor.
  - apply (fw_post_wf K d s bl d1 h1); [apply T|exact Hr|exact Hl|exact P1].
  - apply (fw_post_wf K e s bl e1 h2); [apply T|rewrite <- (tw_nblk _ _ _ T); exact Hr|exact Hl|exact P2].
  - rewrite N1, N2. apply T.
  - intros b. rewrite E1, E2, (fw_head _ _ _ _ _ P1), (fw_head _ _ _ _ _ P2), (tw_head _ _ _ T). reflexivity.
  - intros b. rewrite E1, E2.
    rewrite (fw_top _ _ _ _ _ b (wf_nf _ _ (tw_d _ _ _ T)) P1), (fw_top _ _ _ _ _ b (wf_nf _ _ (tw_e _ _ _ T)) P2).
    rewrite (tw_top _ _ _ T). reflexivity.
Qed.

Lemma twin_plan : forall K ps d e, 0 < K -> twin K d e -> Forall (prim_ok K (nblk d)) ps ->
  twin K (fst (exec_plan K d ps)) (fst (exec_plan K e ps)).
Proof.
  intros K. induction ps as [|p ps IH]; intros d e HK T Hok; [exact T|].
  inversion Hok as [|? ? Hp Hps]; subst. cbn [exec_plan].
  assert (Hstep : twin K (fst (exec_prim K d p)) (fst (exec_prim K e p))).
  { destruct p as [buf off|s bl]; cbn [exec_prim prim_ok] in *.
    - destruct Hp as [->|(Hfit & Hb)]; [exact T|].
      destruct buf as [|x buf']; [exact T|]. set (buf := x :: buf') in *.
      destruct (rmw_unfold K d buf off (tw_d _ _ _ T) ltac:(discriminate) Hb) as (d' & Hm & E).
      destruct (rmw_unfold K e buf off (tw_e _ _ _ T) ltac:(discriminate) ltac:(rewrite <- (tw_nblk _ _ _ T); exact Hb))
        as (e' & Hm' & E').
      rewrite E, E'.
      assert (Himg : img K (fl d) (nf d) (off / K) = img K (fl e) (nf e) (off / K)).
      { unfold img. now rewrite (tw_top _ _ _ T). }
      rewrite <- Himg.
      set (nb := splice (img K (fl d) (nf d) (off / K)) (off mod K) buf).
      assert (Hnb : length nb = K).
      { unfold nb. rewrite length_splice; rewrite img_length by apply T; lia. }
      pose proof (twin_memo K d e d' e' T Hm Hm') as T'.
      pose proof (full_write_spec d' (off / K) [nb] (wf_loc _ _ (tw_d _ _ _ T'))) as P1.
      pose proof (full_write_spec e' (off / K) [nb] (wf_loc _ _ (tw_e _ _ _ T'))) as P2.
      destruct (full_write true d' (off / K) [nb]) as [d1 h1]. destruct (full_write true e' (off / K) [nb]) as [e1 h2].
      cbn [fst]. eapply twin_fw; eauto.
      + destruct Hm as (_ & _ & _ & _ & _ & _ & _ & E8 & _). rewrite E8. cbn [length]. lia.
      + intros v [<-|[]]. assumption.
    - destruct Hp as (Hr & Hl).
      pose proof (full_write_spec d s bl (wf_loc _ _ (tw_d _ _ _ T))) as P1.
      pose proof (full_write_spec e s bl (wf_loc _ _ (tw_e _ _ _ T))) as P2.
      destruct (full_write true d s bl) as [d1 h1]. destruct (full_write true e s bl) as [e1 h2].
      cbn [fst]. eapply twin_fw; eauto. }
  destruct (exec_prim K d p) as [d1 h1] eqn:Ed. destruct (exec_prim K e p) as [e1 h2] eqn:Ee. cbn [fst] in Hstep.
  assert (En : nblk d1 = nblk d).
  { (* sizes never change *)
    destruct p as [buf off|s bl]; cbn [exec_prim prim_ok] in *.
    - destruct Hp as [->|(Hfit & Hb)]; [cbn in Ed; now inversion Ed|].
      destruct buf as [|x buf']; [cbn in Ed; now inversion Ed|].
      pose proof (rmw_spec K d (x :: buf') off HK (tw_d _ _ _ T) ltac:(discriminate) Hfit Hb) as R.
      rewrite Ed in R. destruct R as (S & _). destruct (st_meta _ _ _ _ S) as (_&_&_&_&_&_&E&_). exact E.
    - pose proof (full_write_spec d s bl (wf_loc _ _ (tw_d _ _ _ T))) as P. rewrite Ed in P.
      destruct (fw_meta _ _ _ _ _ P) as (_&_&_&_&_&_&E&_). exact E. }
  specialize (IH d1 e1 HK Hstep). rewrite En in IH. specialize (IH Hps).
  destruct (exec_plan K d1 ps) as [d2 h3]. destruct (exec_plan K e1 ps) as [e2 h4]. exact IH.
Qed.

Lemma twin_write_at : forall K d e data off, 0 < K -> twin K d e -> off + length data <= nblk d * K ->
  twin K (fst (write_at true K d data off)) (fst (write_at true K e data off)).
Proof.
  intros K d e data off HK T Hr. rewrite !write_at_plan. apply twin_plan; auto. now apply plan_ok.
Qed.

(** ** tix: the topmost extent *)
Lemma tix_ext : forall f g j y, (forall k, 1 <= k <= j -> f k y = g k y) -> tix f j y = tix g j y.
Proof.
  induction j as [|j IH]; intros y H; [reflexivity|].
  rewrite !tix_S. rewrite <- (H (S j)) by lia. destruct (f (S j) y); [reflexivity|].
  apply IH. intros k Hk. apply H. lia.
Qed.

Lemma tix_le : forall f j y, tix f j y <= j.
Proof. intros. destruct (tix_spec f j y) as [(E & _)|(A & _)]; lia. Qed.

(** removing an extent below the topmost one does not move it *)
Lemma tix_punch_below : forall f g j y p, (forall k, k <> p -> f k y = g k y) -> f p y = None ->
  p < tix g j y -> tix f j y = tix g j y.
Proof.
  induction j as [|j IH]; intros y p Hne Hp Hlt; [reflexivity|].
  rewrite (tix_S g) in Hlt. rewrite (tix_S f), (tix_S g).
  destruct (Nat.eq_dec (S j) p) as [E|N].
  - subst p. destruct (g (S j) y); [lia|]. pose proof (tix_le g j y). lia.
  - rewrite (Hne (S j) N). destruct (g (S j) y); [reflexivity|]. eapply IH; eauto.
Qed.

(** ** PreloadLunMap on the copy, step by step, with everything else going on *)
Definition lim (c : scan) (y : nat) : nat := if y <? sb c then si c else si c - 1.

Record scan_inv (d : dd) (c : scan) : Prop := {
  sc_i : 1 <= si c <= S (nf d);
  sc_b : sb c <= nblk d;
  sc_done : si c = S (nf d) -> sb c = 0;
  sc_ucsi : forall J, J <= si c -> ucs d J = true -> J <= sucsi c;
  sc_holes : pholes (sp c) = [];
  sc_pl : forall y, pl (sp c) y <= lim c y;
  sc_run : match pfile (sp c) with
           | None => True
           | Some f => f = pfidx (sp c) /\ 1 <= f < si c /\ si c <= nf d /\
                       forall y, poff (sp c) <= y < poff (sp c) + plen (sp c) ->
                                 pl (sp c) y = si c /\ (sucsi c < f -> blkcov d f y)
           end
}.

(** the table being built is exact for what was scanned, except where the live table already knows
    that the block is in the head *)
Definition scan_map (d : dd) (c : scan) : Prop :=
  forall y, headed d y \/ pl (sp c) y = tix (fl d) (lim c y) y.

(** a queued hole never removes the extent the table under construction points at *)
Definition pend_map (d : dd) (tbl : nat -> nat) (hs : list hole) : Prop :=
  forall f s l, In (f, s, l) hs -> forall y, s <= y < s + l -> headed d y \/ f < tbl y.

Lemma no_keeps_between : forall d f i u, i <= nf d -> (forall J, J <= i -> ucs d J = true -> J <= u) -> u < f ->
  forall J, f <= J < i -> ~ keeps d J.
Proof.
  intros d f i u Hi Hu Hf J HJ [E|(HJn & [F|F])]; [lia| |].
  - pose proof (Hu J ltac:(lia) F). lia.
  - pose proof (Hu (S J) ltac:(lia) F). lia.
Qed.

Lemma scan_step_spec : forall K d c pend, wf K d -> scan_inv d c -> scan_map d c ->
  pend_map d (pl (sp c)) pend ->
  let '(c1, hs) := scan_step d c in
  scan_inv d c1 /\ pend_cov d hs /\ scan_map d c1 /\ pend_map d (pl (sp c1)) (pend ++ hs).
Proof.
  intros K d c pend W SI SM PM. unfold scan_step, scan_done.
  destruct (Nat.ltb_spec (nf d) (si c)) as [Hdone|Hlive].
  { rewrite app_nil_r. split; [assumption|]. split; [apply pend_cov_nil|]. split; assumption. }
  destruct c as [i b u p]. cbn [si sb sucsi sp] in *.
  pose proof (sc_i _ _ SI) as Hi. pose proof (sc_b _ _ SI) as Hb. pose proof (sc_ucsi _ _ SI) as Hu.
  pose proof (sc_holes _ _ SI) as Hh. pose proof (sc_pl _ _ SI) as Hpl. pose proof (sc_run _ _ SI) as Hrun.
  cbn [si sb sucsi sp] in *.
  assert (Hnok : forall f, u < f -> forall J, f <= J < i -> ~ keeps d J).
  { intros f Hf. apply (no_keeps_between d f i u); auto. }
  (* the hole for the run that is being closed, when it is sent *)
  assert (Hemit : forall tbl, (forall y, tbl y = pl p y \/ tbl y = i) ->
            pend_cov d (if can_punch (pfile p) (pfidx p) u (punch d)
                        then pholes p ++ [(match pfile p with Some f => f | None => 0 end, poff p, plen p)]
                        else pholes p) /\
            pend_map d tbl (if can_punch (pfile p) (pfidx p) u (punch d)
                        then pholes p ++ [(match pfile p with Some f => f | None => 0 end, poff p, plen p)]
                        else pholes p)).
  { intros tbl Htbl. rewrite Hh. destruct (can_punch (pfile p) (pfidx p) u (punch d)) eqn:Ec.
    - apply can_punch_true in Ec. destruct Ec as (f & Ef & Hlt). rewrite Ef in *.
      destruct Hrun as (-> & Hf & Hin & Hr). cbn [app]. split.
      + intros h [<-|[]]. split; [lia|]. intros y Hy. now apply (Hr y Hy).
      + intros f' s l [E|[]] y Hy. inversion E; subst. right.
        destruct (Hr y Hy) as (Ey & _). destruct (Htbl y) as [T|T]; rewrite T; lia.
    - split; [apply pend_cov_nil|intros f s l []]. }
  destruct (Nat.ltb_spec b (nblk d)) as [Hblk|Hend].
  - (* one block of file i *)
    assert (Hcur : pl p b <= i - 1).
    { specialize (Hpl b). unfold lim in Hpl. cbn [sb si] in Hpl. destruct (Nat.ltb_spec b b); [lia|assumption]. }
    assert (Hlim : forall q q' y, y <> b -> lim (mkscan i (S b) u q) y = lim (mkscan i b u q') y).
    { intros q q' y Hy. unfold lim. cbn [sb si]. destruct (Nat.ltb_spec y (S b)); destruct (Nat.ltb_spec y b); try reflexivity; lia. }
    assert (Hlimb : forall q, lim (mkscan i (S b) u q) b = i).
    { intros q. unfold lim. cbn [sb si]. destruct (Nat.ltb_spec b (S b)); [reflexivity|lia]. }
    assert (Hlimb0 : forall q, lim (mkscan i b u q) b = i - 1).
    { intros q. unfold lim. cbn [sb si]. destruct (Nat.ltb_spec b b); [lia|reflexivity]. }
    unfold pre_block. destruct (fl d i b) as [v|] eqn:Ext.
    + (* the block has an extent in file i *)
      assert (Hcov : forall f, 1 <= f -> f <= i - 1 -> u < f -> blkcov d f b).
      { intros f Hf1 Hf2 Huf. exists i. split; [lia|]. split; [congruence|]. now apply Hnok. }
      assert (Hmap : forall q, pl q = fupd (pl p) b i -> scan_map d (mkscan i (S b) u q)).
      { intros q Eq y. cbn [sp]. rewrite Eq. destruct (Nat.eq_dec y b) as [->|Hy].
        - right. rewrite fupd_eq, Hlimb. destruct i as [|i']; [lia|]. now rewrite tix_S, Ext.
        - rewrite fupd_neq by assumption. rewrite (Hlim q p) by assumption. apply SM. }
      assert (Hle : forall q, pl q = fupd (pl p) b i -> forall y, pl q y <= lim (mkscan i (S b) u q) y).
      { intros q Eq y. rewrite Eq. destruct (Nat.eq_dec y b) as [->|Hy].
        - rewrite fupd_eq. unfold lim. cbn [sb si]. destruct (Nat.ltb_spec b (S b)); lia.
        - rewrite fupd_neq by assumption. specialize (Hpl y). unfold lim in *. cbn [sb si] in *.
          destruct (Nat.ltb_spec y (S b)); destruct (Nat.ltb_spec y b); lia. }
      assert (Hold : forall hs', pend_map d (pl p) hs' -> pend_map d (fupd (pl p) b i) hs').
      { intros hs' H f s l Hin y Hy. destruct (H f s l Hin y Hy) as [A|A]; [left; exact A|right].
        destruct (Nat.eq_dec y b) as [->|Hyb]; [rewrite fupd_eq; lia|now rewrite fupd_neq]. }
      destruct (Nat.eqb_spec (pl p b) 0) as [E0|N0].
      * (* first owner seen *)
        cbn [pl pfile pfidx plen poff pholes]. rewrite Hh.
        split; [|split; [apply pend_cov_nil|split; [now apply Hmap|rewrite app_nil_r; now apply Hold]]].
        constructor; cbn [si sb sucsi sp pl pfile pfidx plen poff pholes]; auto; try lia.
        -- intros y. apply (Hle (mkpst (fupd (pl p) b i) (pfile p) (pfidx p) (plen p) (poff p) [])). reflexivity.
        -- destruct (pfile p) as [f|]; [|exact I]. destruct Hrun as (-> & Hf & Hin & Hr).
           split; [reflexivity|]. split; [assumption|]. split; [assumption|]. intros y Hy.
           destruct (Hr y Hy) as (A & B). split; [|assumption].
           destruct (Nat.eq_dec y b) as [->|Hyb]; [now rewrite fupd_eq|now rewrite fupd_neq].
      * destruct (negb (same_file (pl p b) (pfile p)) || negb (b =? poff p + plen p)) eqn:Enew.
        -- (* the previous run is closed, a new one starts at b *)
           cbn [pl pfile pfidx plen poff pholes].
           destruct (Hemit (fupd (pl p) b i)) as (Hc & Hm).
           { intros y. destruct (Nat.eq_dec y b) as [->|Hyb]; [right; now rewrite fupd_eq|left; now rewrite fupd_neq]. }
           split; [|split; [exact Hc|split; [now apply Hmap|]]].
           ++ constructor; cbn [si sb sucsi sp pl pfile pfidx plen poff pholes]; auto; try lia.
              ** intros y. apply (Hle (mkpst (fupd (pl p) b i) (Some (pl p b)) (pl p b) 1 b [])). reflexivity.
              ** split; [reflexivity|]. split; [lia|]. split; [lia|]. intros y Hy. assert (y = b) by lia. subst y.
                 split; [now rewrite fupd_eq|]. intros Hlt. apply Hcov; lia.
           ++ intros f s l Hin y Hy. apply in_app_or in Hin. destruct Hin as [Hin|Hin].
              ** now apply (Hold pend PM f s l Hin y Hy).
              ** now apply (Hm f s l Hin y Hy).
        -- (* the run goes on *)
           apply orb_false_iff in Enew. destruct Enew as [Esame Econt].
           apply negb_false_iff in Esame, Econt. apply Nat.eqb_eq in Econt.
           unfold same_file in Esame. destruct (pfile p) as [f|] eqn:Ef; [|discriminate].
           apply Nat.eqb_eq in Esame. destruct Hrun as (Efx & Hf & Hin & Hr).
           cbn [pl pfile pfidx plen poff pholes]. rewrite Hh.
           split; [|split; [apply pend_cov_nil|split; [now apply Hmap|rewrite app_nil_r; now apply Hold]]].
           constructor; cbn [si sb sucsi sp pl pfile pfidx plen poff pholes]; auto; try lia.
           ++ intros y. apply (Hle (mkpst (fupd (pl p) b i) (Some f) (pfidx p) (S (plen p)) (poff p) [])). reflexivity.
           ++ split; [assumption|]. split; [assumption|]. split; [assumption|]. intros y Hy.
              destruct (Nat.eq_dec y b) as [->|Hyb].
              ** split; [now rewrite fupd_eq|]. intros Hlt. apply Hcov; lia.
              ** rewrite fupd_neq by assumption. apply Hr. lia.
    + (* no extent: nothing changes but the position *)
      rewrite Hh. split; [|split; [apply pend_cov_nil|split; [|rewrite app_nil_r; destruct p; exact PM]]].
      * constructor; cbn [si sb sucsi sp pl pfile pfidx plen poff pholes]; auto; try lia.
        intros y. specialize (Hpl y). unfold lim in *. cbn [sb si] in *.
        destruct (Nat.ltb_spec y (S b)); destruct (Nat.ltb_spec y b); lia.
      * intros y. cbn [sp pl]. destruct (Nat.eq_dec y b) as [->|Hy].
        -- destruct (SM b) as [A|A]; [left; exact A|right]. cbn [sp] in A. rewrite A, Hlimb, Hlimb0.
           destruct i as [|i']; [lia|]. rewrite tix_S, Ext. f_equal. lia.
        -- specialize (SM y). cbn [sp] in SM. rewrite <- (Hlim p p y Hy) in SM. destruct p; exact SM.
  - (* end of the iteration for file i *)
    assert (b = nblk d) by lia. subst b.
    destruct (Hemit (pl p)) as (Hc & Hm); [intros y; now left|].
    split; [|split; [exact Hc|split]].
    + constructor; cbn [si sb sucsi sp pl pfile pfidx plen poff pholes]; auto; try lia.
      * intros J HJ HF. destruct (Nat.eq_dec J (S i)) as [->|Hne]; [rewrite HF; lia|].
        pose proof (Hu J ltac:(lia) HF). destruct (ucs d (S i)); lia.
      * intros y. specialize (Hpl y). unfold lim in *. cbn [sb si] in *.
        destruct (Nat.ltb_spec y 0); [lia|]. destruct (Nat.ltb_spec y (nblk d)); lia.
    + intros y. cbn [sp pl]. specialize (SM y). cbn [sp] in SM. destruct SM as [A|A]; [left; exact A|right].
      rewrite A. unfold lim. cbn [sb si]. destruct (Nat.ltb_spec y 0); [lia|].
      destruct (Nat.ltb_spec y (nblk d)); [f_equal; lia|].
      replace (S i - 1) with i by lia. destruct i as [|i']; [lia|].
      rewrite tix_S. rewrite (wf_ext _ _ W) by lia. f_equal. lia.
    + cbn [sp pl]. intros f s l Hin y Hy. apply in_app_or in Hin. destruct Hin as [Hin|Hin].
      * now apply (PM f s l Hin y Hy).
      * now apply (Hm f s l Hin y Hy).
Qed.

(** stability of the scan invariants under a foreground write and under a covered hole *)
Lemma scan_inv_grows : forall d d' c, grows d d' -> nblk d' = nblk d -> scan_inv d c -> scan_inv d' c.
Proof.
  intros d d' c G En SI. pose proof G as (E1 & E2 & _). destruct SI as [A B C D E F R].
  constructor; try rewrite E1; try rewrite E2; try rewrite En; auto.
  destruct (pfile (sp c)) as [f|]; [|exact I]. destruct R as (R1 & R2 & R3 & R4).
  split; [assumption|]. split; [assumption|]. split; [assumption|]. intros y Hy. destruct (R4 y Hy) as (P & Q).
  split; [assumption|]. intros Hlt. eapply blkcov_grows; eauto.
Qed.

Lemma scan_inv_apply1 : forall d h c, hole_cov d h -> scan_inv d c -> scan_inv (apply1 d h) c.
Proof.
  intros d h c Hh SI. destruct SI as [A B C D E F R]. constructor; auto.
  destruct (pfile (sp c)) as [f|]; [|exact I]. destruct R as (R1 & R2 & R3 & R4).
  split; [assumption|]. split; [assumption|]. split; [assumption|]. intros y Hy. destruct (R4 y Hy) as (P & Q).
  split; [assumption|]. intros Hlt. apply blkcov_apply1; auto.
Qed.

Lemma headed_apply1 : forall d h y, hole_cov d h -> headed d y -> headed (apply1 d h) y.
Proof.
  intros d h y Hh (A & B & C). unfold headed. cbn [apply1 loc nf set_fl].
  change (apply_hole (fl d) h (nf d) y) with (fl (apply1 d h) (nf d) y). rewrite apply1_head by assumption. auto.
Qed.

Lemma scan_map_write : forall K d d1 hs c, wrel d d1 hs -> stage K d d1 hs -> scan_map d c -> scan_map d1 c.
Proof.
  intros K d d1 hs c R S SM y. pose proof R as (E & A & _).
  destruct (A y) as [(F & _)|H]; [|left; exact H].
  destruct (SM y) as [Hd|Hp]; [left; eapply wrel_headed; eauto|right].
  rewrite Hp. apply tix_ext. intros k Hk.
  destruct (Nat.eq_dec k (nf d)) as [->|N]; [symmetry; exact F|]. symmetry. apply (st_other _ _ _ _ S). assumption.
Qed.

Lemma pend_map_write : forall d d1 hs tbl pend, wrel d d1 hs -> pend_map d tbl pend -> pend_map d1 tbl (pend ++ hs).
Proof.
  intros d d1 hs tbl pend R PM f s l Hin y Hy. apply in_app_or in Hin. destruct Hin as [Hin|Hin].
  - destruct (PM f s l Hin y Hy) as [A|A]; [left; eapply wrel_headed; eauto|right; exact A].
  - left. destruct R as (_ & _ & H). eapply H; eauto.
Qed.

Lemma scan_map_apply1 : forall d h c pend, hole_cov d h -> In h pend -> pend_map d (pl (sp c)) pend ->
  scan_map d c -> scan_map (apply1 d h) c.
Proof.
  intros d [[f s] l] c pend Hh Hin PM SM y.
  destruct (SM y) as [Hd|Hp]; [left; now apply headed_apply1|].
  destruct (Nat.le_gt_cases s y) as [H1|H1]; [destruct (Nat.lt_ge_cases y (s + l)) as [H2|H2]|].
  - destruct (PM f s l Hin y ltac:(lia)) as [A|A]; [left; now apply headed_apply1|right].
    rewrite Hp. rewrite Hp in A. symmetry. apply (tix_punch_below _ _ _ _ f); [| |exact A].
    + intros k Hk. destruct (apply1_cases d (f, s, l) k y) as [E|[_ (E & _)]]; [assumption|congruence].
    + cbn [apply1 fl set_fl apply_hole]. rewrite fupd_eq. apply punch_file_in. lia.
  - right. rewrite Hp. apply tix_ext. intros k Hk.
    destruct (apply1_cases d (f, s, l) k y) as [E|[_ (_ & E)]]; [symmetry; assumption|lia].
  - right. rewrite Hp. apply tix_ext. intros k Hk.
    destruct (apply1_cases d (f, s, l) k y) as [E|[_ (_ & E)]]; [symmetry; assumption|lia].
Qed.

Lemma pend_map_apply1 : forall d h tbl pend, hole_cov d h -> pend_map d tbl pend -> pend_map (apply1 d h) tbl pend.
Proof.
  intros d h tbl pend Hh PM f s l Hin y Hy.
  destruct (PM f s l Hin y Hy) as [A|A]; [left; now apply headed_apply1|right; exact A].
Qed.

(** ** the merge loop of UpdateLUNMap against an arbitrary (well-formed) live table *)
Record minv (d : dd) (pre : nat -> nat) (ucsi b : nat) (u : ust) : Prop := {
  mi_loc : forall y, ul u y = if y <? b
                              then (if (pre y =? 0) || (pre y <? loc d y) then loc d y else pre y)
                              else loc d y;
  mi_run : uprev u = 0 \/
           forall y, uho u <= y < uho u + uhl u -> pre y = uprev u /\ uprev u < loc d y;
  mi_holes : pend_cov d (uholes u)
}.

Lemma lun_emit_cov : forall d pre ucsi b u, loc_ok d -> ucsi = last_true (ucs d) (nf d) 0 ->
  minv d pre ucsi b u -> pend_cov d (lun_emit d ucsi u).
Proof.
  intros d pre ucsi b u Hok Eu M. unfold lun_emit.
  destruct ((ucsi <? uprev u) && punch d && negb (uprev u =? 0)) eqn:Ec; [|apply M].
  apply andb_true_iff in Ec. destruct Ec as [Ec E3]. apply andb_true_iff in Ec. destruct Ec as [E1 _].
  apply Nat.ltb_lt in E1. apply negb_true_iff in E3. apply Nat.eqb_neq in E3.
  apply pend_cov_app; [apply M|]. intros h [<-|[]]. split; [lia|]. intros y Hy.
  destruct (mi_run _ _ _ _ _ M) as [Z|R]; [contradiction|]. destruct (R y Hy) as (Ep & Hlt).
  destruct (Hok y) as [H0|(H1 & H2 & H3)]; [lia|].
  exists (loc d y). split; [lia|]. split; [apply H3; lia|].
  apply (no_keeps_between d (uprev u) (loc d y) ucsi); [lia| |lia].
  intros J HJ HF. subst ucsi. apply last_true_ge; [lia|assumption].
Qed.

Lemma lun_step_gen : forall d pre ucsi b u, loc_ok d -> ucsi = last_true (ucs d) (nf d) 0 ->
  minv d pre ucsi b u -> minv d pre ucsi (S b) (lun_step d pre ucsi u b).
Proof.
  intros d pre ucsi b u Hok Eu M.
  pose proof (lun_emit_cov d pre ucsi b u Hok Eu M) as Hemit.
  assert (Hub : ul u b = loc d b).
  { rewrite (mi_loc _ _ _ _ _ M). destruct (Nat.ltb_spec b b); [lia|reflexivity]. }
  assert (Hkeep : forall y, y <> b -> (if y <? S b then (if (pre y =? 0) || (pre y <? loc d y) then loc d y else pre y) else loc d y)
                                     = ul u y).
  { intros y Hy. rewrite (mi_loc _ _ _ _ _ M). destruct (Nat.ltb_spec y (S b)); destruct (Nat.ltb_spec y b); try reflexivity; lia. }
  unfold lun_step. destruct (Nat.eqb_spec (pre b) 0) as [E0|N0].
  - constructor; [|apply M|apply M].
    intros y. destruct (Nat.eq_dec y b) as [->|Hy]; [|symmetry; now apply Hkeep].
    destruct (Nat.ltb_spec b (S b)); [|lia]. rewrite E0. cbn [Nat.eqb orb]. exact Hub.
  - rewrite Hub. destruct (Nat.ltb_spec (pre b) (loc d b)) as [Hlt|Hge].
    + destruct (negb (uprev u =? pre b) || negb (b =? uho u + uhl u)) eqn:Enew.
      * constructor; cbn [ul uhl uho uprev uholes].
        -- intros y. destruct (Nat.eq_dec y b) as [->|Hy]; [|symmetry; now apply Hkeep].
           destruct (Nat.ltb_spec b (S b)); [|lia]. destruct (Nat.ltb_spec (pre b) (loc d b)); [|lia].
           rewrite orb_true_r. exact Hub.
        -- right. intros y Hy. assert (y = b) by lia. subst y. auto.
        -- exact Hemit.
      * apply orb_false_iff in Enew. destruct Enew as [E1 E2]. apply negb_false_iff in E1, E2.
        apply Nat.eqb_eq in E1, E2.
        constructor; cbn [ul uhl uho uprev uholes].
        -- intros y. destruct (Nat.eq_dec y b) as [->|Hy]; [|symmetry; now apply Hkeep].
           destruct (Nat.ltb_spec b (S b)); [|lia]. destruct (Nat.ltb_spec (pre b) (loc d b)); [|lia].
           rewrite orb_true_r. exact Hub.
        -- right. intros y Hy. destruct (Nat.eq_dec y b) as [->|Hyb]; [split; [congruence|lia]|].
           destruct (mi_run _ _ _ _ _ M) as [Z|R]; [lia|]. apply R. lia.
        -- apply M.
    + constructor; cbn [ul uhl uho uprev uholes].
      * intros y. destruct (Nat.eq_dec y b) as [->|Hy].
        -- rewrite fupd_eq. destruct (Nat.ltb_spec b (S b)); [|lia].
           destruct (Nat.eqb_spec (pre b) 0); [contradiction|]. destruct (Nat.ltb_spec (pre b) (loc d b)); [lia|reflexivity].
        -- rewrite fupd_neq by assumption. symmetry. now apply Hkeep.
      * left. reflexivity.
      * exact Hemit.
Qed.

Lemma lun_loop_gen : forall d pre ucsi cnt b u, loc_ok d -> ucsi = last_true (ucs d) (nf d) 0 ->
  minv d pre ucsi b u -> minv d pre ucsi (b + cnt) (lun_loop d pre ucsi cnt b u).
Proof.
  induction cnt as [|cnt IH]; intros b u Hok Eu M.
  - cbn. now rewrite Nat.add_0_r.
  - cbn [lun_loop]. replace (b + S cnt) with (S b + cnt) by lia. apply IH; auto. now apply lun_step_gen.
Qed.

(** the merge: the new table is well-formed given what the scan established; its holes are covered *)
Lemma ulm_merge_spec : forall K d c, wf K d -> si c = S (nf d) -> sb c = 0 -> scan_map d c ->
  (forall y, pl (sp c) y <= nf d) ->
  let '(d1, hs) := ulm_merge d (pl (sp c)) in
  wf K d1 /\ fl d1 = fl d /\ same_meta d d1 /\ pend_cov d1 hs.
Proof.
  intros K d c W Esi Esb SM Hple. unfold ulm_merge.
  set (pre := pl (sp c)). set (ucsi := last_true (ucs d) (nf d) 0).
  assert (M0 : minv d pre ucsi 0 (mkust (loc d) 0 0 0 [])).
  { constructor; cbn [ul uhl uho uprev uholes]; [intros y; reflexivity|left; reflexivity|apply pend_cov_nil]. }
  pose proof (lun_loop_gen d pre ucsi (nblk d) 0 _ (wf_loc _ _ W) eq_refl M0) as M. cbn [plus] in M.
  set (u := lun_loop d pre ucsi (nblk d) 0 (mkust (loc d) 0 0 0 [])) in *.
  split; [|split; [reflexivity|split; [repeat split|]]].
  - constructor; cbn [set_loc nf fl loc nblk]; try apply W.
    intros y. cbn [set_loc nf fl loc nblk]. rewrite (mi_loc _ _ _ _ _ M).
    destruct (Nat.ltb_spec y (nblk d)) as [Hy|Hy]; [|apply (wf_loc _ _ W)].
    destruct ((pre y =? 0) || (pre y <? loc d y)) eqn:Ek; [apply (wf_loc _ _ W)|].
    apply orb_false_iff in Ek. destruct Ek as [E1 E2]. apply Nat.eqb_neq in E1. apply Nat.ltb_ge in E2.
    destruct (SM y) as [(A & B & C)|Hp].
    + (* the live table says head: the preloaded entry can only be the head too *)
      assert (Epre : pre y = nf d) by (specialize (Hple y); fold pre in Hple; lia).
      right. rewrite Epre. pose proof (wf_nf _ _ W). split; [lia|]. split; [intros; lia|intros _; exact C].
    + fold pre in Hp. assert (Hl : lim c y = nf d).
      { unfold lim. rewrite Esb, Esi. destruct (Nat.ltb_spec y 0); lia. }
      rewrite Hl in Hp. rewrite Hp in *.
      destruct (tix_spec (fl d) (nf d) y) as [(Z & _)|(A & B & C)]; [lia|].
      right. split; [assumption|]. split; [assumption|intros _; assumption].
  - intros h Hin. apply (lun_emit_cov d pre ucsi (nblk d) u (wf_loc _ _ W) eq_refl M h Hin).
Qed.

(** ** the destination after its Reload: one invariant for writes, holes and the phases of UpdateLUNMap *)
Definition plof (u : uphase) : nat -> nat := match u with UScan c => pl (sp c) | _ => fun _ => 0 end.

Record dinv (K : nat) (d : dd) (pend : list hole) (u : uphase) : Prop := {
  di_wf : wf K d;
  di_ucs : ucs_le_snapix d;
  di_pend : pend_cov d pend;
  di_map : match u with UDone => True | _ => pend_map d (plof u) pend end;
  di_scan : match u with UScan c => scan_inv d c /\ scan_map d c | _ => True end
}.

Lemma dinv_write : forall K d pend u data off, 0 < K -> dinv K d pend u -> off + length data <= nblk d * K ->
  let '(d1, hs) := write_at true K d data off in
  dinv K d1 (pend ++ hs) u /\ stage K d d1 hs /\ wrel d d1 hs.
Proof.
  intros K d pend u data off HK D Hr.
  pose proof (write_at_wrel K d data off HK (di_wf _ _ _ _ D) Hr) as H.
  destruct (write_at true K d data off) as [d1 hs]. destruct H as (R & S).
  split; [|split; assumption].
  pose proof (stage_grows _ _ _ _ S) as G.
  destruct (st_meta _ _ _ _ S) as (E1 & _ & _ & _ & E5 & E6 & E7 & _).
  assert (Hu : ucs_le_snapix d1).
  { intros k Hk HF. rewrite E1 in Hk. rewrite E5 in HF. rewrite E6. now apply (di_ucs _ _ _ _ D). }
  constructor.
  - apply S.
  - exact Hu.
  - apply pend_cov_app.
    + intros h Hin. eapply hole_cov_grows; eauto. now apply (di_pend _ _ _ _ D).
    + apply sound_cov; [assumption|apply S].
  - pose proof (di_map _ _ _ _ D) as M. destruct u; try exact I; eapply pend_map_write; eauto.
  - pose proof (di_scan _ _ _ _ D) as Sc. destruct u as [|c|]; try exact I. destruct Sc as (A & B).
    split; [eapply scan_inv_grows; eauto|eapply scan_map_write; eauto].
Qed.

Lemma dinv_hole : forall K d pend u k a d1 p1, dinv K d pend u -> take_hole d pend k a = (d1, p1) ->
  dinv K d1 p1 u /\ same_meta d d1 /\ loc d1 = loc d /\
  (forall J b, keeps d J -> top (fl d1) J b = top (fl d) J b) /\
  (forall b, fl d1 (nf d) b = fl d (nf d) b) /\
  (forall j b, fl d1 j b = fl d j b \/ fl d1 j b = None).
Proof.
  intros K d pend u k a d1 p1 D H.
  destruct (take_hole_cases _ _ _ _ _ _ H) as [(-> & Hsub)|(h & Hin & -> & Hsub)].
  - split; [|split; [apply same_meta_refl|split; [reflexivity|split; [reflexivity|split; [reflexivity|left; reflexivity]]]]].
    destruct D as [A B C M S]. constructor; auto.
    + intros x Hx. apply C. now apply Hsub.
    + destruct u; try exact I; intros f s l Hx; apply M; now apply Hsub.
  - pose proof (di_pend _ _ _ _ D h Hin) as Hh.
    split; [|split; [apply apply1_meta|split; [reflexivity|split; [|split]]]].
    + constructor.
      * apply apply1_wf; [apply D|assumption].
      * exact (di_ucs _ _ _ _ D).
      * intros x Hx. apply hole_cov_apply1; [assumption|]. apply (di_pend _ _ _ _ D). now apply Hsub.
      * pose proof (di_map _ _ _ _ D) as M.
        destruct u; try exact I; apply pend_map_apply1; auto; intros f s l Hx; apply M; now apply Hsub.
      * pose proof (di_scan _ _ _ _ D) as Sc. destruct u as [|c|]; try exact I. destruct Sc as (A & B).
        split; [now apply scan_inv_apply1|]. eapply scan_map_apply1; eauto. exact (di_map _ _ _ _ D).
    + intros J b HK. now apply apply1_top.
    + intros b. now apply apply1_head.
    + intros j b. destruct (apply1_cases d h j b) as [E|[E _]]; auto.
Qed.

Lemma dinv_begin : forall K d pend, dinv K d pend UIdle -> dinv K d pend (UScan (scan0 d)).
Proof.
  intros K d pend D. destruct D as [A B C M S]. constructor; auto. split.
  - constructor; cbn [scan0 si sb sucsi sp pl pfile pfidx plen poff pholes]; auto.
    + lia.
    + lia.
    + intros J HJ HF. destruct (Nat.eq_dec J 1) as [->|N]; [rewrite HF; lia|lia].
  - intros y. right. reflexivity.
Qed.

Lemma dinv_pre : forall K d pend c, dinv K d pend (UScan c) ->
  let '(c1, hs) := scan_step d c in dinv K d (pend ++ hs) (UScan c1).
Proof.
  intros K d pend c D. destruct (di_scan _ _ _ _ D) as (SI & SM).
  pose proof (scan_step_spec K d c pend (di_wf _ _ _ _ D) SI SM (di_map _ _ _ _ D)) as H.
  destruct (scan_step d c) as [c1 hs]. destruct H as (A & B & C & E).
  constructor; [apply D|apply D| |exact E|split; assumption].
  apply pend_cov_app; [apply D|assumption].
Qed.

Lemma dinv_merge : forall K d pend c, dinv K d pend (UScan c) -> scan_done d c = true ->
  let '(d1, hs) := ulm_merge d (pl (sp c)) in
  dinv K d1 (pend ++ hs) UDone /\ fl d1 = fl d /\ same_meta d d1.
Proof.
  intros K d pend c D Hdone. destruct (di_scan _ _ _ _ D) as (SI & SM).
  unfold scan_done in Hdone. apply Nat.ltb_lt in Hdone.
  assert (Esi : si c = S (nf d)) by (pose proof (sc_i _ _ SI); lia).
  pose proof (sc_done _ _ SI Esi) as Esb.
  assert (Hple : forall y, pl (sp c) y <= nf d).
  { intros y. pose proof (sc_pl _ _ SI y) as H. unfold lim in H. rewrite Esb, Esi in H.
    destruct (Nat.ltb_spec y 0); lia. }
  pose proof (ulm_merge_spec K d c (di_wf _ _ _ _ D) Esi Esb SM Hple) as H.
  destruct (ulm_merge d (pl (sp c))) as [d1 hs] eqn:Em. destruct H as (W1 & Efl & Meta & Hc).
  split; [|split; assumption].
  destruct Meta as (E1 & _ & _ & _ & E5 & E6 & _).
  assert (Hcov : forall h, hole_cov d h -> hole_cov d1 h).
  { intros [[f s] l] (Hf & Hcv). split; [assumption|]. intros y Hy. destruct (Hcv y Hy) as (i & Hi & Hext & Hno).
    exists i. rewrite E1, Efl. split; [assumption|]. split; [assumption|]. intros J HJ HK. apply (Hno J HJ).
    now apply (keeps_same d d1 E1 E5). }
  constructor; [assumption| | |exact I|exact I].
  - intros k Hk HF. rewrite E1 in Hk. rewrite E5 in HF. rewrite E6. now apply (di_ucs _ _ _ _ D).
  - apply pend_cov_app; [|assumption]. intros h Hin. apply Hcov. now apply (di_pend _ _ _ _ D).
Qed.
