(** * Block: fullWriteAt (repaired variant) -- the run loop, hole soundness, punch safety, and the
    block-level and unit-level write theorems. *)
From Coq Require Import List Arith Bool NArith Lia.
From Jiva Require Import Block.Model Block.Lemmas.
Import ListNotations.

Definition same_meta (d d' : dd) : Prop :=
  nf d' = nf d /\ nm d' = nm d /\ usr d' = usr d /\ rmd d' = rmd d /\ ucs d' = ucs d
  /\ snapix d' = snapix d /\ nblk d' = nblk d /\ punch d' = punch d.

Lemma same_meta_refl : forall d, same_meta d d.
Proof. intros; repeat split. Qed.
Lemma same_meta_trans : forall a b c, same_meta a b -> same_meta b c -> same_meta a c.
Proof. unfold same_meta; intros a b c H1 H2; intuition congruence. Qed.
Lemma memo_same_meta : forall d d', memo d d' -> same_meta d d'.
Proof. unfold memo, same_meta; intuition. Qed.

Definition in_range (lo n b : nat) : bool := (lo <=? b) && (b <? lo + n).

Lemma in_range_true : forall lo n b, in_range lo n b = true <-> lo <= b < lo + n.
Proof.
  intros. unfold in_range. rewrite andb_true_iff, Nat.leb_le, Nat.ltb_lt. tauto.
Qed.
Lemma in_range_false : forall lo n b, in_range lo n b = false <-> ~ (lo <= b < lo + n).
Proof.
  intros. rewrite <- in_range_true. destruct (in_range lo n b); split; congruence.
Qed.

Lemma in_range_spec : forall lo n b, reflect (lo <= b < lo + n) (in_range lo n b).
Proof.
  intros. destruct (in_range lo n b) eqn:E; constructor.
  - now apply in_range_true.
  - now apply in_range_false.
Qed.

(** ** files[target].WriteAt *)
Lemma write_blocks_spec : forall blocks f b x,
  write_blocks f b blocks x =
  if in_range b (length blocks) x then Some (nth (x - b) blocks []) else f x.
Proof.
  induction blocks as [|v r IH]; intros f b x.
  - cbn [write_blocks length]. destruct (in_range_spec b 0 x); [lia|reflexivity].
  - cbn [write_blocks length]. rewrite IH.
    destruct (in_range_spec (S b) (length r) x) as [E1|E1]; destruct (in_range_spec b (S (length r)) x) as [E2|E2];
      try lia.
    + replace (x - b) with (S (x - S b)) by lia. reflexivity.
    + assert (x = b) by lia. subst. rewrite fupd_eq, Nat.sub_diag. reflexivity.
    + rewrite fupd_neq by lia. reflexivity.
Qed.

(** ** the run loop *)
Definition run_ok (d : dd) (lo hi : nat) (w : wst) : Prop :=
  match wfile w with
  | None => True
  | Some f => f = wfidx w /\ 1 <= f < nf d /\ lo <= woff w /\ woff w + wlen w <= hi
  end.

Definition holes_in (d : dd) (lo hi : nat) (hs : list hole) : Prop :=
  forall f s l, In (f, s, l) hs -> snapix d < f < nf d /\ lo <= s /\ s + l <= hi.

Definition loc_done (d : dd) (lo b : nat) (l : nat -> nat) : Prop :=
  forall x, l x = if (lo <=? x) && (x <? b) then nf d else loc d x.

Lemma can_punch_true : forall file fidx bound p,
  can_punch file fidx bound p = true -> exists f, file = Some f /\ bound < fidx.
Proof.
  intros [f|] fidx bound p H; cbn in H; [|discriminate].
  apply andb_true_iff in H. destruct H as [H _]. apply Nat.ltb_lt in H. eauto.
Qed.

Lemma holes_in_mono : forall d lo hi hi' hs, hi <= hi' -> holes_in d lo hi hs -> holes_in d lo hi' hs.
Proof. intros d lo hi hi' hs Hh H f s l Hin. destruct (H f s l Hin) as (A & B & C). repeat split; lia. Qed.

Lemma holes_in_app : forall d lo hi a b, holes_in d lo hi a -> holes_in d lo hi b -> holes_in d lo hi (a ++ b).
Proof. intros d lo hi a b Ha Hb f s l Hin. apply in_app_or in Hin. destruct Hin; eauto. Qed.

Lemma fw_step_spec : forall d lo b w, loc_ok d -> lo <= b ->
  loc_done d lo b (wl w) -> run_ok d lo b w -> holes_in d lo b (wholes w) ->
  let w' := fw_step true d (nf d) w b in
  loc_done d lo (S b) (wl w') /\ run_ok d lo (S b) w' /\ holes_in d lo (S b) (wholes w').
Proof.
  intros d lo b w Hok Hlo Hl Hr Hh.
  assert (Hval : wl w b = loc d b).
  { rewrite Hl. destruct (Nat.leb_spec lo b); destruct (Nat.ltb_spec b b); cbn; try reflexivity; lia. }
  assert (Hdone : loc_done d lo (S b) (fupd (wl w) b (nf d))).
  { intros x. destruct (fupd_cases _ (wl w) b (nf d) x) as [[-> H]|[Hn H]]; rewrite H.
    - destruct (Nat.leb_spec lo b); destruct (Nat.ltb_spec b (S b)); cbn; try reflexivity; lia.
    - rewrite Hl. destruct (Nat.leb_spec lo x); destruct (Nat.ltb_spec x b); destruct (Nat.ltb_spec x (S b));
        cbn; try reflexivity; lia. }
  assert (Hr' : forall w0, wfile w0 = wfile w -> wfidx w0 = wfidx w -> wlen w0 = wlen w -> woff w0 = woff w ->
                           run_ok d lo (S b) w0).
  { intros w0 E1 E2 E3 E4. unfold run_ok in *. rewrite E1, E2, E3, E4.
    destruct (wfile w); [|exact I]. intuition lia. }
  unfold fw_step. rewrite Hval.
  destruct (Nat.eqb_spec (loc d b) 0) as [E0|N0].
  { cbn [wl wholes]. split; [assumption|]. split; [now apply Hr'|]. eapply holes_in_mono; [|eassumption]; lia. }
  destruct (Nat.eqb_spec (loc d b) (nf d)) as [Et|Nt].
  { cbn [wl wholes]. split; [assumption|]. split; [now apply Hr'|]. eapply holes_in_mono; [|eassumption]; lia. }
  assert (Hv : 1 <= loc d b < nf d).
  { destruct (Hok b) as [H0|(H1 & _)]; [contradiction|lia]. }
  destruct (negb (loc d b =? wfidx w) || negb (b =? woff w + wlen w)) eqn:Ebr.
  - cbn [wl wholes wfile wfidx wlen woff]. split; [assumption|]. split.
    + unfold run_ok. cbn [wfile wfidx wlen woff]. repeat split; lia.
    + destruct (can_punch (wfile w) (wfidx w) (snapix d) (punch d)) eqn:Ec.
      * apply holes_in_app; [eapply holes_in_mono; [|eassumption]; lia|].
        apply can_punch_true in Ec. destruct Ec as (f & Ef & Hb).
        unfold run_ok in Hr. rewrite Ef in *. destruct Hr as (-> & Hf & Ho & Hlen).
        intros f' s l [Hin|[]]. inversion Hin; subst. repeat split; lia.
      * eapply holes_in_mono; [|eassumption]; lia.
  - cbn [wl wholes wfile wfidx wlen woff]. split; [assumption|]. split.
    + apply orb_false_iff in Ebr. destruct Ebr as [_ E2]. apply negb_false_iff in E2. apply Nat.eqb_eq in E2.
      unfold run_ok in *. cbn [wfile wfidx wlen woff]. destruct (wfile w); [|exact I]. intuition lia.
    + eapply holes_in_mono; [|eassumption]; lia.
Qed.

Lemma fw_loop_spec : forall d lo cnt b w, loc_ok d -> lo <= b ->
  loc_done d lo b (wl w) -> run_ok d lo b w -> holes_in d lo b (wholes w) ->
  let w' := fw_loop true d (nf d) cnt b w in
  loc_done d lo (b + cnt) (wl w') /\ run_ok d lo (b + cnt) w' /\ holes_in d lo (b + cnt) (wholes w').
Proof.
  induction cnt as [|cnt IH]; intros b w Hok Hlo Hl Hr Hh.
  - cbn. rewrite Nat.add_0_r. auto.
  - cbn [fw_loop]. destruct (fw_step_spec d lo b w Hok Hlo Hl Hr Hh) as (A & B & C).
    replace (b + S cnt) with (S b + cnt) by lia. apply IH; auto.
Qed.

(** ** fullWriteAt, before the holes are applied *)
Record fw_post (d : dd) (start : nat) (blocks : list blockdata) (d1 : dd) (hs : list hole) : Prop := {
  fw_meta : same_meta d d1;
  fw_other : forall j b, j <> nf d -> fl d1 j b = fl d j b;
  fw_head : forall b, fl d1 (nf d) b =
              if in_range start (length blocks) b then Some (nth (b - start) blocks []) else fl d (nf d) b;
  fw_loc : forall b, loc d1 b = if in_range start (length blocks) b then nf d else loc d b;
  fw_holes : holes_in d start (start + length blocks) hs
}.

Lemma full_write_spec : forall d start blocks, loc_ok d ->
  let '(d1, hs) := full_write true d start blocks in fw_post d start blocks d1 hs.
Proof.
  intros d start blocks Hok. unfold full_write.
  set (w0 := mkwst (loc d) None 0 0 0 []).
  destruct (fw_loop_spec d start (length blocks) start w0 Hok (le_n _)) as (A & B & C).
  - intros x. subst w0. cbn [wl]. destruct (Nat.leb_spec start x); destruct (Nat.ltb_spec x start); cbn [andb]; try reflexivity; lia.
  - exact I.
  - intros f s l [].
  - set (w := fw_loop true d (nf d) (length blocks) start w0) in *.
    constructor.
    + repeat split.
    + intros j b Hj. cbn [fl set_loc set_fl]. now rewrite fupd_neq.
    + intros b. cbn [fl set_loc set_fl]. rewrite fupd_eq. apply write_blocks_spec.
    + intros b. cbn [loc set_loc]. rewrite A. reflexivity.
    + destruct (can_punch (wfile w) (wfidx w) (snapix d) (punch d)) eqn:Ec; [|assumption].
      apply holes_in_app; [assumption|].
      apply can_punch_true in Ec. destruct Ec as (f & Ef & Hb).
      unfold run_ok in B. rewrite Ef in *. destruct B as (-> & Hf & Ho & Hlen).
      intros f' s l [Hin|[]]. inversion Hin; subst. repeat split; lia.
Qed.

(** ** state well-formedness *)
Record wf (K : nat) (d : dd) : Prop := {
  wf_nf  : 1 <= nf d;
  wf_loc : loc_ok d;
  wf_ext : forall j b, nblk d <= b -> fl d j b = None;
  wf_len : forall j b v, fl d j b = Some v -> length v = K
}.

(** every retained user-created snapshot is at or below SnapIndx and its flag sits at its own index
    (openLiveChain) or one above (createDisk) *)
Definition prot (d : dd) : Prop :=
  forall i, 1 <= i < nf d -> usr d i = true -> rmd d i = false ->
            i <= snapix d /\ (ucs d i = true \/ ucs d (S i) = true).

(** holes that are sound w.r.t. the files of [d]: strictly between SnapIndx and the head, and every
    block has an extent in the head *)
Definition hs_sound (d : dd) (hs : list hole) : Prop :=
  forall f s l, In (f, s, l) hs ->
    snapix d < f < nf d /\ forall b, s <= b < s + l -> fl d (nf d) b <> None.

Lemma hs_sound_app : forall d a b, hs_sound d a -> hs_sound d b -> hs_sound d (a ++ b).
Proof. intros d a b Ha Hb f s l Hin. apply in_app_or in Hin. destruct Hin; eauto. Qed.

Lemma hs_sound_nil : forall d, hs_sound d [].
Proof. intros d f s l []. Qed.

(** soundness survives anything that keeps nf / SnapIndx and only adds extents to the head *)
Lemma hs_sound_mono : forall d d' hs, nf d' = nf d -> snapix d' = snapix d ->
  (forall b, fl d (nf d) b <> None -> fl d' (nf d) b <> None) ->
  hs_sound d hs -> hs_sound d' hs.
Proof.
  intros d d' hs E1 E2 Hm H f s l Hin. destruct (H f s l Hin) as (A & B).
  rewrite E1, E2. split; [assumption|]. intros b Hb. apply Hm. now apply B.
Qed.

Lemma fw_post_sound : forall d start blocks d1 hs,
  fw_post d start blocks d1 hs -> hs_sound d1 hs.
Proof.
  intros d start blocks d1 hs P f s l Hin.
  destruct (fw_holes _ _ _ _ _ P f s l Hin) as (A & B & C).
  destruct (fw_meta _ _ _ _ _ P) as (E1 & _ & _ & _ & _ & E2 & _).
  rewrite E1, E2. split; [assumption|]. intros b Hb.
  rewrite (fw_head _ _ _ _ _ P).
  replace (in_range start (length blocks) b) with true; [discriminate|].
  symmetry. apply in_range_true. lia.
Qed.

Lemma fw_post_wf : forall K d start blocks d1 hs, wf K d ->
  start + length blocks <= nblk d -> (forall v, In v blocks -> length v = K) ->
  fw_post d start blocks d1 hs -> wf K d1.
Proof.
  intros K d start blocks d1 hs W Hr Hlen P.
  destruct (fw_meta _ _ _ _ _ P) as (E1 & _ & _ & _ & _ & E2 & E3 & _).
  constructor.
  - rewrite E1. apply W.
  - intros b. rewrite E1, (fw_loc _ _ _ _ _ P).
    destruct (in_range start (length blocks) b) eqn:Er.
    + right. split; [pose proof (wf_nf _ _ W); lia|]. split; [intros; lia|].
      intros _. rewrite (fw_head _ _ _ _ _ P), Er. discriminate.
    + destruct (wf_loc _ _ W b) as [H0|(H1 & H2 & H3)]; [left; assumption|right].
      split; [assumption|]. split.
      * intros j Hj. destruct (Nat.eq_dec j (nf d)) as [->|Hne].
        -- rewrite (fw_head _ _ _ _ _ P), Er. apply H2. lia.
        -- rewrite (fw_other _ _ _ _ _ P) by assumption. now apply H2.
      * intros H. destruct (Nat.eq_dec (loc d b) (nf d)) as [Ee|Hne].
        -- rewrite Ee, (fw_head _ _ _ _ _ P), Er. rewrite <- Ee. now apply H3.
        -- rewrite (fw_other _ _ _ _ _ P) by assumption. now apply H3.
  - intros j b Hb. rewrite E3 in Hb. destruct (Nat.eq_dec j (nf d)) as [->|Hne].
    + rewrite (fw_head _ _ _ _ _ P).
      replace (in_range start (length blocks) b) with false; [now apply W|].
      symmetry. apply in_range_false. lia.
    + rewrite (fw_other _ _ _ _ _ P) by assumption. now apply W.
  - intros j b v. destruct (Nat.eq_dec j (nf d)) as [->|Hne].
    + rewrite (fw_head _ _ _ _ _ P). destruct (in_range start (length blocks) b) eqn:Er.
      * intros H. inversion H; subst. apply Hlen. apply nth_In. apply in_range_true in Er. lia.
      * apply W.
    + rewrite (fw_other _ _ _ _ _ P) by assumption. apply W.
Qed.

(** ** applying sound holes *)
Definition punched (d : dd) (hs : list hole) (ch : list bool) : dd := set_fl d (apply_holes (fl d) hs ch).

Lemma punched_meta : forall d hs ch, same_meta d (punched d hs ch).
Proof. intros; repeat split. Qed.

Lemma punched_cases : forall d hs ch f b,
  fl (punched d hs ch) f b = fl d f b \/
  (fl (punched d hs ch) f b = None /\ exists h, In h hs /\ covers h f b).
Proof. intros. apply apply_holes_cases. Qed.

(** the live image is untouched *)
Lemma punched_live : forall d hs ch b, hs_sound d hs ->
  top (fl (punched d hs ch)) (nf d) b = top (fl d) (nf d) b.
Proof.
  intros d hs ch b Hs. apply punch_safe.
  - intros f. destruct (punched_cases d hs ch f b) as [H|[H _]]; auto.
  - intros f Hf Hne. destruct (punched_cases d hs ch f b) as [H|[_ ([[i s] l] & Hin & Hc)]]; [contradiction|].
    destruct Hc as [-> Hb]. destruct (Hs f s l Hin) as (A & B).
    exists (nf d). split; [lia|]. now apply B.
Qed.

(** every prefix at or below SnapIndx is untouched *)
Lemma punched_protected : forall d hs ch J b, hs_sound d hs -> J <= snapix d ->
  top (fl (punched d hs ch)) J b = top (fl d) J b.
Proof.
  intros d hs ch J b Hs HJ. apply top_ext. intros i Hi.
  destruct (punched_cases d hs ch i b) as [H|[_ ([[i' s] l] & Hin & Hc)]]; [assumption|].
  destruct Hc as [-> Hb]. destruct (Hs i s l Hin) as (A & B). lia.
Qed.

Lemma punched_wf : forall K d hs ch, wf K d -> hs_sound d hs -> wf K (punched d hs ch).
Proof.
  intros K d hs ch W Hs. constructor.
  - apply W.
  - intros b. cbn [loc nf punched set_fl].
    destruct (wf_loc _ _ W b) as [H0|(H1 & H2 & H3)]; [left; assumption|right].
    split; [assumption|]. split.
    + intros j Hj. destruct (punched_cases d hs ch j b) as [H|[H _]]; [rewrite H; now apply H2 | exact H].
    + intros H. destruct (punched_cases d hs ch (loc d b) b) as [H'|[_ ([[i s] l] & Hin & Hc)]].
      * rewrite H'. now apply H3.
      * exfalso. destruct Hc as [Ei Hb]. destruct (Hs i s l Hin) as (A & B).
        (* the head has an extent at b, so loc b = head, but the hole is below the head *)
        destruct (Nat.eq_dec (loc d b) (nf d)) as [E|N]; [lia|].
        apply (B b Hb). apply H2. lia.
  - intros j b Hb. destruct (punched_cases d hs ch j b) as [H|[H _]]; [rewrite H; now apply W | exact H].
  - intros j b v Hv. destruct (punched_cases d hs ch j b) as [H|[H _]]; [rewrite H in Hv; eapply W; eauto | congruence].
Qed.

Lemma prot_same_meta : forall d d', same_meta d d' -> prot d -> prot d'.
Proof.
  intros d d' (E1 & E2 & E3 & E4 & E5 & E6 & _) P i Hi Hu Hr.
  rewrite E1 in Hi. rewrite E3 in Hu. rewrite E4 in Hr. rewrite E5, E6. now apply P.
Qed.

(** ** the block-aligned write, complete: the theorems of the reduced prototype at full scale *)
Theorem full_write_live : forall K d start blocks ch, wf K d ->
  start + length blocks <= nblk d -> (forall v, In v blocks -> length v = K) ->
  let '(d1, hs) := full_write true d start blocks in
  let d2 := punched d1 hs ch in
  wf K d2 /\ same_meta d d2 /\
  (forall b, img K (fl d2) (nf d) b =
             if in_range start (length blocks) b then nth (b - start) blocks [] else img K (fl d) (nf d) b) /\
  (forall J b, J <= snapix d -> J < nf d -> top (fl d2) J b = top (fl d) J b).
Proof.
  intros K d start blocks ch W Hr Hlen.
  pose proof (full_write_spec d start blocks (wf_loc _ _ W)) as P.
  destruct (full_write true d start blocks) as [d1 hs].
  pose proof (fw_post_sound _ _ _ _ _ P) as Hs.
  pose proof (fw_post_wf K _ _ _ _ _ W Hr Hlen P) as W1.
  destruct (fw_meta _ _ _ _ _ P) as (E1 & M).
  assert (Hsnap : snapix d1 = snapix d) by (destruct M as (_ & _ & _ & _ & E & _); exact E).
  split; [now apply punched_wf|]. split; [exact (same_meta_trans _ _ _ (fw_meta _ _ _ _ _ P) (punched_meta _ _ _))|].
  split.
  - intros b. unfold img. rewrite <- E1, punched_live by assumption. rewrite E1.
    pose proof (wf_nf _ _ W) as Hnf. destruct (nf d) as [|n] eqn:En; [lia|].
    rewrite !top_S. rewrite <- En. rewrite (fw_head _ _ _ _ _ P).
    destruct (in_range start (length blocks) b); [reflexivity|].
    rewrite En. destruct (fl d (S n) b); [reflexivity|].
    rewrite (top_ext (fl d1) (fl d) n b); [reflexivity|].
    intros i Hi. apply (fw_other _ _ _ _ _ P). lia.
  - intros J b HJ HJn. rewrite punched_protected by (try assumption; lia).
    apply top_ext. intros i Hi. apply (fw_other _ _ _ _ _ P). lia.
Qed.
