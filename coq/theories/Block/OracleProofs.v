(** * Block: the step-wise oracles (C16, C11) on traces of the model.
    The oracles compare consecutive observations; here they are proved for every history that stays
    inside the specification's domain. *)
From Coq Require Import List Arith Bool NArith Lia.
From Jiva Require Import Block.Model Block.Corr Block.Lemmas Block.ProofsWrite Block.ProofsUnit Block.ProofsRead
     Block.ProofsOps Block.ProofsPreload Block.Refine Block.Proofs.
Import ListNotations.

(** ** what an observation is, as a function of the state *)
Record Obs (K : nat) (d : dd) (ob : obs) : Prop := {
  ob_live : o_live ob = image K d (nf d);
  ob_chain : o_chain ob = map (nm d) (seq 1 (nf d));
  ob_attr : o_attr ob = map (fun i => (usr d i, rmd d i)) (seq 1 (nf d));
  ob_snaps : o_snaps ob = map (image K d) (seq 1 (nf d - 1));
  ob_nblk : o_nblk ob = nblk d
}.

Lemma observe_obs : forall K rv d x, 0 < K -> inv K d ->
  let '(d2, ob) := observe K rv d x in Obs K d ob /\ memo d d2 /\ o_res ob = ores x /\ o_data ob = odata x.
Proof.
  intros K rv d x HK I.
  pose proof (observe_spec K rv d x HK I) as OS.
  unfold observe, read_all in *.
  destruct (read_at K d 0 (nblk d * K)) as [lv d1].
  destruct OS as (M & Hr & Hd & Hl & Hs & _).
  pose proof M as (E1&E2&E3&E4&E5&_&_&E8&_).
  split; [|auto]. constructor; cbn [o_live o_chain o_attr o_snaps o_nblk] in *; try assumption.
  - now rewrite E1, E3.
  - now rewrite E1, E4, E5.
Qed.

Lemma obs_memo : forall K d d' ob, memo d d' -> Obs K d ob -> Obs K d' ob.
Proof.
  intros K d d' ob M [A B C D E]. pose proof M as (E1&E2&E3&E4&E5&_&_&E8&_).
  constructor; rewrite ?E1, ?E3, ?E4, ?E5, ?E8; try assumption.
  - rewrite A. symmetry. now apply memo_image.
  - rewrite D. apply map_ext. intros j. symmetry. now apply memo_image.
Qed.

Lemma obs0_obs : forall K nb p rv, 0 < K -> Obs K (init nb p) (obs0 (mkcfg K nb p rv)).
Proof.
  intros K nb p rv HK. unfold obs0. cbn [cK crev cnb cpunch].
  pose proof (observe_obs K rv (init nb p) (mkout ROk []) HK (inv_init K nb p)) as H.
  destruct (observe K rv (init nb p) (mkout ROk [])) as [d2 ob]. cbn [snd]. apply H.
Qed.

(** ** reflexivity of the comparisons *)
Lemma list_eqb_refl : forall A (e : A -> A -> bool) l, (forall x, e x x = true) -> list_eqb e l l = true.
Proof. intros A e l H. induction l as [|x l IH]; [reflexivity|]. cbn. now rewrite H, IH. Qed.

Lemma attr_eqb_refl : forall a, attr_eqb a a = true.
Proof. intros [[|] [|]]; reflexivity. Qed.

Lemma same_obs_of : forall K d a b, Obs K d a -> Obs K d b -> same_obs a b = true.
Proof.
  intros K d a b [A1 A2 A3 A4 A5] [B1 B2 B3 B4 B5]. unfold same_obs.
  rewrite A1, B1, A2, B2, A3, B3, A4, B4, A5, B5.
  rewrite !listN_eqb_refl, Nat.eqb_refl.
  rewrite (list_eqb_refl _ attr_eqb) by apply attr_eqb_refl.
  rewrite (list_eqb_refl _ listN_eqb) by apply listN_eqb_refl. reflexivity.
Qed.

(** ** looking a retained user-created snapshot up by name in an observation *)
Lemma user_img_seq : forall K d name k n a m,
  (forall i j, a <= i < a + n -> a <= j < a + n -> nm d i = nm d j -> i = j) ->
  a <= k < a + m -> m <= n -> nm d k = name -> usr d k = true -> rmd d k = false ->
  user_img (map (nm d) (seq a n)) (map (fun i => (usr d i, rmd d i)) (seq a n)) (map (image K d) (seq a m)) name
  = Some (image K d k).
Proof.
  intros K d name k n. induction n as [|n IH]; intros a m Hinj Hk Hm Hn Hu Hr; [lia|].
  destruct m as [|m]; [lia|]. cbn [seq map user_img].
  destruct (N.eqb_spec (nm d a) name) as [E|N].
  - assert (a = k) by (apply Hinj; [lia|lia|congruence]). subst a.
    unfold retained_attr. cbn [fst snd]. now rewrite Hu, Hr.
  - assert (a <> k) by (intro; subst; contradiction).
    apply IH; try assumption; try lia. intros i j Hi Hj. apply Hinj; lia.
Qed.

Lemma user_img_obs : forall K d ob k, Obs K d ob -> names_ok d -> 1 <= k < nf d ->
  usr d k = true -> rmd d k = false ->
  user_img (o_chain ob) (o_attr ob) (o_snaps ob) (nm d k) = Some (image K d k).
Proof.
  intros K d ob k [A B C D E] (_ & _ & Ninj) Hk Hu Hr. rewrite B, C, D.
  apply user_img_seq; try assumption; try lia. intros i j Hi Hj. apply Ninj; lia.
Qed.

(** ** C16 *)
Lemma grown_app : forall im0 m, grown im0 (im0 ++ repeat 0%N m) = true.
Proof.
  intros im0 m. unfold grown.
  rewrite firstn_app, Nat.sub_diag, firstn_O, app_nil_r, firstn_all, listN_eqb_refl.
  rewrite skipn_app, Nat.sub_diag, skipn_all. cbn [app skipn andb].
  unfold all_zero. apply forallb_forall. intros x Hx. apply repeat_spec in Hx. now subst.
Qed.

Lemma users_grown_seq : forall K d d' prev n a m,
  Obs K d prev -> names_ok d -> 1 <= a -> a + n = S (nf d) -> m <= n -> a + m = nf d ->
  (forall i, nm d' i = nm d i /\ usr d' i = usr d i /\ rmd d' i = rmd d i) ->
  (forall j, exists z, image K d' j = image K d j ++ repeat 0%N z) ->
  users_grown prev (map (nm d') (seq a n)) (map (fun i => (usr d' i, rmd d' i)) (seq a n))
              (map (image K d') (seq a m)) = true.
Proof.
  intros K d d' prev n. induction n as [|n IH]; intros a m OP N Ha Han Hm Ham Hat Him; [reflexivity|].
  destruct m as [|m]; [reflexivity|]. cbn [seq map users_grown].
  destruct (Hat a) as (F1 & F2 & F3). rewrite F1, F2, F3.
  apply andb_true_iff. split.
  - unfold retained_attr. cbn [fst snd]. destruct (usr d a) eqn:Eu; [|reflexivity].
    destruct (rmd d a) eqn:Er; [reflexivity|]. cbn [negb andb].
    rewrite (user_img_obs K d prev a OP N ltac:(lia) Eu Er).
    destruct (Him a) as (z & ->). apply grown_app.
  - apply IH; try assumption; lia.
Qed.

Lemma spec_step_size : forall K s o hint s1 r x, spec_step K s o hint = Some (s1, r, x) ->
  match o with Resize _ => True | _ => size s1 = size s end.
Proof.
  intros K s o hint s1 r x H. destruct o; cbn [spec_step] in H; try exact I.
  - destruct (size s * K <? off + length data); inversion H; reflexivity.
  - destruct (size s * K <? off + len); inversion H; reflexivity.
  - destruct (N.eqb name 0 || negb (spos (snaps s) name 1 =? 0)); [discriminate|].
    destruct (max_chain <? length (snaps s) + 3); inversion H; reflexivity.
  - destruct (classify s name); inversion H; reflexivity.
  - discriminate.
  - destruct (classify s name); inversion H; reflexivity.
  - destruct (classify s name) as [| | | |p]; try (inversion H; reflexivity).
    destruct (nth_error (snaps s) (p - 2)) as [par|]; [|discriminate].
    destruct (retained par); inversion H; reflexivity.
  - destruct (classify s name); try (inversion H; reflexivity);
      destruct (nth_error (snaps s) (spos (snaps s) name 1 - 1)); inversion H; reflexivity.
  - inversion H; reflexivity.
  - inversion H; reflexivity.
  - inversion H; reflexivity.
  - inversion H; reflexivity.
  - destruct checkpoint as [c|]; [destruct (N.eqb c 0); [discriminate|]|]; inversion H; reflexivity.
  - destruct (size s * K <? off + len); [inversion H; reflexivity|].
    destruct (fst hint); inversion H; reflexivity.
  - destruct checkpoint as [c|]; [|inversion H; reflexivity].
    destruct (N.eqb c 0); [discriminate|].
    destruct (s_picked s c victim); [|inversion H; reflexivity].
    destruct fail; inversion H; reflexivity.
  - discriminate.
Qed.

Lemma c16_step_model : forall K d s o ch d1 x s1 r data prev cur,
  0 < K -> inv K d -> Rel K d s -> Obs K d prev ->
  step true K d o ch = (d1, x) ->
  spec_step K s o (ores x, image K d1 (nf d1)) = Some (s1, r, data) ->
  Obs K d1 cur -> o_res cur = ores x ->
  c16_step K prev o cur = true.
Proof.
  intros K d s o ch d1 x s1 r data prev cur HK I R OP Hstep Hspec OC Hres.
  destruct (step_sim K d s o ch d1 x s1 r data HK I R Hstep Hspec) as (I1 & R1 & Hr & _).
  pose proof (spec_step_size K s o _ s1 r data Hspec) as Hsz.
  assert (Hnb : match o with Resize _ => True | _ => o_nblk cur =? o_nblk prev = true end).
  { destruct o; try exact Logic.I; rewrite (ob_nblk _ _ _ OC), (ob_nblk _ _ _ OP), <- (r_size _ _ _ R1), <- (r_size _ _ _ R), Hsz;
      apply Nat.eqb_refl. }
  destruct o; try exact Hnb. clear Hnb Hsz.
  cbn [c16_step step] in *. rewrite (ob_nblk _ _ _ OP).
  destruct (resize_cases d nb) as [(Hlt & E)|(Hge & E)]; rewrite E in Hstep;
    injection Hstep as Hd Hx; subst d1 x.
  - destruct (Nat.ltb_spec nb (nblk d)); [|lia]. rewrite Hres. cbn [ores res_eqb andb].
    eapply same_obs_of; eauto.
  - destruct (Nat.ltb_spec nb (nblk d)); [lia|]. fold (grown_dd d nb) in *.
    rewrite Hres. cbn [ores res_eqb andb].
    rewrite (ob_nblk _ _ _ OC). cbn [grown_dd nblk]. rewrite Nat.eqb_refl. cbn [andb].
    rewrite (ob_live _ _ _ OC), (ob_live _ _ _ OP).
    pose proof (inv_wf _ _ I) as W.
    rewrite image_length by (apply (inv_wf _ _ I1)). cbn [grown_dd nblk]. rewrite Nat.eqb_refl. cbn [andb].
    cbn [grown_dd nf]. rewrite (grown_image K d nb (nf d) W Hge), grown_app. cbn [andb].
    rewrite (ob_chain _ _ _ OC), (ob_chain _ _ _ OP). cbn [grown_dd nf nm]. rewrite listN_eqb_refl. cbn [andb].
    rewrite (ob_attr _ _ _ OC), (ob_snaps _ _ _ OC).
    change (nf (grown_dd d nb)) with (nf d).
    pose proof (wf_nf _ _ W) as Hnf.
    change (map (nm d) (seq 1 (nf d))) with (map (nm (grown_dd d nb)) (seq 1 (nf d))).
    apply (users_grown_seq K d (grown_dd d nb) prev (nf d) 1 (nf d - 1)); try assumption; try lia.
    + apply I.
    + intros i. repeat split.
    + intros j. eexists. now apply grown_image.
Qed.

(** ** histories inside the specification's domain *)
Fixpoint in_dom (K : nat) (s : spec) (ops : list op) (os : list obs) : bool :=
  match ops, os with
  | [], [] => true
  | o :: ops', cur :: os' =>
      match spec_step K s o (o_res cur, o_live cur) with
      | None => false
      | Some (s1, _, _) => in_dom K s1 ops' os'
      end
  | _, _ => false
  end.

(** a step-wise oracle whose step holds for every operation in the domain holds on every in-domain trace *)
Lemma step_oracle_model : forall (k : obs -> op -> obs -> bool) K rv,
  (forall d s o ch d1 x s1 r data prev cur,
      0 < K -> inv K d -> Rel K d s -> Obs K d prev ->
      step true K d o ch = (d1, x) ->
      spec_step K s o (ores x, image K d1 (nf d1)) = Some (s1, r, data) ->
      Obs K d1 cur -> o_res cur = ores x -> o_data cur = odata x -> k prev o cur = true) ->
  forall h d s prev, 0 < K -> inv K d -> Rel K d s -> Obs K d prev ->
  in_dom K s (map fst h) (trace true K rv d h) = true ->
  step_oracle k prev (map fst h) (trace true K rv d h) = true.
Proof.
  intros k K rv Hk h. induction h as [|[o ch] h IH]; intros d s prev HK I R OP Hd; [reflexivity|].
  cbn [map fst trace] in *.
  destruct (step true K d o ch) as [d1 x] eqn:Es.
  destruct (observe K rv d1 x) as [d2 ob] eqn:Eo.
  cbn [in_dom step_oracle] in *.
  destruct (spec_step K s o (o_res ob, o_live ob)) as [[[s1 r] data]|] eqn:Esp; [|discriminate].
  destruct (spec_step_hint K s o (o_res ob, o_live ob) (ores x, image K d1 (nf d1)) s1 r data Esp) as (s1' & r' & data' & Esp').
  destruct (step_sim K d s o ch d1 x s1' r' data' HK I R Es Esp') as (I1 & _ & _ & _).
  pose proof (observe_obs K rv d1 x HK I1) as OO. rewrite Eo in OO. destruct OO as (OC & M & Hres & Hdata).
  rewrite (ob_live _ _ _ OC), Hres in Esp.
  destruct (step_sim K d s o ch d1 x s1 r data HK I R Es Esp) as (_ & R1 & _ & _).
  apply andb_true_iff. split.
  - exact (Hk d s o ch d1 x s1 r data prev ob HK I R OP Es Esp OC Hres Hdata).
  - apply (IH d2 s1 ob HK (inv_memo K d1 d2 M I1) (memo_rel K d1 d2 s1 M R1) (obs_memo K d1 d2 ob M OC) Hd).
Qed.

Theorem c16_oracle_model : forall K nb p rv (h : list (op * list bool)), 0 < K ->
  in_dom K (spec0 (mkcfg K nb p rv)) (map fst h) (trace true K rv (init nb p) h) = true ->
  c16_oracle (mkcfg K nb p rv) (map fst h) (trace true K rv (init nb p) h) = true.
Proof.
  intros K nb p rv h HK Hd. unfold c16_oracle. cbn [cK].
  apply andb_true_iff. split.
  - apply (step_oracle_model (c16_step K) K rv) with (s := spec0 (mkcfg K nb p rv)); try assumption.
    + intros. eapply c16_step_model; eauto.
    + apply inv_init.
    + apply rel_init.
    + now apply obs0_obs.
  - exact (proj1 (block_refines_spec K nb p rv h HK)).
Qed.

(** ** C11: positions in an observed chain are the model's indices *)
Lemma pos_of_seq : forall d name n a, 1 <= a ->
  (pos_of (map (nm d) (seq a n)) name a = 0 /\ forall i, a <= i < a + n -> nm d i <> name) \/
  (a <= pos_of (map (nm d) (seq a n)) name a < a + n /\ nm d (pos_of (map (nm d) (seq a n)) name a) = name).
Proof.
  intros d name n. induction n as [|n IH]; intros a Ha.
  - left. split; [reflexivity|intros; lia].
  - cbn [seq map pos_of]. destruct (N.eqb_spec (nm d a) name) as [E|N].
    + right. split; [lia|assumption].
    + destruct (IH (S a) ltac:(lia)) as [(A & B)|(A & B)].
      * left. split; [assumption|]. intros i Hi. destruct (Nat.eq_dec i a) as [->|]; [assumption|apply B; lia].
      * right. split; [lia|assumption].
Qed.

Lemma pos_of_find : forall d name, names_ok d -> 1 <= nf d ->
  pos_of (map (nm d) (seq 1 (nf d))) name 1 = find_name d name (nf d).
Proof.
  intros d name (_ & _ & Ninj) Hnf.
  destruct (find_name_spec d name (nf d)) as (A & B & C).
  set (r := find_name d name (nf d)) in *.
  destruct (pos_of_seq d name (nf d) 1 (le_n _)) as [(E & H)|(H1 & H2)].
  - rewrite E. destruct (Nat.eq_dec r 0) as [|Nr]; [congruence|]. exfalso. apply (H r); [lia|now apply B].
  - set (p := pos_of (map (nm d) (seq 1 (nf d))) name 1) in *.
    destruct (Nat.eq_dec r 0) as [E0|Nr].
    + exfalso. rewrite E0 in C. apply (C p); [lia|assumption].
    + apply Ninj; [lia|lia|]. rewrite H2. symmetry. now apply B.
Qed.

Lemma protected_name_spec : forall K d prev name, Obs K d prev -> names_ok d -> 1 <= nf d ->
  let i := find_name d name (nf d) in
  protected_name prev name = negb (i =? 0) && ((i =? nf d) || (S i =? nf d) || (i =? 1)).
Proof.
  intros K d prev name OP N Hnf i. unfold protected_name.
  rewrite (ob_chain _ _ _ OP), map_length, seq_length, (pos_of_find d name N Hnf). reflexivity.
Qed.

Lemma nth_attr_obs : forall K d prev k, Obs K d prev -> 1 <= k <= nf d ->
  nth (k - 1) (o_attr prev) (false, false) = (usr d k, rmd d k).
Proof.
  intros K d prev k OP Hk. rewrite (ob_attr _ _ _ OP).
  rewrite nth_map_seq by lia. replace (1 + (k - 1)) with k by lia. reflexivity.
Qed.

(** every retained user-created member of the new state other than the victim was, under the same name, a
    retained member with the same image before *)
Lemma users_kept_seq : forall K d d' prev victim n a m,
  Obs K d prev -> names_ok d -> m <= n ->
  (forall i, a <= i < a + m -> usr d' i = true -> rmd d' i = false -> nm d' i <> victim ->
     exists k, 1 <= k < nf d /\ nm d k = nm d' i /\ usr d k = true /\ rmd d k = false /\
               image K d k = image K d' i) ->
  users_kept prev victim (map (nm d') (seq a n)) (map (fun i => (usr d' i, rmd d' i)) (seq a n))
             (map (image K d') (seq a m)) = true.
Proof.
  intros K d d' prev victim n. induction n as [|n IH]; intros a m OP N Hm H; [reflexivity|].
  destruct m as [|m]; [reflexivity|]. cbn [seq map users_kept].
  apply andb_true_iff. split.
  - unfold retained_attr. cbn [fst snd].
    destruct (usr d' a) eqn:Eu; [|reflexivity]. destruct (rmd d' a) eqn:Er; [reflexivity|].
    destruct (N.eqb_spec (nm d' a) victim) as [Ev|Nv]; [reflexivity|]. cbn [negb andb].
    destruct (H a ltac:(lia) Eu Er Nv) as (k & Hk & Hn & Hu & Hr & Him).
    rewrite <- Hn. rewrite (user_img_obs K d prev k OP N Hk Hu Hr). rewrite Him. apply listN_eqb_refl.
  - apply IH; try assumption; [lia|]. intros i Hi. apply H. lia.
Qed.

Lemma remove_name_absent : forall l name, ~ In name l -> remove_name l name = l.
Proof.
  induction l as [|x l IH]; intros name H; [reflexivity|]. cbn [remove_name].
  destruct (N.eqb_spec x name) as [E|N]; [exfalso; apply H; left; assumption|].
  f_equal. apply IH. intro Hin. apply H. right. assumption.
Qed.

Lemma remove_name_seq : forall d name i n a, a <= i < a + n -> nm d i = name ->
  (forall j, a <= j < i -> nm d j <> name) ->
  remove_name (map (nm d) (seq a n)) name =
  map (fun k => if k <? i then nm d k else nm d (S k)) (seq a (n - 1)).
Proof.
  intros d name i n. induction n as [|n IH]; intros a Hi Hn Hfirst; [lia|].
  cbn [seq map remove_name]. replace (S n - 1) with n by lia.
  destruct (N.eqb_spec (nm d a) name) as [E|N].
  - assert (a = i).
    { destruct (Nat.eq_dec a i); [assumption|]. exfalso. apply (Hfirst a); [lia|assumption]. }
    subst a. rewrite <- seq_shift, map_map. apply map_ext_in. intros k Hk. apply in_seq in Hk.
    destruct (Nat.ltb_spec k i); [lia|reflexivity].
  - assert (a <> i) by (intro; subst; contradiction).
    destruct n as [|n']; [lia|]. cbn [seq map]. replace (S n' - 0) with (S n') by lia.
    destruct (Nat.ltb_spec a i); [|lia]. f_equal.
    specialize (IH (S a) ltac:(lia) Hn ltac:(intros; apply Hfirst; lia)).
    replace (S n' - 1) with n' in IH by lia. exact IH.
Qed.

(** ** C11 on the model *)
Lemma image_mark : forall K d i j, image K (mark d i) j = image K d j.
Proof. reflexivity. Qed.

Lemma users_kept_same : forall K d d' prev victim, Obs K d prev -> names_ok d -> 1 <= nf d ->
  nf d' = nf d -> nm d' = nm d -> usr d' = usr d ->
  (forall k, rmd d' k = false -> rmd d k = false) ->
  (forall j, image K d' j = image K d j) ->
  users_kept prev victim (map (nm d') (seq 1 (nf d'))) (map (fun i => (usr d' i, rmd d' i)) (seq 1 (nf d')))
             (map (image K d') (seq 1 (nf d' - 1))) = true.
Proof.
  intros K d d' prev victim OP N Hnf E1 E2 E3 Hr Him.
  apply (users_kept_seq K d d' prev victim (nf d') 1 (nf d' - 1) OP N ltac:(lia)).
  intros i Hi Hu Hrm _. exists i. rewrite E1 in Hi. rewrite E2, <- E3. repeat split; try lia; auto.
Qed.

(** the candidate list of the model obeys the filter stated on observations *)
Lemma cand_ok_model : forall K d prev cp, Obs K d prev -> names_ok d -> 1 <= nf d ->
  (forall c, cp = Some c -> c <> 0%N) ->
  forallb (cand_ok prev cp) (candidates d cp) = true.
Proof.
  intros K d prev cp OP N Hnf Hcp. apply forallb_forall. intros name Hin.
  destruct (cleaner_filter d cp name Hin) as (c & k & -> & Hc0 & Hk & Hnm & R1 & R2 & Hlat).
  pose proof (Hcp c eq_refl) as Nc.
  destruct (find_name_spec d c (nf d)) as (Hle & Hcn & _). specialize (Hcn Hc0).
  assert (Hclt : find_name d c (nf d) < nf d).
  { destruct (Nat.eq_dec (find_name d c (nf d)) (nf d)) as [E|]; [|lia].
    exfalso. apply Nc. rewrite <- Hcn, E. apply N. }
  unfold cand_ok. rewrite (ob_chain _ _ _ OP), map_length, seq_length.
  rewrite !(pos_of_find d _ N Hnf).
  assert (Hfk : find_name d name (nf d) = k) by (rewrite <- Hnm; apply find_name_at; [assumption|lia]).
  rewrite Hfk.
  rewrite (nth_attr_obs K d prev k OP ltac:(lia)).
  replace (k - 2) with (k - 1 - 1) by lia. rewrite (nth_attr_obs K d prev (k - 1) OP ltac:(lia)).
  unfold retained_user in R1, R2. unfold retained_attr. cbn [fst snd]. rewrite R1, R2.
  destruct (Nat.leb_spec 2 k); [|lia]. destruct (Nat.ltb_spec k (find_name d c (nf d))); [|lia].
  destruct (Nat.eqb_spec (find_name d c (nf d)) 0); [contradiction|].
  destruct (Nat.ltb_spec (S k) (nf d)); [reflexivity|]. specialize (Hlat Hclt). lia.
Qed.

(** both directions of "the retained user-created snapshots are the same, with the same images", for a
    state that differs from [d] only in the Removed mark of member [i], which is not retained in [d] *)
Lemma users_kept_marked : forall K d i a b victim, Obs K d a -> Obs K (mark d i) b -> names_ok d -> 1 <= nf d ->
  retained_user d i = false ->
  users_kept a victim (o_chain b) (o_attr b) (o_snaps b) = true /\
  users_kept b victim (o_chain a) (o_attr a) (o_snaps a) = true.
Proof.
  intros K d i a b victim OA OB N Hnf Hri. split.
  - rewrite (ob_chain _ _ _ OB), (ob_attr _ _ _ OB), (ob_snaps _ _ _ OB).
    apply (users_kept_same K d (mark d i) a victim OA N Hnf); auto.
    intros k Hk. cbn [mark rmd] in Hk. destruct (Nat.eq_dec k i) as [->|Hne];
      [rewrite fupd_eq in Hk; discriminate|now rewrite fupd_neq in Hk].
  - rewrite (ob_chain _ _ _ OA), (ob_attr _ _ _ OA), (ob_snaps _ _ _ OA).
    apply (users_kept_seq K (mark d i) d b victim (nf d) 1 (nf d - 1) OB N ltac:(lia)).
    intros k Hk Hu Hrm _. exists k. cbn [mark nf nm usr rmd].
    assert (Hki : k <> i).
    { intro E. subst k. unfold retained_user in Hri. rewrite Hu, Hrm in Hri. discriminate. }
    rewrite fupd_neq by assumption. repeat split; try lia; auto.
Qed.

Lemma c11_step_model : forall K d s o ch d1 x s1 r data prev cur,
  0 < K -> inv K d -> Rel K d s -> Obs K d prev ->
  step true K d o ch = (d1, x) ->
  spec_step K s o (ores x, image K d1 (nf d1)) = Some (s1, r, data) ->
  Obs K d1 cur -> o_res cur = ores x -> o_data cur = odata x ->
  c11_step prev o cur = true.
Proof.
  intros K d s o ch d1 x s1 r data prev cur HK I R OP Hstep Hspec OC Hres Hdata.
  pose proof (inv_wf _ _ I) as W. pose proof (wf_nf _ _ W) as Hnf.
  pose proof (inv_names _ _ I) as N.
  pose proof (step_sim K d s o ch d1 x s1 r data HK I R Hstep Hspec) as (I1 & _).
  destruct o as [off wdata|off len|name user|name|src dst|name|name|name|pre|pre|pb|nb| |cp|off len fi|cp victim fail|off len];
    try reflexivity; cbn [c11_step step spec_step] in *.
  - (* PrepRemove *)
    rewrite (protected_name_spec K d prev name OP N Hnf).
    destruct (prep_remove_cases d name) as [(E & Hi)|[(E & Hi & Hc)|(H2 & Hn & E)]]; rewrite E in Hstep;
      injection Hstep as Hd Hx; subst d1 x.
    + rewrite Hi. cbn [Nat.eqb negb andb].
      rewrite (ob_live _ _ _ OC), (ob_live _ _ _ OP), (ob_chain _ _ _ OC), (ob_chain _ _ _ OP), !listN_eqb_refl.
      cbn [andb]. rewrite (ob_attr _ _ _ OC), (ob_snaps _ _ _ OC).
      apply (users_kept_same K d d prev name OP N Hnf); auto.
    + replace (negb (find_name d name (nf d) =? 0)) with true
        by (symmetry; apply negb_true_iff; apply Nat.eqb_neq; assumption).
      replace ((find_name d name (nf d) =? nf d) || (S (find_name d name (nf d)) =? nf d) || (find_name d name (nf d) =? 1))
        with true.
      * cbn [andb]. rewrite Hres. cbn [ores res_eqb andb]. eapply same_obs_of; eauto.
      * symmetry. destruct Hc as [Hc|[Hc|Hc]]; rewrite Hc, ?Nat.eqb_refl, ?orb_true_r; reflexivity.
    + set (i := find_name d name (nf d)) in *.
      destruct (Nat.eqb_spec i 0); [lia|]. destruct (Nat.eqb_spec i (nf d)); [lia|].
      destruct (Nat.eqb_spec (S i) (nf d)); [lia|]. destruct (Nat.eqb_spec i 1); [lia|]. cbn [negb orb andb].
      fold (mark d i) in *.
      rewrite (ob_live _ _ _ OC), (ob_live _ _ _ OP), (ob_chain _ _ _ OC), (ob_chain _ _ _ OP).
      change (nf (mark d i)) with (nf d). change (nm (mark d i)) with (nm d). rewrite image_mark, !listN_eqb_refl.
      cbn [andb]. rewrite (ob_attr _ _ _ OC), (ob_snaps _ _ _ OC).
      apply (users_kept_same K d (mark d i) prev name OP N Hnf); auto.
      intros k Hk. cbn [mark rmd] in Hk. destruct (Nat.eq_dec k i) as [->|Hne];
        [rewrite fupd_eq in Hk; discriminate|now rewrite fupd_neq in Hk].
  - (* Remove: inside the domain only head, latest or an unknown name *)
    rewrite (protected_name_spec K d prev name OP N Hnf).
    pose proof (classify_spec K d s name N R Hnf) as CS. cbn zeta in CS.
    unfold remove, remove_g in Hstep.
    destruct (classify s name) as [| | | |p]; try discriminate.
    + rewrite CS in *. destruct (Nat.eqb_spec (nf d) 0); [lia|]. rewrite Nat.eqb_refl in *.
      injection Hstep as Hd Hx; subst d1 x. cbn [negb orb andb]. rewrite Hres. cbn [ores res_eqb andb].
      eapply same_obs_of; eauto.
    + rewrite CS. reflexivity.
    + destruct CS as (C1 & C2). destruct (Nat.eqb_spec (find_name d name (nf d)) 0); [contradiction|].
      destruct (Nat.eqb_spec (find_name d name (nf d)) (nf d)); [lia|].
      destruct (Nat.eqb_spec (S (find_name d name (nf d))) (nf d)); [|contradiction].
      injection Hstep as Hd Hx; subst d1 x. cbn [negb orb andb]. rewrite Hres. cbn [ores res_eqb andb].
      eapply same_obs_of; eauto.
  - (* Delete *)
    rewrite (protected_name_spec K d prev name OP N Hnf).
    pose proof (classify_spec K d s name N R Hnf) as CS. cbn zeta in CS.
    destruct (delete_cases d name) as [(E & Hi)|[(E & Hi & Hc)|(H2 & Hn & E)]]; rewrite E in Hstep;
      injection Hstep as Hd Hx; subst d1 x.
    + rewrite Hi. cbn [Nat.eqb negb andb].
      destruct (parent_retained prev name); [reflexivity|].
      rewrite (ob_live _ _ _ OC), (ob_live _ _ _ OP), (ob_chain _ _ _ OC), (ob_chain _ _ _ OP).
      rewrite remove_name_absent.
      * rewrite !listN_eqb_refl. cbn [andb]. rewrite (ob_attr _ _ _ OC), (ob_snaps _ _ _ OC).
        apply (users_kept_same K d d prev name OP N Hnf); auto.
      * intro Hin. apply in_map_iff in Hin. destruct Hin as (k & Hk & Hks). apply in_seq in Hks.
        apply (find_name_none d name Hi k); [lia|assumption].
    + replace (negb (find_name d name (nf d) =? 0)) with true
        by (symmetry; apply negb_true_iff; apply Nat.eqb_neq; assumption).
      replace ((find_name d name (nf d) =? nf d) || (S (find_name d name (nf d)) =? nf d) || (find_name d name (nf d) =? 1))
        with true.
      * cbn [andb]. rewrite Hres. cbn [ores res_eqb andb]. eapply same_obs_of; eauto.
      * symmetry. destruct Hc as [Hc|[Hc|Hc]]; rewrite Hc, ?Nat.eqb_refl, ?orb_true_r; reflexivity.
    + set (i := find_name d name (nf d)) in *.
      destruct (Nat.eqb_spec i 0); [lia|]. destruct (Nat.eqb_spec i (nf d)); [lia|].
      destruct (Nat.eqb_spec (S i) (nf d)); [lia|]. destruct (Nat.eqb_spec i 1); [lia|]. cbn [negb orb andb].
      destruct (parent_retained prev name); [reflexivity|].
      (* inside the domain the merge target is not a retained user-created snapshot *)
      destruct (classify s name) as [| | | |p]; try lia. destruct CS as (-> & _ & _).
      destruct (nth_error (snaps s) (i - 2)) as [par|] eqn:Epar; [|discriminate].
      destruct (retained par) eqn:Erp; [discriminate|].
      assert (Hpar : usr d (i - 1) = true -> rmd d (i - 1) = true).
      { intros Hu.
        assert (Hn' : nth_error (snaps s) (i - 1 - 1) = Some par) by (replace (i - 1 - 1) with (i - 2) by lia; assumption).
        destruct (r_snaps _ _ _ R (i - 1) par ltac:(lia) Hn') as (_ & B & C & _).
        unfold retained in Erp. rewrite B, C, Hu in Erp. cbn in Erp. apply negb_false_iff in Erp. exact Erp. }
      destruct (find_name_spec d name (nf d)) as (_ & Hnm & _). fold i in Hnm. specialize (Hnm ltac:(lia)).
      destruct N as (Nh & Nz & Ninj).
      set (d1 := merged (mark d i) i) in *.
      assert (Enf : nf d1 = nf d - 1) by reflexivity.
      assert (Hattr : forall k, nm d1 k = (if k <? i then nm d k else nm d (S k)) /\
                                usr d1 k = (if k <? i then usr d k else usr d (S k)) /\
                                rmd d1 k = (if k <? i then rmd (mark d i) k else rmd (mark d i) (S k))).
      { intros k. unfold d1, merged, remove_index, coalesce_ix, shift_out. cbn [nm usr rmd set_fl mark]. auto. }
      rewrite (ob_live _ _ _ OC), (ob_live _ _ _ OP), (ob_chain _ _ _ OC), (ob_chain _ _ _ OP).
      assert (Hlive : image K d1 (nf d1) = image K d (nf d)).
      { rewrite Enf. apply image_ext2; [reflexivity|]. intros b. unfold d1.
        rewrite merged_top_high by (cbn [mark nf]; lia). replace (S (nf d - 1)) with (nf d) by lia. reflexivity. }
      rewrite Hlive, listN_eqb_refl. cbn [andb].
      assert (Hfirst : forall j, 1 <= j < i -> nm d j <> name).
      { intros j Hj Hjn. assert (j = i) by (apply Ninj; [lia|lia|congruence]). lia. }
      rewrite (remove_name_seq d name i (nf d) 1 ltac:(lia) Hnm Hfirst).
      rewrite Enf.
      assert (Hchain : map (nm d1) (seq 1 (nf d - 1)) = map (fun k => if k <? i then nm d k else nm d (S k)) (seq 1 (nf d - 1))).
      { apply map_ext. intros k. apply Hattr. }
      rewrite Hchain, listN_eqb_refl. cbn [andb].
      rewrite (ob_attr _ _ _ OC), (ob_snaps _ _ _ OC), Enf, <- Hchain.
      apply (users_kept_seq K d d1 prev name (nf d - 1) 1 (nf d - 1 - 1) OP (conj Nh (conj Nz Ninj)) ltac:(lia)).
      intros k Hk Hu Hrm Hnv. destruct (Hattr k) as (F1 & F2 & F3). rewrite F1, F2 in *. rewrite F3 in Hrm.
      destruct (Nat.ltb_spec k i) as [Hlt|Hge].
      * exists k. cbn [mark rmd] in Hrm. rewrite fupd_neq in Hrm by lia.
        destruct (Nat.eq_dec k (i - 1)) as [Ek|Nk].
        -- exfalso. subst k. rewrite (Hpar Hu) in Hrm. discriminate.
        -- repeat split; try lia; try assumption.
           symmetry. apply image_ext2; [reflexivity|]. intros b. unfold d1. rewrite merged_top_low by lia. reflexivity.
      * exists (S k). cbn [mark rmd] in Hrm. rewrite fupd_neq in Hrm by lia.
        repeat split; try lia; try assumption.
        symmetry. apply image_ext2; [reflexivity|]. intros b. unfold d1. rewrite merged_top_high by lia. reflexivity.
  - (* Candidates *)
    injection Hstep as Hd Hx; subst d1 x. cbn [odata] in Hdata.
    apply andb_true_iff. split; [|eapply same_obs_of; eauto].
    rewrite Hdata. apply forallb_forall. intros name Hin.
    destruct (cleaner_filter d cp name Hin) as (c & k & -> & Hc0 & Hk & Hnm & R1 & R2 & Hlat).
    destruct (N.eqb_spec c 0) as [Ec|Nc]; [discriminate|].
    destruct (find_name_spec d c (nf d)) as (Hle & Hcn & _). specialize (Hcn Hc0).
    assert (Hclt : find_name d c (nf d) < nf d).
    { destruct (Nat.eq_dec (find_name d c (nf d)) (nf d)) as [E|]; [|lia].
      exfalso. apply Nc. rewrite <- Hcn, E. apply N. }
    unfold cand_ok. rewrite (ob_chain _ _ _ OP), map_length, seq_length.
    rewrite !(pos_of_find d _ N Hnf).
    assert (Hfk : find_name d name (nf d) = k) by (rewrite <- Hnm; apply find_name_at; [assumption|lia]).
    rewrite Hfk.
    rewrite (nth_attr_obs K d prev k OP ltac:(lia)).
    replace (k - 2) with (k - 1 - 1) by lia. rewrite (nth_attr_obs K d prev (k - 1) OP ltac:(lia)).
    unfold retained_user in R1, R2. unfold retained_attr. cbn [fst snd]. rewrite R1, R2.
    destruct (Nat.leb_spec 2 k); [|lia]. destruct (Nat.ltb_spec k (find_name d c (nf d))); [|lia].
    destruct (Nat.eqb_spec (find_name d c (nf d)) 0); [contradiction|].
    destruct (Nat.ltb_spec (S k) (nf d)); [reflexivity|]. specialize (Hlat Hclt). lia.
  - (* Clean: one pass of the background cleaner *)
    assert (Hcp : forall c, cp = Some c -> c <> 0%N).
    { intros c -> E0. subst c. cbn in Hspec. discriminate. }
    destruct (clean d cp victim fail) as [dc rc] eqn:Ec.
    injection Hstep as Hd Hx; subst d1 x. cbn [odata ores] in *.
    rewrite Hdata, (cand_ok_model K d prev cp OP N Hnf Hcp). cbn [andb].
    (* the state did not change: nothing picked *)
    assert (Hsame : dc = d -> existsb (N.eqb victim) (candidates d cp) = false ->
      listN_eqb (o_live cur) (o_live prev) && users_kept prev victim (o_chain cur) (o_attr cur) (o_snaps cur)
      && users_kept cur victim (o_chain prev) (o_attr prev) (o_snaps prev)
      && (if fail || negb (existsb (N.eqb victim) (candidates d cp)) then listN_eqb (o_chain cur) (o_chain prev)
          else listN_eqb (o_chain cur) (remove_name (o_chain prev) victim)) = true).
    { intros -> Ep. rewrite Ep. cbn [negb]. rewrite orb_true_r.
      rewrite (ob_live _ _ _ OC), (ob_live _ _ _ OP), (ob_chain _ _ _ OC), (ob_chain _ _ _ OP), !listN_eqb_refl.
      rewrite andb_true_r. cbn [andb]. apply andb_true_iff. split.
      - rewrite (ob_attr _ _ _ OC), (ob_snaps _ _ _ OC). apply (users_kept_same K d d prev victim OP N Hnf); auto.
      - rewrite (ob_attr _ _ _ OP), (ob_snaps _ _ _ OP). apply (users_kept_same K d d cur victim OC N Hnf); auto. }
    rewrite <- !andb_assoc in Hsame |- *.
    destruct (clean_cases d cp victim fail) as [(Ep & E)|(Ep & HC)]; rewrite Ec in *.
    { injection E as Hdc _. now apply Hsame. }
    destruct cp as [c|]; [|cbn in Ep; discriminate]. pose proof (Hcp c eq_refl) as Nc.
    pose proof Ep as Ep'. apply existsb_exists in Ep'. destruct Ep' as (v' & Hin & Ev). apply N.eqb_eq in Ev. subst v'.
    destruct (picked_index d c victim N Nc Hin) as (H2 & Hlt & Hn & Hnm & Hv & R1 & R2).
    destruct HC as [(E & Hc)|(_ & _ & E)]; [exfalso; lia|].
    set (i := find_name d victim (nf d)) in *. rewrite Ep. cbn [negb]. rewrite orb_false_r.
    destruct fail; injection E as -> _.
    + (* the merge failed: marked Removed, still a member *)
      destruct (users_kept_marked K d i prev cur victim OP OC N Hnf R1) as (U1 & U2). rewrite U1, U2.
      rewrite (ob_live _ _ _ OC), (ob_live _ _ _ OP), (ob_chain _ _ _ OC), (ob_chain _ _ _ OP).
      change (nf (mark d i)) with (nf d). change (nm (mark d i)) with (nm d). rewrite image_mark, !listN_eqb_refl.
      reflexivity.
    + (* merged and removed: as a deletion *)
      assert (Hpar : usr d (i - 1) = true -> rmd d (i - 1) = true).
      { intros Hu. unfold retained_user in R2. rewrite Hu in R2. cbn in R2. now apply negb_false_iff in R2. }
      pose proof N as (Nh & Nz & Ninj).
      set (dm := merged (mark d i) i) in *.
      assert (Enf : nf dm = nf d - 1) by reflexivity.
      assert (Hattr : forall k, nm dm k = (if k <? i then nm d k else nm d (S k)) /\
                                usr dm k = (if k <? i then usr d k else usr d (S k)) /\
                                rmd dm k = (if k <? i then rmd (mark d i) k else rmd (mark d i) (S k))).
      { intros k. unfold dm, merged, remove_index, coalesce_ix, shift_out. cbn [nm usr rmd set_fl mark]. auto. }
      rewrite (ob_live _ _ _ OC), (ob_live _ _ _ OP).
      assert (Hlive : image K dm (nf dm) = image K d (nf d)).
      { rewrite Enf. apply image_ext2; [reflexivity|]. intros b. unfold dm.
        rewrite merged_top_high by (cbn [mark nf]; lia). replace (S (nf d - 1)) with (nf d) by lia. reflexivity. }
      rewrite Hlive, listN_eqb_refl. cbn [andb].
      assert (Hfirst : forall j, 1 <= j < i -> nm d j <> victim).
      { intros j Hj Hjn. assert (j = i) by (apply Ninj; [lia|lia|congruence]). lia. }
      assert (Hchain : map (nm dm) (seq 1 (nf d - 1)) = map (fun k => if k <? i then nm d k else nm d (S k)) (seq 1 (nf d - 1))).
      { apply map_ext. intros k. apply Hattr. }
      assert (Hc3 : listN_eqb (o_chain cur) (remove_name (o_chain prev) victim) = true).
      { rewrite (ob_chain _ _ _ OC), (ob_chain _ _ _ OP).
        rewrite (remove_name_seq d victim i (nf d) 1 ltac:(lia) Hnm Hfirst). rewrite Enf, Hchain. apply listN_eqb_refl. }
      rewrite Hc3, andb_true_r. apply andb_true_iff. split.
      * rewrite (ob_chain _ _ _ OC), (ob_attr _ _ _ OC), (ob_snaps _ _ _ OC), Enf.
        apply (users_kept_seq K d dm prev victim (nf d - 1) 1 (nf d - 1 - 1) OP N ltac:(lia)).
        intros k Hk Hu Hrm Hnv. destruct (Hattr k) as (F1 & F2 & F3). rewrite F1, F2 in *. rewrite F3 in Hrm.
        destruct (Nat.ltb_spec k i) as [Hlt'|Hge].
        -- exists k. cbn [mark rmd] in Hrm. rewrite fupd_neq in Hrm by lia.
           destruct (Nat.eq_dec k (i - 1)) as [Ek|Nk].
           ++ exfalso. subst k. rewrite (Hpar Hu) in Hrm. discriminate.
           ++ repeat split; try lia; try assumption.
              symmetry. apply image_ext2; [reflexivity|]. intros b. unfold dm. rewrite merged_top_low by lia. reflexivity.
        -- exists (S k). cbn [mark rmd] in Hrm. rewrite fupd_neq in Hrm by lia.
           repeat split; try lia; try assumption.
           symmetry. apply image_ext2; [reflexivity|]. intros b. unfold dm. rewrite merged_top_high by lia. reflexivity.
      * rewrite (ob_chain _ _ _ OP), (ob_attr _ _ _ OP), (ob_snaps _ _ _ OP).
        apply (users_kept_seq K dm d cur victim (nf d) 1 (nf d - 1) OC (inv_names _ _ I1) ltac:(lia)).
        intros k Hk Hu Hrm Hnv.
        assert (Hki : k <> i) by (intro E; subst k; contradiction).
        assert (Hkp : k <> i - 1).
        { intro E. subst k. rewrite (Hpar Hu) in Hrm. discriminate. }
        destruct (Nat.ltb_spec k i) as [Hlt'|Hge].
        -- exists k. destruct (Hattr k) as (F1 & F2 & F3). rewrite F1, F2, F3, Enf.
           destruct (Nat.ltb_spec k i); [|lia]. cbn [mark rmd]. rewrite fupd_neq by lia.
           repeat split; try lia; try assumption.
           apply image_ext2; [reflexivity|]. intros b. unfold dm. rewrite merged_top_low by lia. reflexivity.
        -- exists (k - 1). destruct (Hattr (k - 1)) as (F1 & F2 & F3). rewrite F1, F2, F3, Enf.
           destruct (Nat.ltb_spec (k - 1) i); [lia|]. replace (S (k - 1)) with k by lia.
           cbn [mark rmd]. rewrite fupd_neq by lia.
           repeat split; try lia; try assumption.
           apply image_ext2; [reflexivity|]. intros b. unfold dm. rewrite merged_top_high by lia.
           replace (S (k - 1)) with k by lia. reflexivity.
Qed.

Theorem c11_oracle_model : forall K nb p rv (h : list (op * list bool)), 0 < K ->
  in_dom K (spec0 (mkcfg K nb p rv)) (map fst h) (trace true K rv (init nb p) h) = true ->
  c11_oracle (mkcfg K nb p rv) (map fst h) (trace true K rv (init nb p) h) = true.
Proof.
  intros K nb p rv h HK Hd. unfold c11_oracle.
  apply (step_oracle_model c11_step K rv) with (s := spec0 (mkcfg K nb p rv)); try assumption.
  - intros. eapply c11_step_model; eauto.
  - apply inv_init.
  - apply rel_init.
  - now apply obs0_obs.
Qed.

(** non-vacuity: the demonstration history (unaligned writes, both kinds of snapshot, reclamation, a
    deletion, reload, resize, reopen, revert) is inside the domain, so all four oracles are checked at
    every one of its steps *)
Example demo_in_dom :
  in_dom 4 (spec0 (mkcfg 4 4 true true)) (map fst demo_history) (trace true 4 true (init 4 true) demo_history) = true.
Proof. vm_compute. reflexivity. Qed.

(** non-vacuity for the two fault events: reads while file 1 / 2 / a file outside the chain cannot be read
    (fails when a block of the request is served from it, otherwise returns the written data), and passes of
    the cleaner with checkpoint 5 (candidates: only 4 -- 2 is a retained user-created snapshot, 3 would
    merge into it): the merge fails (4 stays, marked Removed), the implementation's pick 3 is not a
    candidate (nothing happens), the merge succeeds (4 leaves the chain), nothing left to clean.
    The history is inside the domain, so every oracle is checked at every step. *)
Definition fault_history : list (op * list bool) :=
  [(Write 0 (repeat 1%N 4), []); (Snap 1%N false, []); (Write 2 (repeat 2%N 1), []);
   (ReadFault 0 2 1, []); (ReadFault 2 1 1, []); (ReadFault 0 3 2, []); (ReadFault 0 2 2, []); (ReadFault 0 4 3, []);
   (Snap 2%N true, []); (Write 4 (repeat 3%N 1), []); (Snap 3%N false, []); (Write 5 (repeat 4%N 1), []);
   (Snap 4%N false, []); (Write 6 (repeat 5%N 1), []); (Snap 5%N false, []); (Write 7 (repeat 6%N 1), []);
   (Clean (Some 5%N) 4%N true, []); (Clean (Some 5%N) 3%N false, []); (Clean (Some 5%N) 4%N false, []);
   (Clean (Some 5%N) 2%N false, []); (Clean None 4%N false, []); (Read 0 8, [])].

Example fault_demo :
  let tr := trace true 1 false (init 8 false) fault_history in
  in_dom 1 (spec0 (mkcfg 1 8 false false)) (map fst fault_history) tr = true /\
  map (fun o => (o_res o, o_data o)) (firstn 5 (skipn 3 tr)) =
    [(RErr, []); (ROk, [2]); (RErr, []); (ROk, [1; 1]); (ROk, [1; 1; 2; 1])]%N /\
  map (fun o => (o_res o, o_chain o)) (firstn 4 (skipn 16 tr)) =
    [(RErr, [1; 2; 3; 4; 5; 0]); (ROk, [1; 2; 3; 4; 5; 0]); (ROk, [1; 2; 3; 5; 0]); (ROk, [1; 2; 3; 5; 0])]%N /\
  o_data (nth 21 tr (obs0 (mkcfg 1 8 false false))) = [1; 1; 2; 1; 3; 4; 5; 6]%N.
Proof. vm_compute. repeat split; reflexivity. Qed.

(** ** C06: a discard (diffDisk.Unmap punches every chain file above SnapIndx) leaves the chain, the attributes
    and every retained user-created snapshot alone: their files are at or below SnapIndx ([prot]).  What the
    live volume reads afterwards is not promised ([spec_step] does not speak about [Unmap]: the location table
    may point into a punched file), so [block_refines_spec] claims nothing from an unmap onwards; the step-wise
    oracle [c06u_step] is what the correspondence run evaluates around every unmap. *)
Theorem unmap_keeps_user_snapshots : forall K d off len, inv K d ->
  let d1 := unmap K d off len in
  nf d1 = nf d /\ nm d1 = nm d /\ usr d1 = usr d /\ rmd d1 = rmd d /\ nblk d1 = nblk d /\ loc d1 = loc d /\
  (forall i b, i <= snapix d -> top (fl d1) i b = top (fl d) i b) /\
  (forall i, 1 <= i < nf d -> usr d i = true -> rmd d i = false -> image K d1 i = image K d i).
Proof.
  intros K d off len I. cbn zeta. repeat (split; [reflexivity|]).
  assert (Htop : forall i b, i <= snapix d -> top (fl (unmap K d off len)) i b = top (fl d) i b).
  { intros i b Hi. apply top_ext. intros j Hj. unfold unmap. cbn [fl set_fl].
    destruct (Nat.ltb_spec (snapix d) j); [lia|]. reflexivity. }
  split; [exact Htop|]. intros i Hi Hu Hr. apply image_ext; [reflexivity|]. intros b. apply Htop.
  destruct (inv_prot _ _ I i Hi Hu Hr) as (Hs & _). exact Hs.
Qed.

(** the oracle clause evaluated around every unmap holds for the model's step from every state that
    satisfies the invariant (every state reached through operations the specification speaks about) *)
Theorem c06u_step_model : forall K d off len prev cur, inv K d ->
  Obs K d prev -> Obs K (unmap K d off len) cur -> c06u_step prev (Unmap off len) cur = true.
Proof.
  intros K d off len prev cur I OP OC.
  pose proof (inv_names _ _ I) as N. pose proof (wf_nf _ _ (inv_wf _ _ I)) as Hnf.
  destruct (unmap_keeps_user_snapshots K d off len I) as (_ & _ & _ & _ & _ & _ & _ & Him).
  cbn zeta in Him. set (d1 := unmap K d off len) in *.
  assert (N1 : names_ok d1) by exact N.
  cbn [c06u_step].
  rewrite (ob_chain _ _ _ OC), (ob_chain _ _ _ OP), (ob_attr _ _ _ OC), (ob_attr _ _ _ OP),
          (ob_snaps _ _ _ OC), (ob_snaps _ _ _ OP).
  apply andb_true_iff. split; [apply andb_true_iff; split; [apply andb_true_iff; split|]|].
  - apply listN_eqb_refl.
  - apply list_eqb_refl. apply attr_eqb_refl.
  - apply (users_kept_seq K d d1 prev 0%N (nf d1) 1 (nf d1 - 1) OP N ltac:(lia)).
    intros i Hi Hu Hr _. exists i. change (nf d1) with (nf d) in Hi.
    repeat split; try lia; auto. symmetry. apply Him; [lia|exact Hu|exact Hr].
  - apply (users_kept_seq K d1 d cur 0%N (nf d) 1 (nf d - 1) OC N1 ltac:(lia)).
    intros i Hi Hu Hr _. exists i. change (nf d1) with (nf d).
    repeat split; try lia; auto. apply Him; [lia|exact Hu|exact Hr].
Qed.
