(** * Block: chain operations without loops -- names, snapshot, prepare-remove, fold + remove (the
    shift lemma), resize. *)
From Coq Require Import List Arith Bool NArith Lia.
From Jiva Require Import Block.Model Block.Lemmas Block.ProofsWrite Block.ProofsUnit Block.ProofsRead.
Import ListNotations.

(** ** names *)
Definition names_ok (d : dd) : Prop :=
  nm d (nf d) = 0%N /\ (forall i, 1 <= i < nf d -> nm d i <> 0%N) /\
  (forall i j, 1 <= i <= nf d -> 1 <= j <= nf d -> nm d i = nm d j -> i = j).

Lemma find_name_spec : forall d name n,
  let r := find_name d name n in
  r <= n /\ (r <> 0 -> nm d r = name) /\ (forall i, r < i <= n -> nm d i <> name).
Proof.
  intros d name. induction n as [|n IH]; cbn [find_name].
  - split; [lia|]. split; [intros H; contradiction|intros; lia].
  - destruct (N.eqb_spec (nm d (S n)) name) as [E|E].
    + split; [lia|]. split; [auto|intros; lia].
    + destruct IH as (A & B & C). split; [lia|]. split; [assumption|].
      intros i Hi. destruct (Nat.eq_dec i (S n)) as [->|]; [assumption|apply C; lia].
Qed.

Lemma find_name_at : forall d i, names_ok d -> 1 <= i <= nf d -> find_name d (nm d i) (nf d) = i.
Proof.
  intros d i (_ & _ & Hinj) Hi.
  destruct (find_name_spec d (nm d i) (nf d)) as (A & B & C).
  set (r := find_name d (nm d i) (nf d)) in *.
  destruct (Nat.lt_trichotomy r i) as [H|[H|H]]; [|assumption|].
  - exfalso. apply (C i); [lia|reflexivity].
  - apply Hinj; [lia|lia|]. apply B. lia.
Qed.

Lemma find_name_none : forall d name, find_name d name (nf d) = 0 ->
  forall i, 1 <= i <= nf d -> nm d i <> name.
Proof.
  intros d name H i Hi. destruct (find_name_spec d name (nf d)) as (_ & _ & C). rewrite H in C. apply C. lia.
Qed.

(** ** the state invariant *)
Record inv (K : nat) (d : dd) : Prop := {
  inv_wf : wf K d;
  inv_prot : prot d;
  inv_names : names_ok d;
  inv_head : usr d (nf d) = false
}.

Lemma inv_init : forall K nb p, inv K (init nb p).
Proof.
  intros. constructor.
  - constructor; cbn; try lia.
    + intros b. left. reflexivity.
    + reflexivity.
    + discriminate.
  - unfold prot, init. cbn [nf]. intros i Hi. lia.
  - unfold names_ok, init. cbn [nf nm]. split; [reflexivity|]. split; [intros; lia|intros; lia].
  - reflexivity.
Qed.

(** an operation that changes only the location table (reads) keeps the invariant *)
Lemma inv_memo : forall K d d', memo d d' -> inv K d -> inv K d'.
Proof.
  intros K d d' M I. pose proof M as (E1&E2&E3&E4&E5&E6&E7&E8&E9&_&_).
  constructor.
  - eapply memo_wf; [eassumption|apply I].
  - eapply prot_same_meta; [apply memo_same_meta; eassumption|apply I].
  - destruct (inv_names _ _ I) as (A & B & C). unfold names_ok. rewrite E1, E3. auto.
  - rewrite E1, E4. apply I.
Qed.

Lemma inv_same : forall K d d', wf K d' -> same_meta d d' -> inv K d -> inv K d'.
Proof.
  intros K d d' W M I. pose proof M as (E1&E2&E3&E4&E5&E6&E7&E8).
  constructor; [assumption| eapply prot_same_meta; [eassumption|apply I] | |].
  - destruct (inv_names _ _ I) as (A & B & C). unfold names_ok. rewrite E1, E2. auto.
  - rewrite E1, E3. apply I.
Qed.

(** ** createDisk *)
Lemma snapshot_ok : forall K d name user d1, inv K d -> snapshot d name user = (d1, ROk) ->
  inv K d1 /\ nf d1 = S (nf d) /\ nblk d1 = nblk d /\ punch d1 = punch d /\
  nm d1 (nf d) = name /\ usr d1 (nf d) = user /\ rmd d1 (nf d) = false /\
  (forall i, i < nf d -> nm d1 i = nm d i /\ usr d1 i = usr d i /\ rmd d1 i = rmd d i) /\
  (forall J b, J <= nf d -> top (fl d1) J b = top (fl d) J b) /\
  (forall b, top (fl d1) (S (nf d)) b = top (fl d) (nf d) b) /\
  name <> 0%N /\ (forall i, 1 <= i <= nf d -> nm d i <> name).
Proof.
  intros K d name user d1 I H. unfold snapshot in H.
  destruct (N.eqb_spec name 0) as [E0|N0]; [discriminate|]. cbn [orb] in H.
  destruct (Nat.eqb_spec (find_name d name (nf d)) 0) as [Ef|Nf]; [|discriminate]. cbn [negb] in H.
  destruct (max_chain <? nf d + 2); [discriminate|].
  inversion H; subst d1; clear H.
  pose proof (inv_wf _ _ I) as W. pose proof (wf_nf _ _ W) as Hnf.
  pose proof (find_name_none d name Ef) as Hfresh.
  destruct (inv_names _ _ I) as (Nh & Nz & Ninj).
  cbn [nf fl nm usr rmd ucs snapix loc nblk punch].
  assert (Hfl : forall i b, i <= nf d -> fupd (fl d) (S (nf d)) fempty i b = fl d i b).
  { intros i b Hi. rewrite fupd_neq by lia. reflexivity. }
  split; [|repeat split].
  - constructor.
    + constructor; cbn [nf fl loc nblk].
      * lia.
      * intros b. cbn [nf fl loc nblk]. destruct (wf_loc _ _ W b) as [H0|(H1 & H2 & H3)]; [left; assumption|right].
        split; [lia|]. split.
        -- intros j Hj. destruct (Nat.eq_dec j (S (nf d))) as [->|Hne]; [rewrite fupd_eq; reflexivity|].
           rewrite Hfl by lia. apply H2. lia.
        -- intros H. rewrite Hfl by lia. now apply H3.
      * intros j b Hb. cbn [nf fl loc nblk] in *. destruct (fupd_cases _ (fl d) (S (nf d)) fempty j) as [[-> E]|[Hn E]]; rewrite E;
          [reflexivity|now apply W].
      * intros j b v. cbn [nf fl loc nblk]. destruct (fupd_cases _ (fl d) (S (nf d)) fempty j) as [[-> E]|[Hn E]]; rewrite E;
          [discriminate|apply W].
    + intros i Hi Hu Hr. cbn [nf usr rmd ucs snapix] in *.
      destruct (Nat.eq_dec i (nf d)) as [->|Hne].
      * rewrite fupd_neq in Hu by lia. rewrite fupd_eq in Hu. subst user.
        split; [lia|]. right. rewrite fupd_eq. reflexivity.
      * rewrite !fupd_neq in Hu by lia. rewrite !fupd_neq in Hr by lia.
        destruct (inv_prot _ _ I i ltac:(lia) Hu Hr) as (A & B).
        split; [destruct user; lia|]. rewrite !fupd_neq by lia. assumption.
    + unfold names_ok. cbn [nf nm]. split; [now rewrite fupd_eq|]. split.
      * intros i Hi. rewrite fupd_neq by lia. destruct (Nat.eq_dec i (nf d)) as [->|Hne].
        -- now rewrite fupd_eq.
        -- rewrite fupd_neq by lia. apply Nz. lia.
      * assert (Hnm : forall i, 1 <= i <= S (nf d) ->
                  fupd (fupd (nm d) (nf d) name) (S (nf d)) 0%N i =
                  if i =? S (nf d) then 0%N else if i =? nf d then name else nm d i).
        { intros i Hi. unfold fupd. reflexivity. }
        intros i j Hi Hj. rewrite !Hnm by assumption.
        destruct (Nat.eqb_spec i (S (nf d))); destruct (Nat.eqb_spec j (S (nf d)));
          destruct (Nat.eqb_spec i (nf d)); destruct (Nat.eqb_spec j (nf d)); intros E; try lia;
          try (exfalso; congruence).
        -- exfalso. apply (Nz j); [lia|congruence].
        -- exfalso. apply (Nz i); [lia|congruence].
        -- exfalso. apply (Hfresh j); [lia|congruence].
        -- exfalso. apply (Hfresh i); [lia|congruence].
        -- apply Ninj; [lia|lia|assumption].
    + cbn [nf usr]. now rewrite fupd_eq.
  - rewrite fupd_neq by lia. now rewrite fupd_eq.
  - rewrite fupd_neq by lia. now rewrite fupd_eq.
  - rewrite fupd_neq by lia. now rewrite fupd_eq.
  - rewrite !fupd_neq by lia. reflexivity.
  - rewrite !fupd_neq by lia. reflexivity.
  - rewrite !fupd_neq by lia. reflexivity.
  - intros J b HJ. apply top_ext. intros i Hi. apply Hfl. lia.
  - intros b. rewrite top_S, fupd_eq. cbn [fempty]. apply top_ext. intros i Hi. apply Hfl. lia.
  - assumption.
  - assumption.
Qed.

Lemma snapshot_err : forall d name user d1, snapshot d name user = (d1, RErr) -> d1 = d.
Proof.
  intros d name user d1 H. unfold snapshot in H.
  destruct (N.eqb name 0 || negb (find_name d name (nf d) =? 0)); [now inversion H|].
  destruct (max_chain <? nf d + 2); [now inversion H|discriminate].
Qed.

(** ** PrepareRemoveDisk *)
Lemma prep_remove_cases : forall d name,
  let i := find_name d name (nf d) in
  (prep_remove d name = (d, ROk) /\ i = 0) \/
  (prep_remove d name = (d, RErr) /\ i <> 0 /\ (i = nf d \/ S i = nf d \/ i = 1)) \/
  (2 <= i /\ S i < nf d /\
   prep_remove d name = (mkdd (nf d) (fl d) (nm d) (usr d) (fupd (rmd d) i true) (ucs d) (snapix d) (loc d)
                              (nblk d) (punch d), ROk)).
Proof.
  intros d name i. unfold prep_remove. fold i.
  destruct (Nat.eqb_spec i 0); [left; auto|].
  destruct (Nat.eqb_spec i (nf d)); [right; left; auto|].
  destruct (Nat.eqb_spec (S i) (nf d)); [right; left; auto|].
  destruct (Nat.eqb_spec i 1); [right; left; auto|].
  right. right. pose proof (find_name_spec d name (nf d)) as (A & _). fold i in A. split; [lia|]. split; [lia|reflexivity].
Qed.

Definition mark (d : dd) (i : nat) : dd :=
  mkdd (nf d) (fl d) (nm d) (usr d) (fupd (rmd d) i true) (ucs d) (snapix d) (loc d) (nblk d) (punch d).

Lemma mark_inv : forall K d i, inv K d -> i <> nf d -> inv K (mark d i).
Proof.
  intros K d i I Hi. constructor.
  - destruct (inv_wf _ _ I) as [A B C D]. constructor; assumption.
  - intros k Hk Hu Hr. cbn [mark nf usr rmd ucs snapix] in *.
    destruct (Nat.eq_dec k i) as [->|Hne]; [rewrite fupd_eq in Hr; discriminate|].
    rewrite fupd_neq in Hr by assumption. now apply (inv_prot _ _ I).
  - apply I.
  - apply I.
Qed.

(** ** fold the member into its parent, then RemoveIndex: the shift lemma *)
Lemma last_true_ge : forall u n dflt p, p <= n -> u p = true -> p <= last_true u n dflt.
Proof.
  induction n as [|n IH]; intros dflt p Hp Hu.
  - assert (p = 0) by lia. subst. cbn. rewrite Hu. lia.
  - cbn [last_true]. destruct (u (S n)) eqn:E; [lia|].
    destruct (Nat.eq_dec p (S n)) as [->|]; [congruence|]. apply IH; [lia|assumption].
Qed.

Lemma last_true_spec : forall u n dflt,
  (last_true u n dflt = dflt /\ forall p, p <= n -> u p = false) \/
  (last_true u n dflt <= n /\ u (last_true u n dflt) = true).
Proof.
  induction n as [|n IH]; intros dflt; cbn [last_true].
  - destruct (u 0) eqn:E; [right; split; [lia|assumption]|].
    left. split; [reflexivity|]. intros p Hp. assert (p = 0) by lia. now subst.
  - destruct (u (S n)) eqn:E; [right; split; [lia|assumption]|].
    destruct (IH dflt) as [(A & B)|(A & B)].
    + left. split; [assumption|]. intros p Hp. destruct (Nat.eq_dec p (S n)) as [->|]; [assumption|apply B; lia].
    + right. split; [lia|assumption].
Qed.

Definition merged (d : dd) (i : nat) : dd := remove_index (coalesce_ix d i (i - 1)) i.

Lemma merged_fl : forall d i k b, 2 <= i ->
  fl (merged d i) k b =
  if k <? i - 1 then fl d k b
  else if k =? i - 1 then fold_into (fl d i) (fl d (i - 1)) b
  else fl d (S k) b.
Proof.
  intros d i k b Hi. unfold merged, remove_index, coalesce_ix, shift_out. cbn [fl set_fl].
  destruct (Nat.ltb_spec k (i - 1)); destruct (Nat.ltb_spec k i); try lia.
  - rewrite fupd_neq by lia. reflexivity.
  - destruct (Nat.eqb_spec k (i - 1)); [|lia]. subst k. rewrite fupd_eq. reflexivity.
  - destruct (Nat.eqb_spec k (i - 1)); [lia|]. rewrite fupd_neq by lia. reflexivity.
Qed.

(** prefixes below the merge target are untouched; every other prefix of the new chain shows what the
    prefix one longer showed before *)
Lemma merged_top_low : forall d i J b, 2 <= i -> J < i - 1 -> top (fl (merged d i)) J b = top (fl d) J b.
Proof.
  intros d i J b Hi HJ. apply top_ext. intros k Hk. rewrite merged_fl by assumption.
  destruct (Nat.ltb_spec k (i - 1)); [reflexivity|lia].
Qed.

Lemma merged_top_high : forall d i J b, 2 <= i -> i - 1 <= J -> top (fl (merged d i)) J b = top (fl d) (S J) b.
Proof.
  intros d i J b Hi. induction J as [|J IH]; intros HJ; [lia|].
  rewrite (top_S (fl (merged d i))). rewrite merged_fl by assumption.
  destruct (Nat.ltb_spec (S J) (i - 1)); [lia|].
  destruct (Nat.eqb_spec (S J) (i - 1)) as [E|N].
  - (* the merge target itself *)
    rewrite merged_top_low by lia. unfold fold_into.
    rewrite (top_S (fl d) (S J)). replace (S (S J)) with i by lia.
    destruct (fl d i b); [reflexivity|]. rewrite top_S. replace (S J) with (i - 1) by lia. reflexivity.
  - rewrite IH by lia. rewrite (top_S (fl d) (S J)). reflexivity.
Qed.

Lemma merged_loc : forall d i b, loc (merged d i) b = if i <=? loc d b then loc d b - 1 else loc d b.
Proof. reflexivity. Qed.

Lemma merged_inv : forall K d i, inv K d -> 2 <= i -> S i < nf d ->
  (usr d (i - 1) = true -> rmd d (i - 1) = true) ->      (* the merge target is not a retained user snapshot *)
  inv K (merged d i).
Proof.
  intros K d i I Hi Hin Hpar.
  pose proof (inv_wf _ _ I) as W.
  assert (Enf : nf (merged d i) = nf d - 1) by reflexivity.
  constructor.
  - constructor.
    + rewrite Enf. lia.
    + intros b. rewrite Enf, !merged_loc.
      destruct (wf_loc _ _ W b) as [H0|(H1 & H2 & H3)].
      { left. rewrite H0. destruct (i <=? 0); reflexivity. }
      right. destruct (Nat.leb_spec i (loc d b)) as [Hge|Hlt].
      * (* the entry pointed at the removed member or above *)
        split; [lia|]. split.
        -- intros j Hj. rewrite merged_fl by assumption.
           destruct (Nat.ltb_spec j (i - 1)); [lia|]. destruct (Nat.eqb_spec j (i - 1)); [lia|]. apply H2. lia.
        -- intros H. rewrite merged_fl by assumption.
           destruct (Nat.ltb_spec (loc d b - 1) (i - 1)); [lia|].
           destruct (Nat.eqb_spec (loc d b - 1) (i - 1)) as [E|N].
           ++ assert (loc d b = i) by lia. unfold fold_into.
              destruct (fl d i b) eqn:Ei; [discriminate|]. exfalso. apply H3; [lia|]. congruence.
           ++ replace (S (loc d b - 1)) with (loc d b) by lia. apply H3. lia.
      * split; [lia|]. split.
        -- intros j Hj. rewrite merged_fl by assumption.
           destruct (Nat.ltb_spec j (i - 1)); [apply H2; lia|].
           destruct (Nat.eqb_spec j (i - 1)) as [E|N].
           ++ unfold fold_into. rewrite (H2 i) by lia. apply H2. lia.
           ++ apply H2. lia.
        -- intros H. rewrite merged_fl by assumption.
           destruct (Nat.ltb_spec (loc d b) (i - 1)); [now apply H3|].
           destruct (Nat.eqb_spec (loc d b) (i - 1)) as [E|N]; [|lia].
           unfold fold_into. destruct (fl d i b); [discriminate|]. rewrite <- E. now apply H3.
    + intros j b Hb. rewrite merged_fl by assumption. unfold fold_into.
      assert (Hb' : nblk d <= b) by exact Hb.
      destruct (j <? i - 1); [now apply W|]. destruct (j =? i - 1); [|now apply W].
      rewrite (wf_ext _ _ W i b Hb'). now apply W.
    + intros j b v. rewrite merged_fl by assumption. unfold fold_into.
      destruct (j <? i - 1); [apply W|]. destruct (j =? i - 1); [|apply W].
      destruct (fl d i b) eqn:E; [intros H; inversion H; subst; eapply wf_len; eauto|apply W].
  - (* protection: flags shift with their members; the merge target is not protected *)
    intros k Hk Hu Hr. rewrite Enf in Hk.
    unfold merged in Hu, Hr |- *. cbn [usr rmd ucs snapix remove_index coalesce_ix set_fl nf] in *.
    unfold shift_out in *.
    assert (Hflag : (if k <? i then ucs d k else ucs d (S k)) = true \/
                    (if S k <? i then ucs d (S k) else ucs d (S (S k))) = true).
    { destruct (Nat.ltb_spec k i) as [Hlt|Hge].
      - destruct (Nat.eq_dec k (i - 1)) as [E|N].
        + exfalso. subst k. rewrite Hpar in Hr by assumption. discriminate.
        + destruct (inv_prot _ _ I k ltac:(lia) Hu Hr) as (_ & [F|F]); [left; assumption|right].
          destruct (Nat.ltb_spec (S k) i); [assumption|lia].
      - destruct (inv_prot _ _ I (S k) ltac:(lia) Hu Hr) as (_ & [F|F]); [left; assumption|right].
        destruct (Nat.ltb_spec (S k) i); [lia|assumption]. }
    split; [|exact Hflag].
    destruct Hflag as [F|F].
    + apply (last_true_ge (fun k0 => if k0 <? i then ucs d k0 else ucs d (S k0)) (nf d - 1) (snapix d) k); [lia|exact F].
    + pose proof (last_true_ge (fun k0 => if k0 <? i then ucs d k0 else ucs d (S k0)) (nf d - 1) (snapix d) (S k)
                               ltac:(lia) F). lia.
  - destruct (inv_names _ _ I) as (Nh & Nz & Ninj). unfold names_ok. rewrite Enf.
    unfold merged. cbn [nm remove_index coalesce_ix set_fl]. unfold shift_out.
    split; [|split].
    + destruct (Nat.ltb_spec (nf d - 1) i); [lia|]. replace (S (nf d - 1)) with (nf d) by lia. assumption.
    + intros k Hk. destruct (Nat.ltb_spec k i); apply Nz; lia.
    + intros a c Ha Hc. destruct (Nat.ltb_spec a i); destruct (Nat.ltb_spec c i); intros E;
        apply Ninj in E; lia.
  - rewrite Enf. unfold merged. cbn [usr remove_index coalesce_ix set_fl]. unfold shift_out.
    destruct (Nat.ltb_spec (nf d - 1) i); [lia|]. replace (S (nf d - 1)) with (nf d) by lia. apply I.
Qed.

(** the deletion flow as a whole *)
Lemma find_name_nm : forall d d' name n, nm d' = nm d -> find_name d' name n = find_name d name n.
Proof. intros d d' name n E. induction n as [|n IH]; cbn [find_name]; [reflexivity|]. now rewrite E, IH. Qed.

Lemma remove_mid : forall d name, let i := find_name d name (nf d) in
  2 <= i -> i <> nf d -> S i <> nf d -> remove d name = (remove_index d i, ROk).
Proof.
  intros d name i H0 H1 H2. unfold remove, remove_g. fold i.
  destruct (Nat.eqb_spec i 0); [lia|]. destruct (Nat.eqb_spec i (nf d)); [lia|].
  destruct (Nat.eqb_spec (S i) (nf d)); [lia|]. destruct (Nat.eqb_spec i 1); [lia|].
  rewrite andb_false_r. reflexivity.
Qed.

Lemma delete_cases : forall d name,
  let i := find_name d name (nf d) in
  (delete d name = (d, ROk) /\ i = 0) \/
  (delete d name = (d, RErr) /\ i <> 0 /\ (i = nf d \/ S i = nf d \/ i = 1)) \/
  (2 <= i /\ S i < nf d /\ delete d name = (merged (mark d i) i, ROk)).
Proof.
  intros d name i. unfold delete.
  destruct (prep_remove_cases d name) as [(E & Hi)|[(E & Hi)|(H2 & Hn & E)]]; rewrite E.
  - left. fold i in Hi |- *. rewrite Hi. cbn. auto.
  - right. left. auto.
  - right. right. fold i in H2, Hn, E |- *. split; [assumption|]. split; [assumption|].
    destruct (Nat.eqb_spec i 0); [lia|].
    fold (mark d i).
    pose proof (remove_mid (coalesce_ix (mark d i) i (i - 1)) name) as R.
    rewrite (find_name_nm d (coalesce_ix (mark d i) i (i - 1))) in R by reflexivity.
    change (nf (coalesce_ix (mark d i) i (i - 1))) with (nf d) in R. fold i in R.
    rewrite R by lia. reflexivity.
Qed.

(** ** the cleaner's candidates and one pass of its loop body *)
Lemma cand_range_in : forall d cnt i name, In name (cand_range d cnt i) <->
  exists k, i <= k < i + cnt /\ nm d k = name /\ retained_user d k = false /\
            ((2 <=? k) && retained_user d (k - 1)) = false.
Proof.
  intros d cnt. induction cnt as [|cnt IH]; intros i name; cbn [cand_range].
  - split; [intros []|intros (k & Hk & _); lia].
  - destruct (retained_user d i || (2 <=? i) && retained_user d (i - 1)) eqn:E.
    + rewrite IH. split; intros (k & Hk & R).
      * exists k. split; [lia|assumption].
      * exists k. split; [|assumption]. destruct (Nat.eq_dec k i) as [Ek|]; [|lia].
        exfalso. subst k. destruct R as (_ & R1 & R2). rewrite R1, R2 in E. discriminate.
    + apply orb_false_iff in E. destruct E as [E1 E2]. cbn [In]. rewrite IH. split.
      * intros [Hn|(k & Hk & R)].
        -- exists i. split; [lia|]. split; [assumption|]. split; assumption.
        -- exists k. split; [lia|assumption].
      * intros (k & Hk & R). destruct (Nat.eq_dec k i) as [Ek|].
        -- subst k. left. apply R.
        -- right. exists k. split; [lia|assumption].
Qed.

Lemma candidates_in : forall d c name, In name (candidates d (Some c)) <->
  3 < nf d /\ exists k, 2 <= k < find_name d c (nf d) /\ nm d k = name /\
     retained_user d k = false /\ retained_user d (k - 1) = false.
Proof.
  intros d c name. unfold candidates.
  destruct (Nat.leb_spec (nf d) 3) as [H3|H3]; [split; [intros []|intros (H & _); lia]|].
  destruct (Nat.leb_spec (find_name d c (nf d)) 2) as [Hc|Hc]; [split; [intros []|intros (_ & k & Hk & _); lia]|].
  rewrite cand_range_in. split.
  - intros (k & Hk & Hn & R1 & R2). split; [assumption|]. exists k. split; [lia|]. split; [assumption|].
    split; [assumption|]. destruct (Nat.leb_spec 2 k); [exact R2|lia].
  - intros (_ & k & Hk & Hn & R1 & R2). exists k. split; [lia|]. split; [assumption|]. split; [assumption|].
    rewrite R2. apply andb_false_r.
Qed.

Lemma clean_cases : forall d cp victim fail,
  let i := find_name d victim (nf d) in
  (existsb (N.eqb victim) (candidates d cp) = false /\ clean d cp victim fail = (d, ROk)) \/
  (existsb (N.eqb victim) (candidates d cp) = true /\
   ((clean d cp victim fail = (d, ROk) /\ (i = 0 \/ i = nf d \/ S i = nf d \/ i = 1)) \/
    (2 <= i /\ S i < nf d /\
     clean d cp victim fail = if fail then (mark d i, RErr) else (merged (mark d i) i, ROk)))).
Proof.
  intros d cp victim fail. cbn zeta. unfold clean.
  destruct (existsb (N.eqb victim) (candidates d cp)); [right|left; auto]. split; [reflexivity|]. cbn [negb].
  destruct fail.
  - destruct (prep_remove_cases d victim) as [(E & Hi)|[(E & Hi & Hc)|(H2 & Hn & E)]]; rewrite E;
      set (i := find_name d victim (nf d)) in *.
    + left. rewrite Hi. cbn. auto.
    + left. split; [reflexivity|]. tauto.
    + right. split; [assumption|]. split; [assumption|].
      destruct (Nat.eqb_spec i 0); [lia|]. reflexivity.
  - destruct (delete_cases d victim) as [(E & Hi)|[(E & Hi & Hc)|(H2 & Hn & E)]]; rewrite E;
      set (i := find_name d victim (nf d)) in *.
    + left. auto.
    + left. split; [reflexivity|]. tauto.
    + right. auto.
Qed.

(** ** Resize *)
Lemma resize_cases : forall d nb,
  (nb < nblk d /\ resize d nb = (d, RErr)) \/
  (nblk d <= nb /\ resize d nb = (mkdd (nf d) (fl d) (nm d) (usr d) (rmd d) (ucs d) (snapix d)
                                       (fun b => if b <? nblk d then loc d b else 0) nb (punch d), ROk)).
Proof.
  intros d nb. unfold resize. destruct (Nat.ltb_spec nb (nblk d)); [left|right]; auto.
Qed.

Definition grown_dd (d : dd) (nb : nat) : dd :=
  mkdd (nf d) (fl d) (nm d) (usr d) (rmd d) (ucs d) (snapix d)
       (fun b => if b <? nblk d then loc d b else 0) nb (punch d).

Lemma grown_inv : forall K d nb, inv K d -> nblk d <= nb -> inv K (grown_dd d nb).
Proof.
  intros K d nb I Hnb. pose proof (inv_wf _ _ I) as W. constructor.
  - constructor; cbn [grown_dd nf fl loc nblk].
    + apply W.
    + intros b. unfold grown_dd; cbn [nf fl loc nblk].
      destruct (Nat.ltb_spec b (nblk d)); [apply (wf_loc _ _ W)|left; reflexivity].
    + intros j b Hb. unfold grown_dd in *; cbn [nf fl loc nblk] in *. apply W. lia.
    + intros j b v. unfold grown_dd; cbn [nf fl loc nblk]. apply W.
  - apply I.
  - apply I.
  - apply I.
Qed.

Lemma concat_zero_blocks : forall K (f : nat -> list N) m s, (forall b, s <= b -> f b = zeros K) ->
  concat (map f (seq s m)) = repeat 0%N (m * K).
Proof.
  intros K f m. induction m as [|m IH]; intros s H; [reflexivity|].
  cbn [seq map concat]. rewrite IH by (intros; apply H; lia). rewrite H by lia.
  unfold zeros. rewrite <- repeat_app. reflexivity.
Qed.

Lemma grown_image : forall K d nb j, wf K d -> nblk d <= nb ->
  image K (grown_dd d nb) j = image K d j ++ repeat 0%N ((nb - nblk d) * K).
Proof.
  intros K d nb j W Hnb. unfold image. cbn [grown_dd nblk fl].
  replace nb with (nblk d + (nb - nblk d)) at 1 by lia.
  rewrite seq_app, map_app, concat_app. f_equal.
  apply concat_zero_blocks. intros b Hb. cbn [plus] in Hb.
  unfold img. rewrite top_all_none; [reflexivity|]. intros i Hi. apply W. lia.
Qed.
