(** * Rebuild: the data half of a replica rebuild (C07) and of a clone (C19), on top of Block.Model.

    Two replicas: the healthy source [src] and the destination [dst].  Executable model only.
    Transcribed / followed:
      controller/control.go  addReplicaNoLock   (snapshot on every backend and on the newcomer: from then on
                                                 foreground writes land in fresh heads on both sides)
      sync/sync.go           AddReplica, syncFiles (closed files copied oldest first), reloadAndVerify
                             (SetPreload(false); Reload; UpdateLUNMap), CloneReplica (copy the chain from S
                             downward; UpdateCloneInfo; SetPreload(false); Reload; UpdateLUNMap)
      replica/server.go      Reload (types.ShouldPunchHoles = true), UpdateLUNMap in its three phases:
                             (1) under the lock: copy of the volume struct with a zeroed location table,
                             (2) WITHOUT the lock: PreloadLunMap on the copy, (3) under the lock: the merge loop
      replica/backup.go      preload (block by block: [pre_block] of Block.Model, file by file: the flush at the
                             end of [pre_file]), sendToCreateHole / CreateHoles (asynchronous)
      replica/replica.go     UpdateCloneInfo (head's Parent := S, revision counter := the one recorded for S)

    Indexing.  The destination is kept POSITIONALLY ALIGNED with the source: [fl dst i] (1 <= i < nf dst) is
    the file in the destination's directory that carries the name of the source's chain member i,
    [fl dst (nf dst)] is the destination's head.  For a rebuild [nf dst = nf src] (the add-time snapshot is
    member [nf - 1] on both sides); for a clone of snapshot S = member s, [nf dst = s + 1].
    Before the Reload the destination's process still works on ITS OWN chain: the members at or below the
    sync point ([lowc] of them), its add-time snapshot (the same file as directory entry [nf dst - 1]: ssync
    writes in place) and its head; [own_view] builds that chain, and until the Reload [loc dst] is the block
    map of that own chain.  types.ShouldPunchHoles is false in the rebuilding process until Server.Reload
    sets it.

    Asynchronous holes.  Unlike Block.Model.step, nothing is applied at the end of an operation: every hole
    sent to HoleCreatorChan is queued ([spend] / [dpend]) and applied or dropped by an explicit event, at
    any later point. *)
From Coq Require Import List Arith Bool NArith.
From Jiva Require Import Block.Model.
Import ListNotations.

(** progress of PreloadLunMap on the copy made by UpdateLUNMap: next is block [sb] of file [si];
    [sucsi] is userCreatedSnapIndx as set at the start of the iteration for file [si] *)
Record scan := mkscan { si : nat; sb : nat; sucsi : nat; sp : pst }.

Inductive uphase := UIdle | UScan (c : scan) | UDone.

Record rb := mkrb {
  src      : dd;
  spend    : list hole;     (* holes queued on the source *)
  dst      : dd;
  dpend    : list hole;     (* holes queued on the destination *)
  lowc     : nat;           (* members of the destination's own chain at or below the sync point *)
  wired    : bool;          (* the destination's head names directory entry [nf dst - 1] as its parent *)
  reloaded : bool;
  uph      : uphase;
  drev     : N              (* the destination's revision counter (clone) *)
}.

Definition set_src (s : rb) (d : dd) (hs : list hole) : rb :=
  mkrb d hs (dst s) (dpend s) (lowc s) (wired s) (reloaded s) (uph s) (drev s).
Definition set_dst (s : rb) (d : dd) (hs : list hole) : rb :=
  mkrb (src s) (spend s) d hs (lowc s) (wired s) (reloaded s) (uph s) (drev s).
Definition set_uph (s : rb) (u : uphase) : rb :=
  mkrb (src s) (spend s) (dst s) (dpend s) (lowc s) (wired s) (reloaded s) u (drev s).

(** ** the destination's own chain before the Reload *)
Definition own_fl (c top : nat) (fls : nat -> file) : nat -> file :=
  fun k => if k <=? c then fls k else if k =? S c then fls top else fls (S top).

(** not wired (a fresh clone before UpdateCloneInfo): the head alone *)
Definition own_view (c : nat) (w : bool) (d : dd) : dd :=
  if w then
    mkdd (c + 2) (own_fl c (nf d - 1) (fl d)) (fun _ => 0%N) (fun _ => false) (fun _ => false)
         (fun _ => false) 0 (loc d) (nblk d) false
  else
    mkdd 1 (fun _ => fl d (nf d)) (fun _ => 0%N) (fun _ => false) (fun _ => false)
         (fun _ => false) 0 (loc d) (nblk d) false.

(** a foreground write on the destination before the Reload: diffDisk.WriteAt on the own chain; only the
    head and the own block map change (punching is off) *)
Definition dst_write_pre (fx : bool) (K : nat) (c : nat) (w : bool) (d : dd) (data : list N) (off : nat) : dd :=
  let v := own_view c w d in
  let '(v1, _) := write_at fx K v data off in
  mkdd (nf d) (fupd (fl d) (nf d) (fl v1 (nf v))) (nm d) (usr d) (rmd d) (ucs d) (snapix d) (loc v1) (nblk d)
       (punch d).

(** ** ssync of one closed file (the listed blocks; the whole file is [seq 0 nblk]) and of its .meta *)
Definition copy_blocks (from to : file) (bs : list nat) : file :=
  fun b => if existsb (Nat.eqb b) bs then from b else to b.

Definition copy_file (s d : dd) (i : nat) (bs : list nat) : dd :=
  mkdd (nf d) (fupd (fl d) i (copy_blocks (fl s i) (fl d i) bs))
       (fupd (nm d) i (nm s i)) (fupd (usr d) i (usr s i)) (fupd (rmd d) i (rmd s i))
       (ucs d) (snapix d) (loc d) (nblk d) (punch d).

(** ** the hole queue *)
Fixpoint drop_nth {A} (k : nat) (l : list A) : list A :=
  match l, k with
  | [], _ => []
  | _ :: r, 0 => r
  | x :: r, S k' => x :: drop_nth k' r
  end.

Definition take_hole (d : dd) (pend : list hole) (k : nat) (apply : bool) : dd * list hole :=
  match nth_error pend k with
  | None => (d, pend)
  | Some h => (if apply then set_fl d (apply_hole (fl d) h) else d, drop_nth k pend)
  end.

(** ** Server.Reload on the destination: a fresh Replica over what the directory holds; not preloaded *)
Definition dst_reload (w : bool) (d : dd) : dd :=
  let d0 := if w then d
            else mkdd 1 (fun _ => fl d (nf d)) (fun _ => 0%N) (fun _ => false) (fun _ => false)
                      (ucs d) (snapix d) (loc d) (nblk d) (punch d) in
  fst (reopen (set_punch d0 true) false).

(** ** UpdateLUNMap, phase 2 in small steps *)
Definition scan0 (d : dd) : scan :=
  mkscan 1 0 (if ucs d 1 then 1 else 0) (mkpst (fun _ => 0) None 0 0 0 []).

Definition scan_done (d : dd) (c : scan) : bool := nf d <? si c.

(** one FIEMAP'd block, or the end of one file's iteration; the holes sent are handed back separately *)
Definition scan_step (d : dd) (c : scan) : scan * list hole :=
  if scan_done d c then (c, [])
  else if sb c <? nblk d then
    let p1 := pre_block d (si c) (sucsi c) (sp c) (sb c) in
    (mkscan (si c) (S (sb c)) (sucsi c)
            (mkpst (pl p1) (pfile p1) (pfidx p1) (plen p1) (poff p1) []), pholes p1)
  else
    let p := sp c in
    let hs := if can_punch (pfile p) (pfidx p) (sucsi c) (punch d)
              then pholes p ++ [(match pfile p with Some f => f | None => 0 end, poff p, plen p)]
              else pholes p in
    let i' := S (si c) in
    (mkscan i' 0 (if ucs d i' then i' else sucsi c) (mkpst (pl p) None 0 (plen p) (poff p) []), hs).

(** phase 3: the merge loop, with the preloaded table [pre] *)
Definition ulm_merge (d : dd) (pre : nat -> nat) : dd * list hole :=
  let ucsi := last_true (ucs d) (nf d) 0 in
  let u := lun_loop d pre ucsi (nblk d) 0 (mkust (loc d) 0 0 0 []) in
  (set_loc d (ul u), lun_emit d ucsi u).

(** ** events *)
Inductive ev :=
| BothWrite (off : nat) (data : list N)   (* the controller's fan-out: source and destination *)
| SrcWrite (off : nat) (data : list N)    (* clone: the source volume goes on on its own *)
| Copy (i : nat) (bs : list nat)
| SrcHole (k : nat) (apply : bool)
| DstHole (k : nat) (apply : bool)
| CloneInfo (rev : N)                      (* UpdateCloneInfo: rewire the head, set the counter *)
| DstReload
| UlmBegin
| UlmPre                                   (* one step of the preload on the copy *)
| UlmMerge
| CloneInfoFail (stage : nat) (rev : N).   (* UpdateCloneInfo with a failing write: stage 0, before the counter is set
                                              (volume.meta, or the counter block itself); stage 1, the head's .meta
                                              (the counter is set by then): it returns the error *)

Definition src_write (fx : bool) (K : nat) (s : rb) (off : nat) (data : list N) : rb :=
  let '(d1, hs) := write_at fx K (src s) data off in set_src s d1 (spend s ++ hs).

Definition step (fx : bool) (K : nat) (s : rb) (e : ev) : rb :=
  match e with
  | BothWrite off data =>
      if nblk (src s) * K <? off + length data then s           (* refused by the controller *)
      else
        let s1 := src_write fx K s off data in
        if reloaded s then
          let '(d1, hs) := write_at fx K (dst s) data off in set_dst s1 d1 (dpend s ++ hs)
        else set_dst s1 (dst_write_pre fx K (lowc s) (wired s) (dst s) data off) (dpend s)
  | SrcWrite off data =>
      if nblk (src s) * K <? off + length data then s else src_write fx K s off data
  | Copy i bs =>
      if reloaded s || negb ((1 <=? i) && (i <? nf (dst s))) then s
      else set_dst s (copy_file (src s) (dst s) i bs) (dpend s)
  | SrcHole k a => let '(d1, p1) := take_hole (src s) (spend s) k a in set_src s d1 p1
  | DstHole k a => let '(d1, p1) := take_hole (dst s) (dpend s) k a in set_dst s d1 p1
  | CloneInfo rev =>
      if reloaded s then s
      else mkrb (src s) (spend s) (dst s) (dpend s) (lowc s) true false (uph s) rev
  | DstReload =>
      if reloaded s then s
      else mkrb (src s) (spend s) (dst_reload (wired s) (dst s)) (dpend s) (lowc s) (wired s) true UIdle (drev s)
  | UlmBegin =>
      match uph s with
      | UIdle => if reloaded s then set_uph s (UScan (scan0 (dst s))) else s
      | _ => s
      end
  | UlmPre =>
      match uph s with
      | UScan c =>
          let '(c1, hs) := scan_step (dst s) c in
          mkrb (src s) (spend s) (dst s) (dpend s ++ hs) (lowc s) (wired s) (reloaded s) (UScan c1) (drev s)
      | _ => s
      end
  | UlmMerge =>
      match uph s with
      | UScan c =>
          if scan_done (dst s) c then
            let '(d1, hs) := ulm_merge (dst s) (pl (sp c)) in
            mkrb (src s) (spend s) d1 (dpend s ++ hs) (lowc s) (wired s) (reloaded s) UDone (drev s)
          else s
      | _ => s
      end
  | CloneInfoFail stage rev =>
      (* replica.go UpdateCloneInfo: volume.meta first, then the revision counter, then the head's .meta; the head is
         rewired (what the next Reload sees) only by the last write *)
      if reloaded s || (stage =? 0) then s
      else mkrb (src s) (spend s) (dst s) (dpend s) (lowc s) (wired s) (reloaded s) (uph s) rev
  end.

Fixpoint run (fx : bool) (K : nat) (s : rb) (es : list ev) : rb :=
  match es with
  | [] => s
  | e :: es' => run fx K (step fx K s e) es'
  end.

(** UpdateLUNMap gives up: PreloadLunMap returned an error (the extent query of one file failed); the copy
    with its half-built table is dropped, the live table was never touched; what the scan sent to
    HoleCreatorChan before stays queued *)
Definition ulm_abort (s : rb) : rb := set_uph s UIdle.

(** the steps of the preload before it reaches file [i] *)
Definition ulm_pre_until (d : dd) (i : nat) : list ev := repeat UlmPre ((i - 1) * S (nblk d)).

(** all steps of the preload at once, and the whole UpdateLUNMap without interleaving *)
Definition ulm_pre_all (d : dd) : list ev := repeat UlmPre (nf d * S (nblk d)).
Definition ulm_all (d : dd) : list ev := UlmBegin :: ulm_pre_all d ++ [UlmMerge].

(** ** initial states *)
(** rebuild: both sides have just taken the add-time snapshot; [d0] is what the destination's directory
    holds under the source's member names (its own files at or below the sync point [c], anything above);
    [loc d0] is the block map of the destination's own chain *)
Definition rebuild_init (s d0 : dd) (c : nat) : rb :=
  mkrb s []
       (mkdd (nf s) (fupd (fl d0) (nf s) fempty) (nm s) (usr s) (rmd s) (ucs d0) (snapix d0) (loc d0)
             (nblk s) false)
       [] c true false UIdle 0%N.

(** clone of member [sx] of [s]: a fresh replica, nothing copied yet, head not wired *)
Definition clone_init (s : dd) (sx : nat) : rb :=
  mkrb s []
       (mkdd (S sx) (fun _ => fempty) (fupd (nm s) (S sx) 0%N) (fupd (usr s) (S sx) false)
             (fupd (rmd s) (S sx) false) (fun _ => false) 0 (fun _ => 0) (nblk s) false)
       [] 0 false false UIdle 1%N.   (* replica.New writes revision.counter = 1 *)
