(** * Block: the unaligned three-way split of WriteAt and ReadAt, at unit granularity. *)
From Coq Require Import List Arith Bool NArith Lia.
From Jiva Require Import Block.Model Block.Lemmas Block.ProofsWrite.
Import ListNotations.

(** ** list facts *)
Lemma nth_firstn_lt : forall A (l : list A) n i d, i < n -> nth i (firstn n l) d = nth i l d.
Proof.
  induction l as [|x l IH]; intros n i d H.
  - rewrite firstn_nil. reflexivity.
  - destruct n; [lia|]. destruct i; [reflexivity|]. cbn. apply IH. lia.
Qed.

Lemma nth_skipn_add : forall A (l : list A) n i d, nth i (skipn n l) d = nth (n + i) l d.
Proof.
  induction l as [|x l IH]; intros n i d.
  - rewrite skipn_nil. destruct i; destruct (n + _); reflexivity.
  - destruct n; [reflexivity|]. cbn. apply IH.
Qed.

Lemma firstn_plus : forall A (l : list A) a b, firstn (a + b) l = firstn a l ++ firstn b (skipn a l).
Proof.
  induction l as [|x l IH]; intros a b.
  - rewrite skipn_nil, !firstn_nil. reflexivity.
  - destruct a; [reflexivity|]. cbn. f_equal. apply IH.
Qed.

Lemma skipn_plus : forall A (l : list A) a b, skipn a (skipn b l) = skipn (b + a) l.
Proof.
  induction l as [|x l IH]; intros a b.
  - rewrite !skipn_nil. reflexivity.
  - destruct b; [reflexivity|]. cbn. apply IH.
Qed.

Lemma length_splice : forall (old buf : list N) o, o + length buf <= length old ->
  length (splice old o buf) = length old.
Proof.
  intros. unfold splice. rewrite !app_length, firstn_length, skipn_length. lia.
Qed.

Lemma nth_splice : forall (old buf : list N) o i, o + length buf <= length old ->
  nth i (splice old o buf) 0%N =
  if in_range o (length buf) i then nth (i - o) buf 0%N else nth i old 0%N.
Proof.
  intros old buf o i H. unfold splice.
  assert (Hf : length (firstn o old) = o) by (rewrite firstn_length; lia).
  destruct (in_range_spec o (length buf) i) as [E|E].
  - rewrite app_nth2 by lia. rewrite Hf. rewrite app_nth1 by lia. reflexivity.
  - destruct (Nat.lt_ge_cases i o).
    + rewrite app_nth1 by lia. apply nth_firstn_lt. assumption.
    + rewrite app_nth2 by lia. rewrite Hf. rewrite app_nth2 by lia.
      rewrite nth_skipn_add. f_equal. lia.
Qed.

Lemma nth_firstn_lt_N : forall (l : list N) n i, i < n -> nth i (firstn n l) 0%N = nth i l 0%N.
Proof. intros. now apply nth_firstn_lt. Qed.

Lemma divmod_shift : forall K a q, 0 < K -> q * K <= a -> (a - q * K) / K = a / K - q /\ (a - q * K) mod K = a mod K.
Proof.
  intros K a q HK H.
  assert (E : a = (a - q * K) + q * K) by lia.
  split.
  - rewrite E at 2. rewrite Nat.div_add by lia. lia.
  - rewrite E at 2. rewrite Nat.mod_add by lia. reflexivity.
Qed.

Lemma nth_concat_uniform : forall K (blocks : list (list N)) i, 0 < K ->
  (forall v, In v blocks -> length v = K) ->
  nth i (concat blocks) 0%N = nth (i mod K) (nth (i / K) blocks []) 0%N.
Proof.
  intros K blocks. induction blocks as [|v r IH]; intros i HK Hl.
  - cbn. destruct (i / K); destruct (i mod K); destruct i; reflexivity.
  - cbn [concat]. assert (Hv : length v = K) by (apply Hl; left; reflexivity).
    destruct (Nat.lt_ge_cases i K) as [Hi|Hi].
    + rewrite app_nth1 by lia. rewrite Nat.div_small, Nat.mod_small by assumption. reflexivity.
    + rewrite app_nth2 by lia. rewrite Hv. rewrite IH; [|assumption|intros; apply Hl; right; assumption].
      destruct (divmod_shift K i 1 HK ltac:(lia)) as (E1 & E2). rewrite Nat.mul_1_l in *.
      rewrite E1, E2. assert (1 <= i / K) by (apply Nat.div_le_lower_bound; lia).
      replace (i / K) with (S (i / K - 1)) at 2 by lia. reflexivity.
Qed.

Lemma chunks_length : forall K n l, length (chunks K n l) = n.
Proof. induction n; intros; cbn; [reflexivity| now rewrite IHn]. Qed.

Lemma chunks_len : forall K n l v, n * K <= length l -> In v (chunks K n l) -> length v = K.
Proof.
  induction n as [|n IH]; intros l v Hl Hin; [destruct Hin|].
  cbn in Hin. destruct Hin as [<-|Hin].
  - rewrite firstn_length. cbn in Hl. lia.
  - apply (IH (skipn K l)); [|assumption]. rewrite skipn_length. cbn in Hl. lia.
Qed.

Lemma concat_chunks : forall K n l, n * K <= length l -> concat (chunks K n l) = firstn (n * K) l.
Proof.
  induction n as [|n IH]; intros l Hl; [reflexivity|].
  cbn [chunks concat]. rewrite IH by (rewrite skipn_length; cbn in Hl; lia).
  replace (S n * K) with (K + n * K) by lia. rewrite firstn_plus. reflexivity.
Qed.

(** ** unit images and range updates *)
Definition uimg (K : nat) (fls : nat -> file) (j u : nat) : N :=
  nth (u mod K) (img K fls j (u / K)) 0%N.

Definition upd_range (f : nat -> N) (lo : nat) (data : list N) (u : nat) : N :=
  if in_range lo (length data) u then nth (u - lo) data 0%N else f u.

Lemma upd_range_nil : forall f lo u, upd_range f lo [] u = f u.
Proof. intros. unfold upd_range. destruct (in_range_spec lo (length (@nil N)) u); [cbn in *; lia|reflexivity]. Qed.

Lemma upd_range_app : forall f lo a b u,
  upd_range (upd_range f lo a) (lo + length a) b u = upd_range f lo (a ++ b) u.
Proof.
  intros. unfold upd_range. rewrite app_length.
  destruct (in_range_spec (lo + length a) (length b) u); destruct (in_range_spec lo (length a + length b) u);
    destruct (in_range_spec lo (length a) u); try lia.
  - rewrite app_nth2 by lia. f_equal. lia.
  - rewrite app_nth1 by lia. reflexivity.
Qed.

Lemma upd_range_ext : forall f g lo a u, (forall x, f x = g x) -> upd_range f lo a u = upd_range g lo a u.
Proof. intros. unfold upd_range. destruct (in_range lo (length a) u); auto. Qed.

(** ** stages of a write: what every sub-write guarantees before the holes are applied *)
Record stage (K : nat) (d d1 : dd) (hs : list hole) : Prop := {
  st_wf : wf K d1;
  st_meta : same_meta d d1;
  st_other : forall j b, j <> nf d -> fl d1 j b = fl d j b;
  st_head : forall b, fl d (nf d) b <> None -> fl d1 (nf d) b <> None;
  st_sound : hs_sound d1 hs
}.

Lemma stage_refl : forall K d, wf K d -> stage K d d [].
Proof. intros. constructor; auto using same_meta_refl, hs_sound_nil. Qed.

Lemma stage_trans : forall K d d1 d2 h1 h2, stage K d d1 h1 -> stage K d1 d2 h2 -> stage K d d2 (h1 ++ h2).
Proof.
  intros K d d1 d2 h1 h2 A B.
  destruct (st_meta _ _ _ _ A) as (E1 & _).
  constructor.
  - apply B.
  - eapply same_meta_trans; [apply A|apply B].
  - intros j b Hj. rewrite (st_other _ _ _ _ B) by congruence. now apply (st_other _ _ _ _ A).
  - intros b Hb. rewrite <- E1. apply (st_head _ _ _ _ B). rewrite E1. now apply (st_head _ _ _ _ A).
  - apply hs_sound_app; [|apply B].
    destruct (st_meta _ _ _ _ B) as (F1 & _ & _ & _ & _ & F2 & _).
    eapply hs_sound_mono; [exact F1|exact F2| |apply A].
    intros b. apply (st_head _ _ _ _ B).
Qed.

Lemma memo_wf : forall K d d', memo d d' -> wf K d -> wf K d'.
Proof.
  intros K d d' (E1&E2&_&_&_&_&_&E8&_&_&Hok) W. constructor.
  - rewrite E1. apply W.
  - assumption.
  - intros j b Hb. rewrite E2. apply W. congruence.
  - intros j b v. rewrite E2. apply W.
Qed.

Lemma stage_memo : forall K d d', wf K d -> memo d d' -> stage K d d' [].
Proof.
  intros K d d' W M. pose proof M as (E1&E2&_).
  constructor.
  - eapply memo_wf; eauto.
  - now apply memo_same_meta.
  - intros. now rewrite E2.
  - intros. now rewrite E2.
  - apply hs_sound_nil.
Qed.

Lemma stage_fw : forall K d start blocks d1 hs, wf K d ->
  start + length blocks <= nblk d -> (forall v, In v blocks -> length v = K) ->
  fw_post d start blocks d1 hs -> stage K d d1 hs.
Proof.
  intros K d start blocks d1 hs W Hr Hl P. constructor.
  - eapply fw_post_wf; eauto.
  - apply P.
  - apply P.
  - intros b Hb. rewrite (fw_head _ _ _ _ _ P). destruct (in_range start (length blocks) b); [discriminate|assumption].
  - eapply fw_post_sound; eauto.
Qed.

(** the end of a write: apply (some of) the holes *)
Lemma stage_fin : forall K d d1 hs ch, stage K d d1 hs ->
  let d2 := punched d1 hs ch in
  wf K d2 /\ same_meta d d2 /\
  (forall b, top (fl d2) (nf d) b = top (fl d1) (nf d) b) /\
  (forall J b, J <= snapix d -> J < nf d -> top (fl d2) J b = top (fl d) J b).
Proof.
  intros K d d1 hs ch S.
  destruct (st_meta _ _ _ _ S) as (E1 & _ & _ & _ & _ & E2 & _).
  split; [apply punched_wf; apply S|]. split; [eapply same_meta_trans; [apply S|apply punched_meta]|].
  split.
  - intros b. rewrite <- E1. apply punched_live. apply S.
  - intros J b HJ HJn. rewrite punched_protected; [|apply S|lia].
    apply top_ext. intros i Hi. apply (st_other _ _ _ _ S). lia.
Qed.

(** ** content of the live image after an aligned write, in units *)
Lemma img_length : forall K d j b, wf K d -> length (img K (fl d) j b) = K.
Proof.
  intros K d j b W. unfold img. destruct (top (fl d) j b) as [v|] eqn:E.
  - destruct (top_some_inv _ _ _ _ E) as (i & _ & Hv & _). eapply wf_len; eauto.
  - apply repeat_length.
Qed.

Lemma fw_uimg : forall K d start blocks d1 hs u, 0 < K -> wf K d ->
  (forall v, In v blocks -> length v = K) ->
  fw_post d start blocks d1 hs ->
  uimg K (fl d1) (nf d) u = upd_range (uimg K (fl d) (nf d)) (start * K) (concat blocks) u.
Proof.
  intros K d start blocks d1 hs u HK W Hl P.
  assert (Himg : forall b, img K (fl d1) (nf d) b =
            if in_range start (length blocks) b then nth (b - start) blocks [] else img K (fl d) (nf d) b).
  { intros b. unfold img. pose proof (wf_nf _ _ W) as Hnf. destruct (nf d) as [|n] eqn:En; [lia|].
    rewrite !top_S. rewrite <- En, (fw_head _ _ _ _ _ P).
    destruct (in_range start (length blocks) b); [reflexivity|].
    rewrite En. destruct (fl d (S n) b); [reflexivity|].
    rewrite (top_ext (fl d1) (fl d) n b); [reflexivity|]. intros i Hi. apply (fw_other _ _ _ _ _ P). lia. }
  unfold uimg, upd_range. rewrite Himg.
  assert (Hcl : length (concat blocks) = length blocks * K).
  { clear - Hl. induction blocks as [|v r IH]; [reflexivity|]. cbn [concat length]. rewrite app_length, IH.
    - rewrite (Hl v) by (left; reflexivity). lia.
    - intros; apply Hl; right; assumption. }
  rewrite Hcl.
  pose proof (Nat.div_mod u K ltac:(lia)) as Hdm. pose proof (Nat.mod_upper_bound u K ltac:(lia)) as Hm.
  destruct (in_range_spec start (length blocks) (u / K)) as [E|E];
    destruct (in_range_spec (start * K) (length blocks * K) u) as [E'|E']; try reflexivity.
  - rewrite (nth_concat_uniform K) by assumption.
    destruct (divmod_shift K u start HK ltac:(nia)) as (A & B). rewrite A, B. reflexivity.
  - exfalso. apply E'. nia.
  - exfalso. apply E. split.
    + apply Nat.div_le_lower_bound; lia.
    + apply Nat.div_lt_upper_bound; nia.
Qed.

(** ** readModifyWrite *)
Lemma rmw_spec : forall K d buf off, 0 < K -> wf K d -> buf <> [] ->
  off mod K + length buf <= K -> off / K < nblk d ->
  let '(d1, hs) := rmw true K d buf off in
  stage K d d1 hs /\
  forall u, uimg K (fl d1) (nf d) u = upd_range (uimg K (fl d) (nf d)) off buf u.
Proof.
  intros K d buf off HK W Hne Hfit Hb. unfold rmw. destruct buf as [|x buf']; [contradiction|].
  set (buf := x :: buf') in *.
  pose proof (full_read_spec K 1 d (off / K) (wf_nf _ _ W) (wf_loc _ _ W) ltac:(lia)) as HR.
  destruct (full_read K d 1 (off / K)) as [blks d']. destruct HR as (Hblks & Hm).
  cbn [seq map] in Hblks. subst blks.
  set (rb := img K (fl d) (nf d) (off / K)).
  assert (Hrb : length rb = K) by (apply img_length; assumption).
  pose proof (memo_wf K _ _ Hm W) as W'.
  pose proof Hm as (E1 & E2 & _ & _ & _ & _ & _ & E8 & _).
  set (nb := splice rb (off mod K) buf).
  assert (Hnb : length nb = K) by (unfold nb; rewrite length_splice; lia).
  pose proof (full_write_spec d' (off / K) [nb] (wf_loc _ _ W')) as P.
  destruct (full_write true d' (off / K) [nb]) as [d1 hs].
  assert (Hl : forall v, In v [nb] -> length v = K) by (intros v [<-|[]]; assumption).
  split.
  - replace hs with ([] ++ hs) by reflexivity.
    eapply stage_trans; [apply stage_memo; eassumption|].
    eapply stage_fw; eauto. cbn [length]. lia.
  - intros u. rewrite <- E1. rewrite (fw_uimg K d' (off / K) [nb] d1 hs u HK W' Hl P).
    rewrite E1, E2. cbn [concat]. rewrite app_nil_r.
    unfold upd_range. rewrite Hnb.
    pose proof (Nat.div_mod off K ltac:(lia)) as Hdm. pose proof (Nat.mod_upper_bound off K ltac:(lia)) as Hmo.
    destruct (in_range_spec (off / K * K) K u) as [E|E].
    + (* u lies in the block that was read, modified and written back *)
      assert (Hq : u / K = off / K).
      { symmetry. apply (Nat.div_unique u K (off / K) (u - off / K * K)); lia. }
      assert (Hr : u mod K = u - off / K * K).
      { symmetry. apply (Nat.mod_unique u K (off / K) (u - off / K * K)); lia. }
      unfold nb. rewrite nth_splice by lia.
      destruct (in_range_spec (off mod K) (length buf) (u - off / K * K)) as [F|F];
        destruct (in_range_spec off (length buf) u) as [F'|F']; try lia.
      * f_equal. lia.
      * unfold uimg. rewrite Hq, Hr. reflexivity.
    + destruct (in_range_spec off (length buf) u) as [F'|F']; [exfalso; apply E; nia|reflexivity].
Qed.

(** ** WriteAt: the three-way split writes exactly [off, off + len) *)
Theorem write_at_spec : forall K d data off, 0 < K -> wf K d ->
  off + length data <= nblk d * K ->
  let '(d1, hs) := write_at true K d data off in
  stage K d d1 hs /\
  forall u, uimg K (fl d1) (nf d) u = upd_range (uimg K (fl d) (nf d)) off data u.
Proof.
  intros K d data off HK W Hrange. unfold write_at.
  pose proof (Nat.div_mod off K ltac:(lia)) as Hdm. pose proof (Nat.mod_upper_bound off K ltac:(lia)) as Hmo.
  pose proof (Nat.div_mod (length data + off) K ltac:(lia)) as Hdm2.
  pose proof (Nat.mod_upper_bound (length data + off) K ltac:(lia)) as Hmo2.
  destruct (Nat.eqb_spec (length data) 0) as [E0|N0].
  { split; [now apply stage_refl|]. intros u. destruct data; [|discriminate]. now rewrite upd_range_nil. }
  destruct ((off mod K =? 0) && ((length data + off) mod K =? 0)) eqn:Eal.
  { (* aligned *)
    apply andb_true_iff in Eal. destruct Eal as [A1 A2]. apply Nat.eqb_eq in A1, A2.
    assert (Hlen : length data = length data / K * K).
    { assert ((length data) mod K = 0).
      { replace (length data) with ((length data + off) - off / K * K) by lia.
        destruct (divmod_shift K (length data + off) (off / K) HK ltac:(lia)) as (_ & B). rewrite B. assumption. }
      pose proof (Nat.div_mod (length data) K ltac:(lia)). lia. }
    set (n := length data / K) in *.
    pose proof (full_write_spec d (off / K) (chunks K n data) (wf_loc _ _ W)) as P.
    destruct (full_write true d (off / K) (chunks K n data)) as [d1 hs].
    assert (Hl : forall v, In v (chunks K n data) -> length v = K) by (intros v; apply chunks_len; lia).
    split.
    - eapply stage_fw; eauto. rewrite chunks_length. nia.
    - intros u. rewrite (fw_uimg K d (off / K) _ d1 hs u HK W Hl P).
      rewrite concat_chunks by lia. rewrite <- Hlen, firstn_all.
      replace (off / K * K) with off by lia. reflexivity. }
  destruct (Nat.leb_spec (length data) (K - off mod K)) as [Hsingle|Hmulti].
  { (* inside one block *)
    apply rmw_spec; auto.
    - destruct data; [cbn in N0; lia|discriminate].
    - lia.
    - apply Nat.div_lt_upper_bound; lia. }
  (* head fragment, whole blocks, tail fragment *)
  set (sc := K - off mod K) in *.
  set (eo := (length data + off) mod K) in *.
  set (A := firstn sc data).
  set (mid := firstn (length data - eo - sc) (skipn sc data)).
  set (C := skipn (length data - eo) data).
  assert (HlenA : length A = sc) by (unfold A; rewrite firstn_length; lia).
  assert (Heo : eo + sc <= length data).
  { (* the write reaches past the next block boundary, so its end offset within the last block is
       at most what lies beyond that boundary *)
    unfold eo, sc.
    assert (Hb : length data + off = (length data - (K - off mod K)) + (off / K + 1) * K) by lia.
    rewrite Hb. rewrite Nat.mod_add by lia.
    pose proof (Nat.mod_le (length data - (K - off mod K)) K ltac:(lia)). lia. }
  assert (HlenM : length mid = length data - eo - sc).
  { unfold mid. rewrite firstn_length, skipn_length. lia. }
  assert (HlenC : length C = eo) by (unfold C; rewrite skipn_length; lia).
  assert (Hdata : data = A ++ mid ++ C).
  { unfold A, mid, C. rewrite <- (firstn_skipn sc data) at 1. f_equal.
    rewrite <- (firstn_skipn (length data - eo - sc) (skipn sc data)) at 1. f_equal.
    rewrite skipn_plus. f_equal. lia. }
  (* stage 1 *)
  pose proof (rmw_spec K d A off HK W) as R1.
  destruct (rmw true K d A off) as [d1 h1].
  destruct R1 as (S1 & U1).
  { intro E. rewrite E in HlenA. cbn in HlenA. lia. }
  { lia. }
  { apply Nat.div_lt_upper_bound; lia. }
  pose proof (st_wf _ _ _ _ S1) as W1.
  destruct (st_meta _ _ _ _ S1) as (E1 & _ & _ & _ & _ & _ & E1b & _).
  (* stage 2 *)
  assert (Hmidal : (off + sc) mod K = 0 /\ (off + sc) / K = off / K + 1).
  { assert (Hs : off + sc = (off / K + 1) * K) by (unfold sc; lia).
    rewrite Hs. split; [apply Nat.mod_mul; lia| apply Nat.div_mul; lia]. }
  destruct Hmidal as (Hm0 & Hmq).
  assert (HlenMk : length mid = length mid / K * K).
  { assert (length mid mod K = 0).
    { rewrite HlenM. unfold eo, sc.
      assert (Hb : length data + off = (length data - (length data + off) mod K - (K - off mod K)) + (off / K + 1) * K + (length data + off) mod K) by (unfold eo, sc in Heo; lia).
      pose proof (Nat.div_mod (length data + off) K ltac:(lia)) as Hq.
      (* (len+off) = q*K + eo  and  off + sc = (off/K+1)*K, hence mid = (q - off/K - 1) * K *)
      assert (Hmid : length data - (length data + off) mod K - (K - off mod K)
                     = ((length data + off) / K - (off / K + 1)) * K).
      { unfold eo, sc in Heo. nia. }
      rewrite Hmid. apply Nat.mod_mul. lia. }
    pose proof (Nat.div_mod (length mid) K ltac:(lia)). lia. }
  set (n := length mid / K) in *.
  pose proof (full_write_spec d1 ((off + sc) / K) (chunks K n mid) (wf_loc _ _ W1)) as P2.
  destruct (full_write true d1 ((off + sc) / K) (chunks K n mid)) as [d2 h2].
  assert (Hl2 : forall v, In v (chunks K n mid) -> length v = K) by (intros v; apply chunks_len; lia).
  assert (S2 : stage K d1 d2 h2).
  { eapply stage_fw; eauto. rewrite chunks_length, E1b, Hmq. nia. }
  pose proof (st_wf _ _ _ _ S2) as W2.
  destruct (st_meta _ _ _ _ S2) as (E2 & _ & _ & _ & _ & _ & E2b & _).
  assert (U2 : forall u, uimg K (fl d2) (nf d) u = upd_range (uimg K (fl d1) (nf d)) (off + sc) mid u).
  { intros u. rewrite <- E1. rewrite (fw_uimg K d1 _ _ d2 h2 u HK W1 Hl2 P2).
    rewrite concat_chunks by lia. rewrite <- HlenMk, firstn_all.
    replace ((off + sc) / K * K) with (off + sc) by (rewrite Hmq; unfold sc; lia). reflexivity. }
  (* stage 3 *)
  destruct (Nat.eq_dec eo 0) as [Ez|Enz].
  { (* no tail fragment: buf is empty and readModifyWrite returns at once *)
    assert (C = []) by (destruct C; [reflexivity|cbn in HlenC; lia]).
    unfold rmw. fold C. rewrite H.
    split.
    - rewrite app_nil_r. eapply stage_trans; eauto.
    - intros u. rewrite <- E1 at 1. rewrite <- E2. rewrite E2, E1. rewrite U2.
      rewrite (upd_range_ext _ _ _ _ _ U1). replace (off + sc) with (off + length A) by lia. rewrite upd_range_app.
      rewrite Hdata, H, app_nil_r. reflexivity. }
  pose proof (rmw_spec K d2 C (off + length data - eo) HK W2) as R3.
  fold C. destruct (rmw true K d2 C (off + length data - eo)) as [d3 h3].
  assert (Hend : (off + length data - eo) mod K = 0 /\ (off + length data - eo) / K = (length data + off) / K).
  { assert (Hs : off + length data - eo = (length data + off) / K * K) by (unfold eo; lia).
    rewrite Hs. split; [apply Nat.mod_mul; lia|apply Nat.div_mul; lia]. }
  destruct Hend as (He0 & Heq).
  destruct R3 as (S3 & U3).
  { intro E. rewrite E in HlenC. cbn in HlenC. lia. }
  { lia. }
  { rewrite Heq, E2b, E1b. apply Nat.div_lt_upper_bound; [lia|].
    assert (length data + off <> nblk d * K).
    { intro E. unfold eo in Enz. rewrite E, Nat.mod_mul in Enz by lia. lia. }
    lia. }
  split.
  - eapply stage_trans; [exact S1|]. eapply stage_trans; eauto.
  - intros u. rewrite <- E1 at 1. rewrite <- E2 at 1. rewrite U3. rewrite E2, E1.
    rewrite (upd_range_ext _ (upd_range (upd_range (uimg K (fl d) (nf d)) off A) (off + sc) mid)).
    + rewrite (upd_range_ext _ (upd_range (uimg K (fl d) (nf d)) off (A ++ mid))).
      * replace (off + length data - eo) with (off + length (A ++ mid)) by (rewrite app_length; lia).
        rewrite upd_range_app. rewrite <- app_assoc, <- Hdata. reflexivity.
      * intros x. replace (off + sc) with (off + length A) by lia. apply upd_range_app.
    + intros x. rewrite U2. apply upd_range_ext. exact U1.
Qed.
